/-
  Line-protocol verbs for C15 (times in milliseconds, decimal).

    deadline <stacking> <limits> <t> <events>     → closed <t> <phase> <anchor> | open <phase>
        stacking = three flags  proxy tls mitm, e.g. `101`
        limits   = idle,readHeader,read,tls,proxyHdr[,write]      (five numbers: write = 0)
        t        = instant the connection's goroutine starts (its first use of the connection)
        events   = list of  <t>:<kind>   kind ∈ d (data) | c (complete) | hn | hb | hm (head: no body /
                   with body / intercepted CONNECT) | rs (the proxy starts writing the response) |
                   tu (the tunnel is up: 2xx to CONNECT / 101 written) | pk (a body byte that is only peeked:
                   the first byte of the CRLF ending a chunked body);  `~` = no event
                   evaluated by `runK` (the keep-alive loop with the reader: d / h* events that arrive while
                   the proxy serves the previous request are kept and consumed when the loop comes round;
                   equal to `run` when nothing is sent ahead — `c15_loop_agrees_without_write_ahead`)
    timeouts <stacking> <limits> <t> <events>     → list of instants at which the read of a request body is abandoned
                   at its deadline t0 + ReadTimeout and answered with 504 Gateway Timeout, the connection staying
                   open (F49; `timeoutsK`);  `~` = none
    accept <stacking> <limits> <free> <peers>     → list of <accept>:<start>
        peers    = list of  <arrive>:<hdr>   hdr = instant the PROXY header is complete, `x` = never
                   (what a peer sends does not enter the accept loop; it is part of the request all the same)
    holds close <limit> <elapsed> <eps> <slack>   → true | false early | false late
    limit <limits> <phase>                        → <n>     (0 = none)
-/
import FwdVerif.Model.C15

namespace FwdVerif
namespace C15

open Wire

def phaseName : Phase → String
  | .proxyHeader => "proxyHeader" | .tlsHandshake => "tlsHandshake" | .idle => "idle"
  | .header => "header" | .body => "body" | .mitmPeek => "mitmPeek"
  | .mitmHandshake => "mitmHandshake" | .waitingForOrigin => "waitingForOrigin"
  | .writing => "writing" | .tunnel => "tunnel"

def phaseOf : String → Option Phase
  | "proxyHeader" => some .proxyHeader | "tlsHandshake" => some .tlsHandshake | "idle" => some .idle
  | "header" => some .header | "body" => some .body | "mitmPeek" => some .mitmPeek
  | "mitmHandshake" => some .mitmHandshake | "waitingForOrigin" => some .waitingForOrigin
  | "writing" => some .writing | "tunnel" => some .tunnel
  | _ => none

def stackingOf (s : String) : Option Stacking :=
  match s.toList with
  | [a, b, c] => do
    let f (x : Char) : Option Bool := if x = '1' then some true else if x = '0' then some false else none
    pure ⟨← f a, ← f b, ← f c⟩
  | _ => none

def limitsOf (s : String) : Option Limits :=
  match natList s with
  | some [a, b, c, d, e] => some ⟨a, b, c, d, e, 0⟩
  | some [a, b, c, d, e, w] => some ⟨a, b, c, d, e, w⟩
  | _ => none

def evOf : String → Option Ev
  | "d" => some .data | "c" => some .complete
  | "hn" => some (.head .noBody) | "hb" => some (.head .withBody) | "hm" => some (.head .connectMitm)
  | "rs" => some .respStart | "tu" => some .tunnelUp | "pk" => some .peeked
  | _ => none

def timedEvOf (s : String) : Option (Nat × Ev) :=
  match s.splitOn ":" with
  | [t, k] => do pure (← natOf t, ← evOf k)
  | _ => none

def optNatOf (s : String) : Option (Option Nat) :=
  if s = "x" then some none else (natOf s).map some

def peerOf (s : String) : Option Peer :=
  match s.splitOn ":" with
  | [a, h] => do
    let a ← natOf a
    let h ← optNatOf h
    pure ⟨a, match h with | some h => [(h, .complete)] | none => []⟩
  | _ => none

def showOutcome : Outcome → String
  | .closed t p a => s!"closed {t} {phaseName p} {a}"
  | .stays c => s!"open {phaseName c.phase}"

def handle : List String → String
  | ["deadline", st, lim, t, evs] =>
    match stackingOf st, limitsOf lim, natOf t, (splitList evs).mapM timedEvOf with
    | some S, some L, some t, some es => showOutcome (runK S L ⟨accepted S L t, []⟩ es)
    | _, _, _, _ => "bad-op"
  | ["timeouts", st, lim, t, evs] =>
    match stackingOf st, limitsOf lim, natOf t, (splitList evs).mapM timedEvOf with
    | some S, some L, some t, some es => joinList ((timeoutsK S L ⟨accepted S L t, []⟩ es).map toString)
    | _, _, _, _ => "bad-op"
  | ["accept", st, lim, free, peers] =>
    match stackingOf st, limitsOf lim, natOf free, (splitList peers).mapM peerOf with
    | some S, some L, some free, some ps =>
      joinList ((serve S L free ps).map fun (a, s) => s!"{a}:{s}")
    | _, _, _, _ => "bad-op"
  | ["holds", "close", limit, elapsed, eps, slack] =>
    match natOf limit, natOf elapsed, natOf eps, natOf slack with
    | some l, some e, some ep, some sl => closeVerdict l e ep sl
    | _, _, _, _ => "bad-op"
  | ["limit", lim, p] =>
    match limitsOf lim, phaseOf p with
    | some L, some p => toString (limitOf L p)
    | _, _ => "bad-op"
  | _ => "bad-op"

end C15
end FwdVerif
