/- Line-protocol verbs of C04 (access control). -/
import FwdVerif.Driver.Req
import FwdVerif.Model.C04

namespace FwdVerif
namespace C04

open Wire Req

/-- `tf=wd-hs-he,…` -/
def decodeTimeFrames (s : String) : Option (List TimeFrame) :=
  (splitList s).mapM fun e =>
    match e.splitOn "-" with
    | [w, a, b] => do some { weekday := (← natOf w), hourStart := (← natOf a), hourEnd := (← natOf b) }
    | _ => none

/-- `ip,name,name;ip,name;…` (hex atoms): the records of a hosts file -/
def decodeHostsRecords (s : String) : Option (List HostsRecord) :=
  (splitList2 s).mapM fun e =>
    match splitList e with
    | ip :: names => do some { ip := (← bytesOfHex ip), names := (← names.mapM bytesOfHex) }
    | [] => none

def encodeHostsRecords (recs : List HostsRecord) : String :=
  joinList2 (recs.map fun r => joinList ((r.ip :: r.names).map hexOfBytes))

/-- configuration of the request pipeline; when `tf=` and `now=wd,hour` are given the time-frame
    control is evaluated by the model instead of being passed in as `time=`; when `hostsrec=` is given
    the localhost names are composed by the model from the hosts file's records (`hpLocalhost`)
    instead of being passed in as `localnames=` -/
def decodeCfg (t : List String) : Option Cfg := do
  let cfg0 ← Req.decodeCfg t
  let cfg ← match kv t "hostsrec" with
    | some h => do
      let recs ← decodeHostsRecords h
      some { cfg0 with localhostNames := hpLocalhost (localhostAliases recs) }
    | none => some cfg0
  match kv t "tf", kv t "now", kv t "at" with
  | some tf, _, some inst =>
    -- `at=unix,offset`: the model reads the local wall clock itself
    let es ← decodeTimeFrames tf
    match splitList inst with
    | [u, o] => some { cfg with timeAllowed := timeAllowedAt es (← intOf u) (← intOf o) }
    | _ => none
  | some tf, some now, none =>
    let es ← decodeTimeFrames tf
    match splitList now with
    | [w, h] => some { cfg with timeAllowed := timeAllowed es (← natOf w) (← natOf h) }
    | _ => none
  | _, _, _ => some cfg

def ipString : Option (List Nat) → String
  | none => "none"
  | some fs => "ip " ++ joinList (fs.map toString)

/-- `server=loop|handler`: the serving path (absent = the connection loop, answered by the pipeline verbs as before) -/
def decodeServer (t : List String) : Option (Option ServerVariant) :=
  match kv t "server" with
  | none => some none
  | some "loop" => some (some .connLoop)
  | some "handler" => some (some .handler)
  | some _ => none

/-- `<outcome> # <actions> [# <error headers>]` of a non-CONNECT request on a serving path; `nohost` = the
    proxy's own error response after the modifiers passed (no URL host to dial), `srvbadreq` = net/http's
    server answered 400 itself -/
def answerRequestV (v : ServerVariant) (cfg : Cfg) (ctx : Ctx) (r : Request) : String :=
  let acts := encodeActions (requestActionsV v cfg ctx r)
  match processRequestV v cfg ctx r with
  | .served o =>
    let base := s!"{encodeOutcome o} # {acts}"
    match o with
    | .refused _ why => s!"{base} # {encodeErrorHeaders cfg why}"
    | _ => base
  | .serverRefused => s!"srvbadreq # {acts}"
  | .noHost => s!"nohost # {acts}"

def answerConnectV (v : ServerVariant) (cfg : Cfg) (ctx : Ctx) (c : ConnectReq) : String :=
  let o := processConnectV v cfg ctx c
  let base := s!"{encodeConnectOutcome o} # {encodeActions (connectActionsV v cfg ctx c)}"
  match o with
  | .refused _ why => s!"{base} # {encodeErrorHeaders cfg why}"
  | _ => base

def handle : List String → String
  | "request" :: toks =>
    match decodeCfg toks, decodeCtx toks, decodeReq toks, decodeServer toks with
    | some cfg, some ctx, some r, some none => answerRequest cfg ctx r
    | some cfg, some ctx, some r, some (some v) => answerRequestV v cfg ctx r
    | _, _, _, _ => "bad-op"
  | "connect" :: toks =>
    match decodeCfg toks, decodeCtx toks, decodeConnect toks, decodeServer toks with
    | some cfg, some ctx, some c, some none => answerConnect cfg ctx c
    | some cfg, some ctx, some c, some (some v) => answerConnectV v cfg ctx c
    | _, _, _, _ => "bad-op"
  | ["islocal", names, host] =>
    match bytesList names, bytesOfHex host with
    | some ns, some h =>
      let cfg : Cfg := { tag := [], name := [], localhostNames := ns }
      s!"impl={ofBool (isLocalhost cfg h)} spec={ofBool (isLocalhostSpec cfg h)} loopback={ofBool (isLoopbackLiteral (Ascii.lower h))} unspecified={ofBool (isUnspecifiedLiteral (Ascii.lower h))}"
    | _, _ => "bad-op"
  | ["localhostof", recs, host] =>
    -- the alias list `hostsfile.LocalhostAliases` yields for the records, and the classifier of an
    -- instance constructed with that hosts file
    match decodeHostsRecords recs, bytesOfHex host with
    | some rs, some h => s!"aliases={hexList (localhostAliases rs)} local={ofBool (isLocalhostOf (localhostAliases rs) h)}"
    | _, _ => "bad-op"
  | ["hostsdecode", src] =>
    -- what `NewHTTPProxy` makes of a hosts file: it fails (`err=`), or the records `Decode` yields, the
    -- aliases and `hp.localhost`; `loose=` are the records a reader that skips what it cannot read sees
    let source : Option HostsSource :=
      if src == "missing" then some .missing else if src == "unreadable" then some .unreadable
      else (bytesOfHex src).map .text
    match source with
    | none => "bad-op"
    | some source =>
      let loose := match source with
        | .text t => encodeHostsRecords (looseRecords hostsMaxToken (hostsLines t))
        | _ => "~"
      match source, hpLocalhostOf source with
      | _, .error e => s!"err={e.name} loose={loose}"
      | .text t, .ok names =>
        let recs := match decodeHosts t with | .ok rs => rs | .error _ => []
        s!"ok recs={encodeHostsRecords recs} aliases={hexList (localhostAliases recs)} names={hexList names} loose={loose}"
      | _, .ok names => s!"ok recs=~ aliases=~ names={hexList names} loose={loose}"
  | ["parseip", s] =>
    match bytesOfHex s with
    | some b => ipString (parseIP b)
    | none => "bad-op"
  | ["hostname", s] =>
    match bytesOfHex s with
    | some b => s!"ok {hexOfBytes (hostname b)} {hexOfBytes (urlPort b)}"
    | none => "bad-op"
  | ["auth", user, pass, value] =>
    match bytesOfHex user, bytesOfHex pass, bytesOfHex value with
    | some u, some p, some v => ofBool (authenticated u p v)
    | _, _, _ => "bad-op"
  | ["timeframe-at", tf, u, o] =>
    match decodeTimeFrames tf, intOf u, intOf o with
    | some es, some u, some o => s!"{ofBool (timeAllowedAt es u o)} {localWeekday u o} {localHour u o}"
    | _, _, _ => "bad-op"
  | ["timeframe", tf, w, h] =>
    match decodeTimeFrames tf, natOf w, natOf h with
    | some es, some w, some h => ofBool (timeAllowed es w h)
    | _, _, _ => "bad-op"
  | _ => "bad-op"

end C04
end FwdVerif
