/- Line-protocol verbs for C19. -/
import FwdVerif.Model.C19

namespace FwdVerif
namespace C19

open Wire

def formatOf : String → Option Format
  | "oneline" => some .oneLine
  | "plain" => some .plain
  | _ => none

/-
  describe <oneline|plain> <flag> <raw values: hex list>
      → `ok <hex>`   the value part that DescribeFlags prints for the flag (after `name=`)
      → `err`        a raw value is rejected by the flag's parser
  absent <secret hex> <text hex>
      → `true` | `false`   the decidable form of "the secret is not a substring of the text"
-/
def handle : List String → String
  | ["describe", fmt, flag, raws] =>
    match formatOf fmt, flagKind flag, bytesList raws with
    | some f, some (k, slice), some rs =>
      match mapOpt (describeValue k) rs with
      | some vs => s!"ok {hexOfBytes (renderValues f slice k vs)}"
      | none => "err"
    | _, _, _ => "bad-op"
  | ["absent", secret, text] =>
    match bytesOfHex secret, bytesOfHex text with
    | some s, some t => if isInfix s t then "false" else "true"
    | _, _ => "bad-op"
  | _ => "bad-op"

end C19
end FwdVerif
