/- Line-protocol verbs for C19. -/
import FwdVerif.Model.C19

namespace FwdVerif
namespace C19

open Wire

def formatOf : String → Option Format
  | "oneline" => some .oneLine
  | "plain" => some .plain
  | _ => none

def sourceOf : String → Option Source
  | "flag" => some .flag
  | "env" => some .env
  | "file" => some .file
  | _ => none

/-- `-` = none, `u:<user hex>` = user without password, `p:<user hex>:<password hex>` -/
def userinfoOf (s : String) : Option (Option Userinfo) :=
  match s.splitOn ":" with
  | ["-"] => some none
  | ["u", u] => (bytesOfHex u).map fun u => some ⟨u, none⟩
  | ["p", u, p] =>
    match bytesOfHex u, bytesOfHex p with
    | some u, some p => some (some ⟨u, some p⟩)
    | _, _ => none
  | _ => none

/-
  describe <oneline|plain> <flag> <raw values: hex list>
      → `ok <hex>`   the value part that DescribeFlags prints for the flag (after `name=`)
      → `err`        a raw value is rejected by the flag's parser
  absent <secret hex> <text hex>
      → `true` | `false`   the decidable form of "the secret is not a substring of the text"
  upstreamurl <scheme hex> <host:port hex> <userinfo of --proxy> <userinfo of the matching --credentials entry>
      → `ok <hex>`   the url attribute of the "using upstream proxy" line
  flagerr <flag|env|file> <flag> <raw values: hex list>
      → `ok <hex>`   `invalid argument … for "<flag>" flag: ` as printed for a rejected value
  cacerterr <raw hex>
      → `ok <hex>`   the error of a start-up whose --cacert-file value holds no certificate
  tlsload <--tls-cert-file raw hex> <--tls-key-file raw hex>          (`_` = flag not given)
      → `ok <cert hex> <key hex>`   the cert and key attributes of the debug record "loading TLS certificate"
      → `none`                      neither flag given: the record is not written
  inlineerr <raw value hex> <ok|offset>      (what base64.StdEncoding.DecodeString makes of the payload)
      → `data` | `file` (not an inline value) | `err <hex>`   the error text of ReadFileOrBase64
  pacproxy <string returned by FindProxyForURL: hex> <--credentials raw values: hex list>
      → `err <hex>`                 pacProxy fails the request with this error text
      → `direct`
      → `via <scheme hex> <host:port hex> <user hex|-> <password hex|->`   the proxy URL handed on (with the
                                    userinfo of the matching --credentials entry)
  logrecord <none|short-url|url|headers|body|errors> <status>
      → `nothing` | `record` | `record+headers`   what the request logger of a module in that mode writes for
                                    an exchange with that status (logRecord on an exchange that HAS header fields)
-/
def logModeOf : String → Option LogMode
  | "none" => some .none
  | "short-url" => some .shortURL
  | "url" => some .url
  | "headers" => some .headers
  | "body" => some .body
  | "errors" => some .errors
  | _ => none

def handle : List String → String
  | ["describe", fmt, flag, raws] =>
    match formatOf fmt, flagKind flag, bytesList raws with
    | some f, some (k, slice), some rs =>
      match mapOpt (describeValue k) rs with
      | some vs => s!"ok {hexOfBytes (renderValues f slice k vs)}"
      | none => "err"
    | _, _, _ => "bad-op"
  | ["upstreamurl", scheme, host, own, cred] =>
    match bytesOfHex scheme, bytesOfHex host, userinfoOf own, userinfoOf cred with
    | some sc, some h, some o, some c => s!"ok {hexOfBytes (upstreamLogURL ⟨sc, o, h⟩ c)}"
    | _, _, _, _ => "bad-op"
  | ["flagerr", src, flag, raws] =>
    match sourceOf src, flagKind flag, bytesList raws with
    | some sr, some (_, slice), some rs => s!"ok {hexOfBytes (invalidArgText sr flag slice rs)}"
    | _, _, _ => "bad-op"
  | ["cacerterr", raw] =>
    match bytesOfHex raw with
    | some r => s!"ok {hexOfBytes (caCertErrorText r)}"
    | none => "bad-op"
  | ["tlsload", cert, key] =>
    match bytesOfHex cert, bytesOfHex key with
    | some c, some k =>
      match tlsLoadAttrs c k with
      | some a => s!"ok {hexOfBytes a.cert} {hexOfBytes a.key}"
      | none => "none"
    | _, _ => "bad-op"
  | ["pacproxy", result, raws] =>
    match bytesOfHex result, bytesList raws with
    | some r, some rs =>
      match mapOpt parseHostPortUser rs with
      | none => "bad-op"
      | some t =>
        match pacProxy t r with
        | .error e => s!"err {hexOfBytes e}"
        | .direct => "direct"
        | .via u =>
          let opt (x : Option Bytes) : String := match x with
            | some b => hexOfBytes b
            | none => "-"
          s!"via {hexOfBytes u.scheme} {hexOfBytes u.host} {opt (u.user.map (·.user))} {opt (u.user.bind (·.pass))}"
    | _, _ => "bad-op"
  | ["inlineerr", raw, outcome] =>
    match bytesOfHex raw, (if outcome = "ok" then some (Except.ok []) else outcome.toNat?.map Except.error : Option (Except Nat Bytes)) with
    | some r, some o =>
      match readFileOrBase64 (fun _ => o) r with
      | .data _ => "data"
      | .file _ => "file"
      | .error e => s!"err {hexOfBytes e}"
    | _, _ => "bad-op"
  | ["logrecord", mode, status] =>
    match logModeOf mode, status.toNat? with
    | some m, some st =>
      match logRecord m ⟨[71], [47], [47], st, [104], [104], [], [], [], []⟩ with
      | none => "nothing"
      | some b => if b.reqHeaders = [] && b.resHeaders = [] then "record" else "record+headers"
    | _, _ => "bad-op"
  | ["absent", secret, text] =>
    match bytesOfHex secret, bytesOfHex text with
    | some s, some t => if isInfix s t then "false" else "true"
    | _, _ => "bad-op"
  | _ => "bad-op"

end C19
end FwdVerif
