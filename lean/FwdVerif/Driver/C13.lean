/-
  Line-protocol verbs for C13.

    path <kind> <method> <status> <werr>      → ok <events>
    expect <path;path;…>                      → ok requests=<n> inflight=<…> total=<…>
          path = kind,method,status,werr ; the model's counters after all these exchanges
    fold <events>                             → ok inflight=<…> total=<…>
    holds <requests> <inflight> <total>       → true | false <reason>   (on the implementation's counters)
    close <once> <n> <sched>                  → ok callbacks=<k> closes=<c> done=<d>
    listener <once> <ops>                     → ok accepted=<a> errors=<e> active=<g> closed=<k> allgone=<0|1>
          op = a<n> (accept, n closers) | e (accept error) | c<i>.<j>
    holdsconns <accepted> <closed> <active>   → true | false <reason>
    closer <guard> <n> <results> <dflt> <sched> → ok callbacks=<k> closes=<c> done=<d>
          the close machine over a wrapped Close that returns <results> (string over n|c|o = nil |
          net.ErrClosed | other error, `_` = empty) call by call and <dflt> afterwards; guard = once | none | notErrClosed
    listenerr <guard> <ops>                   → ok accepted=<a> errors=<e> active=<g> closed=<k> allgone=<0|1>
          op = a<n>/<results>/<dflt> | e | c<i>.<j>
    holdsclose <callbacks> <returned>         → true | false <reason>
    observe <rule> <ops>                      → ok rx=<n> tx=<n> in=<n> out=<n>
          op = r.<n> | w.<n> | f.<n> | io.<r|w|f>.<requested>.<done>.<err> ; rule = done (the code) | okonly
    holdsbytes <rx> <tx> <in> <out>           → true | false <reason>
    connectexit <order> <cf> <route> <tt> <hs> <after>
                                              → ok conn=<0|1> err=<0|1> events=<…> opened=<0|1> dialerr=<0|1> closes=<k> active=<g> allgone=<0|1>
          one way through handleConnectRequest from p.Connect on, as the dialer's metrics see it
          order = code (defer before the error check) | late (after it)
          cf    = unset | fallback | r<status or ->.<conn>.<err>          (what p.ConnectFunc returned)
          route = urlerr | scheme | direct.<ok> | http.<tls>.<ok>.<end> | socks.<ok>.<neg|est>
                  end = tls | hdr | wr | ctx | rep | <status of the proxy's reply>
          after = mre.<w> | pass.<w> | tun.<writeError|drainFailure|closed>.<forced>
          events: e = failed dial, o = connection dialled, c = Close call (comma list, `~` = empty)
    life <layout> <proxy> <tls> <ops>         → ok accepted=<a> errors=<e> active=<g> closed=<k> open=<sockets the proxy still holds> dropped=<n> allreturned=<0|1>
          accepted connections up to their first request on a listener with / without the PROXY protocol and TLS
          layout = code (defer conn.Close() before anything that can fail) | hsfirst (handshake above the defer)
          op = a (accept) | e (accept error) | <i>.ok (the current phase of connection i succeeds) |
               <i>.fp (it fails: peer) | <i>.ft (it fails: the layer's timer)

  events:   r.<METHOD> | w.<METHOD>.<status>      (comma list, `~` = empty)
  inflight: <METHOD>:<int>,…   (methods with a series, i.e. that occurred in an event)
  total:    <status>.<METHOD>:<n>,…
-/
import FwdVerif.Model.C13Life

namespace FwdVerif
namespace C13

open Wire

def encodeEvent : Event → String
  | .read m => s!"r.{m.name}"
  | .wrote m st => s!"w.{m.name}.{st}"

def decodeEvent (s : String) : Option Event :=
  match s.splitOn "." with
  | ["r", m] => (Method.ofName m).map .read
  | ["w", m, st] => do
    let m ← Method.ofName m
    let st ← natOf st
    pure (.wrote m st)
  | _ => none

def encodeEvents (evs : List Event) : String := joinList (evs.map encodeEvent)

def decodeEvents (s : String) : Option (List Event) := (splitList s).mapM decodeEvent

def decodeEnd : String → Option TunnelEnd
  | "writeError" => some .writeError
  | "drainFailure" => some .drainFailure
  | "closed" => some .closed
  | _ => none

/-- kinds that carry a tunnel end are written `<kind>/<end>`; an upgrade whose request asked to close the
    connection `upgrade/reqclose/<end>` -/
def decodePath (kind method status werr : String) : Option Path := do
  let m ← Method.ofName method
  let st ← natOf status
  let w ← boolOf werr
  match kind.splitOn "/" with
  | ["readError"] => some .readError
  | ["shutdownAfterRead"] => some (.shutdownAfterRead m)
  | ["refused"] => some (.refused m st w)
  | ["roundTripError"] => some (.roundTripError m st w)
  | ["transportConnectRejected"] => some (.transportConnectRejected m st w)
  | ["responseModifierError"] => some (.responseModifierError m st w)
  | ["response"] => some (.response m st w)
  | ["upgradeNonWritable"] => some (.upgradeNonWritable m w)
  | ["upgrade", e] => (decodeEnd e).map (.upgrade m false)
  | ["upgrade", "reqclose", e] => (decodeEnd e).map (.upgrade m true)
  | ["connectRefused"] => some (.connectRefused st w)
  | ["connectDialFailure"] => some (.connectDialFailure st w)
  | ["connectResponseModifierError"] => some (.connectResponseModifierError st w)
  | ["connectRejected"] => some (.connectRejected st w)
  | ["connectTunnel", e] => (decodeEnd e).map .connectTunnel
  | ["mitmResponseModifierError"] => some (.mitmResponseModifierError st w)
  | ["mitmWriteError"] => some .mitmWriteError
  | ["mitmHandoff"] => some .mitmHandoff
  | _ => none

def decodePathAtom (s : String) : Option Path :=
  match splitList s with
  | [k, m, st, w] => decodePath k m st w
  | _ => none

def dedup {α : Type} [DecidableEq α] : List α → List α
  | [] => []
  | a :: t => if a ∈ t then dedup t else a :: dedup t

def eventMethods (evs : List Event) : List Method :=
  let ms := evs.map fun | .read m => m | .wrote m _ => m
  Method.all.filter fun m => m ∈ ms

def eventKeys (evs : List Event) : List (Nat × Method) :=
  dedup (evs.filterMap fun | .read _ => none | .wrote m st => some (st, m))

def encodeCounters (c : Counters) (evs : List Event) : String :=
  let infl := (eventMethods evs).map fun m => s!"{m.name}:{c.inflight m}"
  let tot := (eventKeys evs).map fun k => s!"{k.1}.{k.2.name}:{c.total k.1 k.2}"
  s!"inflight={joinList infl} total={joinList tot}"

def decodeInflight (s : String) : Option (List (Method × Int)) :=
  (splitList s).mapM fun e =>
    match e.splitOn ":" with
    | [m, v] => do
      let m ← Method.ofName m
      let v ← intOf v
      pure (m, v)
    | _ => none

def decodeTotal (s : String) : Option (List ((Nat × Method) × Nat)) :=
  (splitList s).mapM fun e =>
    match e.splitOn ":" with
    | [k, v] =>
      match k.splitOn "." with
      | [st, m] => do
        let st ← natOf st
        let m ← Method.ofName m
        let v ← natOf v
        pure ((st, m), v)
      | _ => none
    | _ => none

def decodeLOp (s : String) : Option LOp :=
  if s = "e" then some .acceptError
  else if s.startsWith "a" then (natOf (s.drop 1).toString).map .accept
  else if s.startsWith "c" then
    match ((s.drop 1).toString).splitOn "." with
    | [i, j] => do
      let i ← natOf i
      let j ← natOf j
      pure (.close i j)
    | _ => none
  else none

def decodeResult : Char → Option CloseResult
  | 'n' => some .nil
  | 'c' => some .errClosed
  | 'o' => some .other
  | _ => none

def decodeResults (s : String) : Option (List CloseResult) :=
  if s = "_" then some [] else s.toList.mapM decodeResult

def decodeDflt (s : String) : Option CloseResult :=
  match s.toList with
  | [c] => decodeResult c
  | _ => none

def decodeGuard : String → Option Guard
  | "once" => some .once
  | "none" => some .none
  | "notErrClosed" => some .notErrClosed
  | _ => none

def decodeROp (s : String) : Option ROp :=
  if s = "e" then some .acceptError
  else if s.startsWith "a" then
    match ((s.drop 1).toString).splitOn "/" with
    | [n, rs, d] => do
      let n ← natOf n
      let rs ← decodeResults (if rs = "" then "_" else rs)
      let d ← decodeDflt d
      pure (.accept n (resOf rs d))
    | _ => none
  else if s.startsWith "c" then
    match ((s.drop 1).toString).splitOn "." with
    | [i, j] => do
      let i ← natOf i
      let j ← natOf j
      pure (.close i j)
    | _ => none
  else none

def decodeIoKind : String → Option IoKind
  | "r" => some .read
  | "w" => some .write
  | "f" => some .readFrom
  | _ => none

def decodeIoOp (s : String) : Option IoOp :=
  match s.splitOn "." with
  | ["r", n] => (natOf n).map .read
  | ["w", n] => (natOf n).map .write
  | ["f", n] => (natOf n).map .readFrom
  | ["io", k, r, d, e] => do
    let k ← decodeIoKind k
    let r ← natOf r
    let d ← natOf d
    let e ← boolOf e
    pure (.io k r d e)
  | _ => none

def decodeViaEnd : String → Option ViaEnd
  | "tls" => some .tlsFails
  | "hdr" => some .headerError
  | "wr" => some .writeError
  | "ctx" => some .ctxDone
  | "rep" => some .replyError
  | s => (natOf s).map .reply

def decodeRoute (s : String) : Option Route :=
  match s.splitOn "." with
  | ["urlerr"] => some .proxyURLError
  | ["scheme"] => some .unsupportedScheme
  | ["direct", ok] => (boolOf ok).map .direct
  | ["http", tls, ok, e] => do
    let tls ← boolOf tls
    let ok ← boolOf ok
    let e ← decodeViaEnd e
    pure (.viaHTTP tls ok e)
  | ["socks", ok, "neg"] => (boolOf ok).map fun ok => .viaSOCKS5 ok .negotiationFails
  | ["socks", ok, "est"] => (boolOf ok).map fun ok => .viaSOCKS5 ok .established
  | _ => none

def decodeConnectFn (s : String) : Option ConnectFn :=
  if s = "unset" then some .unset
  else if s = "fallback" then some .fallback
  else if s.startsWith "r" then
    match ((s.drop 1).toString).splitOn "." with
    | [res, c, e] => do
      let res ← if res = "-" then some none else (natOf res).map some
      let c ← boolOf c
      let e ← boolOf e
      pure (.result ⟨res, c, e⟩)
    | _ => none
  else none

def decodeAfter (s : String) : Option AfterConnect :=
  match s.splitOn "." with
  | ["mre", w] => (boolOf w).map .modifyResponseError
  | ["pass", w] => (boolOf w).map .passedOn
  | ["tun", e, f] => do
    let e ← decodeEnd e
    let f ← boolOf f
    pure (.tunnel e f)
  | _ => none

def decodeOrder : String → Option DeferOrder
  | "code" => some .beforeErrorCheck
  | "late" => some .afterErrorCheck
  | _ => none

def encodeDEv : DEv → String
  | .dialError => "e"
  | .opened => "o"
  | .close => "c"

def decodeALOp (s : String) : Option ALOp :=
  if s = "a" then some .accept
  else if s = "e" then some .acceptError
  else
    match s.splitOn "." with
    | [i, "ok"] => (natOf i).map fun i => .conn i .ok
    | [i, "fp"] => (natOf i).map fun i => .conn i (.fail .peer)
    | [i, "ft"] => (natOf i).map fun i => .conn i (.fail .timeout)
    | _ => none

def decodeLayout : String → Option Layout
  | "code" => some .code
  | "hsfirst" => some .handshakeFirst
  | _ => none

def handle : List String → String
  | ["path", kind, method, status, werr] =>
    match decodePath kind method status werr with
    | some p => s!"ok {encodeEvents p.events}"
    | none => "bad-op"
  | ["expect", paths] =>
    match (splitList2 paths).mapM decodePathAtom with
    | some ps =>
      let evs := ps.flatMap Path.events
      s!"ok requests={numRequests ps} {encodeCounters (run .zero evs) evs}"
    | none => "bad-op"
  | ["fold", events] =>
    match decodeEvents events with
    | some evs => s!"ok {encodeCounters (run .zero evs) evs}"
    | none => "bad-op"
  | ["holds", requests, inflight, total] =>
    match natOf requests, decodeInflight inflight, decodeTotal total with
    | some n, some infl, some tot =>
      if holdsQuiescent n infl tot then "true"
      else
        let bad := infl.filter fun e => e.2 != 0
        let sum := (tot.map (·.2)).sum
        if bad.isEmpty then s!"false requests-total-sum-{sum}-differs-from-requests-read-{n}"
        else s!"false in-flight-not-zero:{joinList (bad.map fun e => s!"{e.1.name}={e.2}")}"
    | _, _, _ => "bad-op"
  | ["close", once, n, sched] =>
    match boolOf once, natOf n, natList sched with
    | some o, some n, some sc =>
      let s := (CloseSt.init n).run o sc
      s!"ok callbacks={s.callbacks} closes={s.closes} done={s.doneCount}"
    | _, _, _ => "bad-op"
  | ["listener", once, ops] =>
    match boolOf once, (splitList ops).mapM decodeLOp with
    | some o, some ops =>
      let s := LSt.init.run o ops
      s!"ok accepted={s.accepted} errors={s.errors} active={s.active} closed={s.closedCount} allgone={ofBool s.allGone}"
    | _, _ => "bad-op"
  | ["holdsconns", accepted, closed, active] =>
    match natOf accepted, natOf closed, intOf active with
    | some a, some k, some g =>
      if holdsConns a k g then "true" else s!"false active-{g}-is-not-accepted-{a}-minus-closed-{k}-or-negative"
    | _, _, _ => "bad-op"
  | ["closer", guard, n, results, dflt, sched] =>
    match decodeGuard guard, natOf n, decodeResults results, decodeDflt dflt, natList sched with
    | some g, some n, some rs, some d, some sc =>
      let s := ((RCloseSt.init n).run g (resOf rs d) sc).base
      s!"ok callbacks={s.callbacks} closes={s.closes} done={s.doneCount}"
    | _, _, _, _, _ => "bad-op"
  | ["listenerr", guard, ops] =>
    match decodeGuard guard, (splitList ops).mapM decodeROp with
    | some g, some ops =>
      let s := RLSt.init.run g ops
      s!"ok accepted={s.accepted} errors={s.errors} active={s.active} closed={s.closedCount} allgone={ofBool s.allGone}"
    | _, _ => "bad-op"
  | ["holdsclose", callbacks, returned] =>
    match natOf callbacks, natOf returned with
    | some k, some r =>
      if holdsClose k r then "true" else s!"false close-callback-ran-{k}-times-after-{r}-Close-calls-returned"
    | _, _ => "bad-op"
  | ["observe", rule, ops] =>
    match (splitList ops).mapM decodeIoOp with
    | some ops =>
      if rule = "done" then
        let o := (Observer.mk 0 0).run ops
        s!"ok rx={o.rx} tx={o.tx} in={bytesIn ops} out={bytesOut ops}"
      else if rule = "okonly" then
        let o := (Observer.mk 0 0).runOkOnly ops
        s!"ok rx={o.rx} tx={o.tx} in={bytesIn ops} out={bytesOut ops}"
      else "bad-op"
    | none => "bad-op"
  | ["holdsbytes", rx, tx, i, o] =>
    match natOf rx, natOf tx, natOf i, natOf o with
    | some rx, some tx, some i, some o =>
      if holdsBytes rx tx i o then "true" else s!"false observer-rx-{rx}-tx-{tx}-but-the-connection-moved-in-{i}-out-{o}"
    | _, _, _, _ => "bad-op"
  | ["connectexit", order, cf, route, tt, hs, after] =>
    match decodeOrder order, decodeConnectFn cf, decodeRoute route, boolOf tt, boolOf hs, decodeAfter after with
    | some o, some cf, some route, some tt, some hs, some a =>
      let x : ConnectExit := ⟨cf, route, tt, hs, a⟩
      let evs := x.devents o
      let st := LSt.init.run true (dialOps 0 evs)
      s!"ok conn={ofBool x.result.conn} err={ofBool x.result.err} events={joinList (evs.map encodeDEv)} opened={ofBool (decide (DEv.opened ∈ evs))} dialerr={ofBool (decide (DEv.dialError ∈ evs))} closes={closesOf evs} active={st.active} allgone={ofBool st.allGone}"
    | _, _, _, _, _, _ => "bad-op"
  | ["life", layout, proxy, tls, ops] =>
    match decodeLayout layout, boolOf proxy, boolOf tls, (splitList ops).mapM decodeALOp with
    | some lay, some p, some t, some ops =>
      let s := ALSt.init.run lay ⟨p, t⟩ ops
      s!"ok accepted={s.accepted} errors={s.errors} active={s.active} closed={s.closedCount} open={s.openSockets} dropped={s.dropped} allreturned={ofBool s.allReturned}"
    | _, _, _, _ => "bad-op"
  | _ => "bad-op"

end C13
end FwdVerif
