/- Line-protocol verbs for C20. -/
import FwdVerif.Model.C20
import FwdVerif.Model.C20Stack

namespace FwdVerif
namespace C20

open Wire

def natTuple (s : String) : Option (List Nat) := (s.splitOn ",").mapM natOf

def encLim : Option Limiter → String
  | none => "none"
  | some l => s!"{l.rate}/{l.burst}"

def dirOf (n : Nat) : Option Dir :=
  if n = 0 then some .rx else if n = 1 then some .tx else none

/-- `reserve`: a chain of `ReserveN(t, n)` on one limiter; answers the waits (`x` = not ok) and
    the final token level in token-ns. -/
def reserveChain (l : Limiter) : LState → List (Nat × Nat) → List String → LState × List String
  | s, [], acc => (s, acc.reverse)
  | s, (t, n) :: rest, acc =>
    let r := reserveN l s t n
    reserveChain l r.1 rest ((match r.2 with | some w => toString w | none => "x") :: acc)

/-- `duplex`: every call's return time, two goroutines per connection (`stepQ`, what `Conn` does) or
    with a connection-level mutex held across the wait (`stepM`, what it must not do). -/
def allQ (L : Listener) : Duplex → List QOp → List Nat
  | _, [] => []
  | s, op :: rest => (stepQ L s op).2 :: allQ L (stepQ L s op).1 rest

def allM (L : Listener) : DuplexM → List QOp → List Nat
  | _, [] => []
  | s, op :: rest => (stepM L s op).2 :: allM L (stepM L s op).1 rest

def ctxOf (s : String) : Option WaitCtx :=
  if s = "conn" then some connWaitCtx
  else if s = "background" then some .background
  else if s = "listener" then some .listener
  else if s = "run" then some .run
  else none

/-- an event of a history: `t,c,n` = call, `C` = Listener.Close, `O` = re-open, `X` = Run's context cancelled -/
def evOf (s : String) : Option HEv :=
  if s = "C" then some .listenerClose
  else if s = "O" then some .listenerOpen
  else if s = "X" then some .runCancel
  else match natTuple s with
    | some [t, c, n] => some (.call { t := t, c := c, n := n })
    | _ => none

def encLayer : C08.Layer → String
  | .proxyproto => "proxyproto"
  | .ratelimit => "ratelimit"
  | .track => "track"
  | .tls => "tls"

def encLayers (s : List C08.Layer) : String :=
  if s.isEmpty then "-" else ",".intercalate (s.map encLayer)

/-- the listener value `Listen` stores, by variant: `product` = the code; `limiter-first`, `sibling-proxy` = NOT the code -/
def listenVariant (v : String) (c : C08.StackCfg) : Option LExpr :=
  if v = "product" then some (listenExpr c)
  else if v = "limiter-first" then some (limiterFirstListenExpr c)
  else if v = "sibling-proxy" then some (siblingListenExpr c)
  else none

def handle : List String → String
  | ["size", ip, frac, mult] =>
    -- SizeSuffix.Set: integer part, fraction digits (`~` = none), multiplier → bytes per second
    let ds := if frac = "~" then some [] else frac.toList.mapM (fun c => if c.isDigit then some (c.toNat - 48) else none)
    match natOf ip, ds, natOf mult with
    | some i, some d, some m => toString (sizeOf i d m)
    | _, _, _ => "bad-op"
  | ["burst", bw] =>
    match natOf bw with
    | some b => toString (burstOf b)
    | none => "bad-op"
  | ["wiring", rl, wl] =>
    match intOf rl, intOf wl with
    | some r, some w =>
      let L := effective (listenWiring r w)
      let N := newListener r w
      s!"{ofBool (listenWiring r w).isSome} {encLim L.rxLimiter} {encLim L.txLimiter} {encLim N.rxLimiter} {encLim N.txLimiter}"
    | _, _ => "bad-op"
  /- stackwiring <product|limiter-first|sibling-proxy> <proxy> <readLimit> <writeLimit> <track> <tls>: the stack of a
     connection accepted from `forwarder.Listener` in that configuration (socket upwards) and the limiters on its
     byte path (rx = the one its reads wait in, tx = its writes) -/
  | ["stackwiring", variant, px, rl, wl, tr, tl] =>
    match boolOf px, natOf rl, natOf wl, boolOf tr, boolOf tl with
    | some px, some rl, some wl, some tr, some tl =>
      let c : C08.StackCfg := { proxy := px, readLimit := rl, writeLimit := wl, trackTraffic := tr, tls := tl }
      match listenVariant variant c with
      | none => "bad-op"
      | some e =>
        let s := acceptLayers e c
        let L := limitersIn s c
        s!"layers={encLayers s} rx={encLim L.rxLimiter} tx={encLim L.txLimiter}"
    | _, _, _, _, _ => "bad-op"
  | ["reserve", rate, burst, ops] =>
    match natOf rate, natOf burst, (splitList2 ops).mapM natTuple with
    | some r, some b, some tuples =>
      if r = 0 then "bad-op" else
      match tuples.mapM (fun tu => match tu with | [t, n] => some (t, n) | _ => none) with
      | none => "bad-op"
      | some pairs =>
        let l : Limiter := { rate := r, burst := b }
        let res := reserveChain l l.init pairs []
        s!"ok {joinList res.2} {res.1.tokens} {res.1.last}"
    | _, _, _ => "bad-op"
  | ["run", rl, wl, ops] =>
    match intOf rl, intOf wl, (splitList2 ops).mapM natTuple with
    | some r, some w, some tuples =>
      match tuples.mapM (fun tu => match tu with
          | [t, c, d, n] => (dirOf d).map (fun d => ({ time := t, conn := c, dir := d, n := n } : Op))
          | _ => none) with
      | none => "bad-op"
      | some ops =>
        let L := effective (listenWiring r w)
        let res := run L (Sys.init L) ops
        s!"ok {joinList (res.2.map toString)}"
    | _, _, _ => "bad-op"
  | ["duplex", rl, wl, variant, ops] =>
    match intOf rl, intOf wl, (splitList2 ops).mapM natTuple with
    | some r, some w, some tuples =>
      match tuples.mapM (fun tu => match tu with
          | [c, d, io, n] => (dirOf d).map (fun d => ({ conn := c, dir := d, io := io, n := n } : QOp))
          | _ => none) with
      | none => "bad-op"
      | some ops =>
        let L := effective (listenWiring r w)
        if variant = "conn" then s!"ok {joinList ((allQ L (Duplex.init L) ops).map toString)}"
        else if variant = "mutex" then s!"ok {joinList ((allM L (DuplexM.init L) ops).map toString)}"
        else "bad-op"
    | _, _, _ => "bad-op"
  | ["history", rate, burst, cx, k, evs] =>
    match natOf rate, natOf burst, ctxOf cx, natOf k, (splitList2 evs).mapM evOf with
    | some r, some b, some cx, some k, some h =>
      if r = 0 then "bad-op" else
      let l : Limiter := { rate := r, burst := b }
      s!"ok {joinList ((retsH cx l { run := initRun l k, life := Life.start } h).map toString)}"
    | _, _, _, _, _ => "bad-op"
  | ["holds", rate, burst, k, w, bytes, t0, t1] =>
    match natOf rate, natOf burst, natOf k, natOf w, natOf bytes, natOf t0, natOf t1 with
    | some r, some b, some k, some w, some by_, some t0, some t1 =>
      if boundHolds r b k w by_ t0 t1 then "true" else "false throughput-bound-exceeded"
    | _, _, _, _, _, _, _ => "bad-op"
  | _ => "bad-op"

end C20
end FwdVerif
