/- Line-protocol verbs of C05 (routing). -/
import FwdVerif.Driver.Req
import FwdVerif.Driver.C17
import FwdVerif.Model.C05

namespace FwdVerif
namespace C05

open Wire Req

def decodeProxyURL : List String → Option (Option ProxyURL)
  | ["none"] => some none
  | [sc, h, "~"] => do some (some { scheme := (← bytesOfHex sc), host := (← bytesOfHex h) })
  | [sc, h, u, p] => do
    some (some { scheme := (← bytesOfHex sc), host := (← bytesOfHex h), user := some ((← bytesOfHex u), (← bytesOfHex p)) })
  | _ => none

def decodePacResult : List String → Option PacResult
  | ["fail"] => some .fail
  | ["ok", s] => do some (.ok (← bytesOfHex s))
  | _ => none

/-- `base=none | static,<url…> | pac | custom`, `pactable=host,ok|fail[,str];…`, `pacdflt=…`,
    `custable=host,<url…>;…`, `cusdflt=<url…>`, `direct=<rules>` (the `--direct-domains` values as C17's
    rule list `+<hex>` include / `-<hex>` exclude, `~` = empty; absent = not configured; a rule outside
    the fragment C17 models makes the request unparsable, never a verdict),
    `lhdirect=0|1`, `localnames=…`, `connectto=sh,sp,dh,dp;…` -/
def decodeRouteCfg (t : List String) : Option RouteCfg := do
  let base ← match splitList (kvD t "base" "none") with
    | ["none"] => some Base.none
    | "static" :: rest => do
      match ← decodeProxyURL rest with
      | some u => some (Base.static u)
      | none => none
    | ["pac"] => do
      let tbl ← (splitList2 (kvD t "pactable" "~")).mapM fun e =>
        match splitList e with
        | h :: rest => do some ((← bytesOfHex h), (← decodePacResult rest))
        | _ => none
      let d ← decodePacResult (splitList (kvD t "pacdflt" "ok,_"))
      some (Base.pac { table := tbl, dflt := d })
    | ["custom"] => do
      let tbl ← (splitList2 (kvD t "custable" "~")).mapM fun e =>
        match splitList e with
        | h :: rest => do some ((← bytesOfHex h), (← decodeProxyURL rest))
        | _ => none
      let d ← decodeProxyURL (splitList (kvD t "cusdflt" "none"))
      some (Base.custom tbl d)
    | _ => none
  let dd ← match kv t "direct" with
    | none => some none
    | some s => do
      let l ← C17.decodeRules s
      if C17.someUnsupported l then none else some (some l)
  let lhd ← boolOf (kvD t "lhdirect" "0")
  -- `aliases=` (hosts-file aliases; the built-in names are the model's) wins over `localnames=`
  let names ← match kv t "aliases" with
    | some a => (bytesList a).map hpLocalhost
    | none => bytesList (kvD t "localnames" "~")
  let ct ← (splitList2 (kvD t "connectto" "~")).mapM fun e =>
    match splitList e with
    | [a, b, c, d] => do
      some ({ srcHost := (← bytesOfHex a), srcPort := (← bytesOfHex b), dstHost := (← bytesOfHex c), dstPort := (← bytesOfHex d) } : HostPortPair)
    | _ => none
  some { base := base, directDomains := dd, localhostDirect := lhd, localhostNames := names, connectTo := ct }

/-- conditions in prefix notation: `H,k` `h,pat` `G,pat` `P,p` `C,s` `N,<c>` `A,<a>,<b>` -/
def parseCond : Nat → List String → Option (UrlCond × List String)
  | 0, _ => none
  | _ + 1, "H" :: k :: rest => do some (.hostIs (← bytesOfHex k), rest)
  | _ + 1, "h" :: k :: rest => do some (.hostGlob (← bytesOfHex k), rest)
  | _ + 1, "G" :: k :: rest => do some (.urlGlob (← bytesOfHex k), rest)
  | _ + 1, "P" :: k :: rest => do some (.urlPrefix (← bytesOfHex k), rest)
  | _ + 1, "C" :: k :: rest => do some (.urlContains (← bytesOfHex k), rest)
  | n + 1, "N" :: rest => do
    let (c, rest') ← parseCond n rest
    some (.not c, rest')
  | n + 1, "A" :: rest => do
    let (a, r1) ← parseCond n rest
    let (b, r2) ← parseCond n r1
    some (.and a b, r2)
  | _, _ => none

/-- `pacrules=<cond…>,ok|fail[,str];…` in front of the host table (`pactable=`) and `pacdflt=` -/
def decodeUrlScript (t : List String) : Option UrlScript := do
  let rules ← (splitList2 (kvD t "pacrules" "~")).mapM fun e => do
    let atoms := splitList e
    let (c, rest) ← parseCond atoms.length atoms
    some ({ cond := c, result := (← decodePacResult rest) } : UrlRule)
  let tbl ← (splitList2 (kvD t "pactable" "~")).mapM fun e =>
    match splitList e with
    | h :: rest => do some ((← bytesOfHex h), (← decodePacResult rest))
    | _ => none
  let d ← decodePacResult (splitList (kvD t "pacdflt" "ok,_"))
  let hostRules := (UrlScript.ofTable { table := tbl, dflt := d }).rules
  some { rules := rules ++ hostRules, dflt := d }

/-- `reqs=c|r,scheme,host,path,query|~;…` -/
def decodeReqs (s : String) : Option (List RouteReq) :=
  (splitList2 s).mapM fun e =>
    match splitList e with
    | [k, sc, h, p, q] => do
      let conn ← match k with | "c" => some true | "r" => some false | _ => none
      some { connect := conn, scheme := (← bytesOfHex sc), urlHost := (← bytesOfHex h), path := (← bytesOfHex p), query := (← optBytes q) }
    | _ => none

/-- the process environment: `envhttp=<url…>` `envhttps=<url…>` `envno=<hosts>`; `none` when no such
    token is given -/
def decodeAmbient (t : List String) : Option (Option Ambient) :=
  match kv t "envhttp", kv t "envhttps", kv t "envno" with
  | none, none, none => some none
  | a, b, c => do
    let hp ← decodeProxyURL (splitList (a.getD "none"))
    let hsp ← decodeProxyURL (splitList (b.getD "none"))
    let no ← bytesList (c.getD "~")
    some (some { httpProxy := hp, httpsProxy := hsp, noProxy := no })

def encodePac : Option PacResult → String
  | none => "none"
  | some .fail => "fail"
  | some (.ok s) => s!"ok {hexOfBytes s}"

def errName : RouteError → String
  | .pacScript => "pac-script" | .pacEntry => "pac-entry" | .unsupportedScheme _ => "unsupported-scheme"

def kindName : ProxyKind → String
  | .http => "http" | .https => "https" | .socks5 => "socks5"

def encodeRoute (rc : RouteCfg) : Except RouteError Hop → String
  | .error e => s!"err {errName e}"
  | .ok (.direct a) => s!"direct {hexOfBytes a} {hexOfBytes (dialAddr rc (.direct a))}"
  | .ok (.viaProxy k a) => s!"proxy {kindName k} {hexOfBytes a} {hexOfBytes (dialAddr rc (.viaProxy k a))}"

def handle : List String → String
  | "route" :: toks =>
    match decodeRouteCfg toks, bytesOfHex (kvD toks "scheme" "_"), bytesOfHex (kvD toks "host" "_") with
    | some rc, some sc, some h =>
      match kvD toks "kind" "request" with
      | "connect" => encodeRoute rc (routeConnect rc h)
      | "request" => encodeRoute rc (routeRequest rc sc h)
      | "spec" => encodeRoute rc (routeRequestSpec rc sc h)
      | _ => "bad-op"
    | _, _, _ => "bad-op"
  | "routeseq" :: toks =>
    -- one proxy instance folded over the requests; per request `<route> @ <script answer> @ <url>`
    match decodeRouteCfg toks, decodeReqs (kvD toks "reqs" "~") with
    | some rc, some qs =>
      let script? : Option (Option UrlScript) := match rc.base with
        | .pac _ => (decodeUrlScript toks).map some
        | _ => some none
      match script? with
      | none => "bad-op"
      | some sc =>
        if (sc.map UrlScript.modelled).getD true == false then "bad-op" else
        let c : InstCfg := { rc := rc, script := sc }
        -- with `env…=` tokens the decisions are those of an instance in a process with that environment
        let ds := match decodeAmbient toks with
          | some (some env) => qs.map (routeIn env c)
          | _ => runSeq c {} qs
        let items := (qs.zip ds).map fun (q, d) => s!"{encodeRoute (c.at q) d} @ {encodePac (scriptAnswer c q)} @ {hexOfBytes q.url}"
        s!"seq {ds.length} | " ++ " | ".intercalate items
    | _, _ => "bad-op"
  | ["glob", s, pat] =>
    match bytesOfHex s, bytesOfHex pat with
    | some b, some p => match C14.shExpMatch b p with
      | some r => ofBool r
      | none => "unmodelled"
    | _, _ => "bad-op"
  | ["islocalhost", al, h] =>
    match bytesList al, bytesOfHex h with
    | some a, some b => ofBool (isLocalhost a b)
    | _, _ => "bad-op"
  | ["directmatch", rules, hosts] =>
    -- the verdict of the `--direct-domains` list for every host: `ok <bits>` (`_` = no host)
    match C17.decodeRules rules, bytesList hosts with
    | some l, some hs =>
      if !hs.all C17.isAscii || C17.someUnsupported l then "unsupported"
      else s!"ok {C17.bits (hs.map (directMatch l))}"
    | _, _ => "bad-op"
  | ["pac", s] =>
    match bytesOfHex s with
    | some b =>
      match pacFirst b with
      | none => "err"
      | some none => "direct"
      | some (some p) =>
        match p.url with
        | none => "direct"
        | some u => s!"proxy {hexOfBytes u.scheme} {hexOfBytes p.host} {hexOfBytes p.port}"
    | none => "bad-op"
  | ["splithostport", s] =>
    match bytesOfHex s with
    | some b => match netSplitHostPort b with
      | some (h, p) => s!"ok {hexOfBytes h} {hexOfBytes p}"
      | none => "err"
    | none => "bad-op"
  | "dial" :: toks =>
    -- the attempts of one `Dialer.DialContext(addr)`: `attempts=n outcomes=0,1,…` → `ok|fail <addr>:<0|1>,…`
    match decodeRouteCfg toks, bytesOfHex (kvD toks "addr" "_"), natOf (kvD toks "attempts" "1"),
          (splitList (kvD toks "outcomes" "~")).mapM boolOf with
    | some rc, some a, some n, some os =>
      let as := dialAttempts { connectTo := rc.connectTo, attempts := n } a os
      s!"{if dialOk as then "ok" else "fail"} {joinList (as.map fun x => hexOfBytes x.addr ++ ":" ++ ofBool x.ok)}"
    | _, _, _, _ => "bad-op"
  | "redirect" :: toks =>
    match decodeRouteCfg toks, bytesOfHex (kvD toks "addr" "_") with
    | some rc, some a => s!"ok {hexOfBytes (redirect rc.connectTo a)}"
    | _, _ => "bad-op"
  | _ => "bad-op"

end C05
end FwdVerif
