/-
  Line-protocol verbs for C17.

  rule list  = comma list of `+<hex>` (include) / `-<hex>` (exclude), `~` = empty list
  host list  = comma list of hex strings
  bit string = one `0`/`1` per host, `_` when there is no host

    compile <src>                      → ok | err | unsupported
    item <val>                         → ok <exclude> <src> <printed> | err | unsupported       (ParseRegexpListItem / String)
    match <rules> <hosts>              → ok <bits Match> <bits Inverse().Match> | no-include | panic | unsupported
    rules <rules> <hosts>              → ok <bits of rule 1>,<bits of rule 2>,… (each rule on its own) | unsupported
    holds <rules> <hosts> <observed>   → true | false <index of first host where observed ≠ union-minus-excludes> | unsupported
    risk <rules>                       → <bits per rule>   (the rule, as ONE expression, is inside the class where Go's own
                                         alternation factoring deviates from the modelled semantics, see Model)
    eval <rules> <hosts> <observed>    → <match answer> | <rules answer> | <holds answer> | <risk answer>   (one round trip)

  the subject layer (Model/C17Subject.lean); an authority is the text of `req.URL.Host`:

    subject <authorities>              → ok <subjects>                 (hex list: `req.URL.Hostname()` of every authority)
    outcome <deny> <direct> <mitm> <connect bits> <authorities>
                                       → ok <one of D I X U per authority> | no-include | panic | unsupported
                                         (a list is `none` when the flag is not given; D = 403 by deny-domains,
                                          I = CONNECT intercepted, X = direct, U = through the upstream proxy)

    siteoutcome <mode> <aliases> <deny> <direct> <mitm> <connect bits> <authorities>
                                       → ok <one of L D I X U per authority> | no-include | panic | unsupported
                                         (Model/C17Local.lean: the lists composed with `--proxy-localhost=<mode>`,
                                          mode = deny | allow | direct; aliases = hex list of the hosts-file names of
                                          loopback addresses; L = 403 by the localhost refusal)

  concurrent use (Model/C17Conc.lean); a schedule is three parallel lists, one entry per call:

    conc <rules> <hosts> <callers> <via-inverse bits> <host indices>
                                       → ok <bits: the answer to every call, in schedule order> | no-include | panic | unsupported
                                         (`runSchedule`: the calls served in this order as transitions of the shared matcher)
-/
import FwdVerif.Model.C17
import FwdVerif.Model.C17Subject
import FwdVerif.Model.C17Conc
import FwdVerif.Model.C17Local

namespace FwdVerif
namespace C17

open Wire

def decodeRule (a : String) : Option Rule :=
  match a.toList with
  | '+' :: rest => (bytesOfHex (String.ofList rest)).map fun b => { src := b, exclude := false }
  | '-' :: rest => (bytesOfHex (String.ofList rest)).map fun b => { src := b, exclude := true }
  | _ => none

def decodeRules (s : String) : Option (List Rule) := (splitList s).mapM decodeRule

def bits (bs : List Bool) : String :=
  if bs.isEmpty then "_" else String.ofList (bs.map fun b => if b then '1' else '0')

def unbits (s : String) : Option (List Bool) :=
  if s = "_" then some [] else
  s.toList.mapM fun c => if c = '1' then some true else if c = '0' then some false else none

/-- every rule compiles inside the modelled fragment -/
def supported (l : List Rule) : Bool := l.all fun r => validSrc r.src

def someUnsupported (l : List Rule) : Bool :=
  l.any fun r => match compile r.src with | .error .unsupported => true | _ => false

/-- `hs.map r.search` with the compilation of the rule hoisted out of the loop over the hosts -/
def searchHosts (r : Rule) (hs : List Bytes) : List Bool :=
  match compile r.src with
  | .ok x => hs.map fun s => searchRx x s
  | .error _ => hs.map fun _ => false

theorem searchHosts_eq (r : Rule) (hs : List Bytes) : searchHosts r hs = hs.map r.search := by
  unfold searchHosts Rule.search
  cases compile r.src <;> rfl

/-- a rule compiled once: (exclude mark, `compile src`) -/
abbrev CRule := Bool × Except Err Rx

def CRule.search (c : CRule) (s : Bytes) : Bool :=
  match c.2 with
  | .ok x => searchRx x s
  | .error _ => false

def compileRules (l : List Rule) : List CRule := l.map fun r => (r.exclude, compile r.src)

/-- `specMatch` over rules compiled once -/
def specMatchC (cl : List CRule) (s : Bytes) : Bool :=
  (cl.filter fun c => !c.1).any (·.search s) && !(cl.filter fun c => c.1).any (·.search s)

theorem CRule.search_eq (r : Rule) (s : Bytes) : CRule.search (r.exclude, compile r.src) s = r.search s := by
  unfold CRule.search Rule.search
  cases compile r.src <;> rfl

theorem specMatchC_eq (l : List Rule) (s : Bytes) : specMatchC (compileRules l) s = specMatch l s := by
  simp [specMatchC, compileRules, specMatch, includes, excludes, List.filter_map, Function.comp_def,
    CRule.search_eq, List.any_map]

def answerMatch (res : Res) (hosts : List Bytes) : String :=
  match res with
  | .noInclude => "no-include"
  | .panic .unsupported => "unsupported"
  | .panic .syntax => "panic"
  | .ok m => s!"ok {bits (hosts.map m.matches)} {bits (hosts.map m.inv.matches)}"

def firstDiff : List Bool → List Bool → Nat → Option Nat
  | [], [], _ => none
  | a :: as, b :: bs, i => if a == b then firstDiff as bs (i + 1) else some i
  | _, _, i => some i

def handle1 : List String → String
  | ["compile", src] =>
    match bytesOfHex src with
    | none => "bad-op"
    | some s =>
      match compile s with
      | .ok _ => "ok"
      | .error .syntax => "err"
      | .error .unsupported => "unsupported"
  | ["item", val] =>
    match bytesOfHex val with
    | none => "bad-op"
    | some v =>
      match parseItem v with
      | .ok r => s!"ok {ofBool r.exclude} {hexOfBytes r.src} {hexOfBytes (printItem r)}"
      | .error .syntax => "err"
      | .error .unsupported => "unsupported"
  | ["match", rules, hosts] =>
    match decodeRules rules, bytesList hosts with
    | some l, some hs =>
      if !hs.all isAscii || someUnsupported l then "unsupported"
      else answerMatch (fromList l) hs
    | _, _ => "bad-op"
  | ["rules", rules, hosts] =>
    match decodeRules rules, bytesList hosts with
    | some l, some hs =>
      if !hs.all isAscii || !supported l then "unsupported"
      else s!"ok {joinList (l.map fun r => bits (searchHosts r hs))}"
    | _, _ => "bad-op"
  | ["holds", rules, hosts, observed] =>
    match decodeRules rules, bytesList hosts, unbits observed with
    | some l, some hs, some obs =>
      if !hs.all isAscii || !supported l then "unsupported"
      else match firstDiff (let cl := compileRules l; hs.map (specMatchC cl)) obs 0 with
        | none => "true"
        | some i => s!"false {i}"
    | _, _, _ => "bad-op"
  | _ => "bad-op"

/-- `risk <rules>` → `<per-rule bits>`: is the rule, taken as one expression, inside the class where
    Go's alternation factoring is known to drop a fold-case flag (nothing is joined any more, so
    there is no list-level bit) -/
def riskAnswer (l : List Rule) : String :=
  bits (l.map fun r => match compile r.src with | .ok x => x.foldRisk | .error _ => false)

def decodeOptRules (s : String) : Option (Option (List Rule)) :=
  if s = "none" then some none else (decodeRules s).map some

/-- the matcher of an optional list: `.ok none` = flag not given -/
def buildOpt : Option (List Rule) → Except String (Option Matcher)
  | none => .ok none
  | some l =>
    if someUnsupported l then .error "unsupported"
    else match fromList l with
      | .ok m => .ok (some m)
      | .noInclude => .error "no-include"
      | .panic .unsupported => .error "unsupported"
      | .panic .syntax => .error "panic"

def outcomeCode : Outcome → Char
  | .denied => 'D'
  | .intercepted => 'I'
  | .direct => 'X'
  | .upstream => 'U'

def zipOutcomes (L : Lists) : List Bool → List Bytes → List Char
  | c :: cs, a :: as => outcomeCode (outcome L c a) :: zipOutcomes L cs as
  | _, _ => []

def handleSubject : List String → Option String
  | ["subject", auths] =>
    match bytesList auths with
    | some as => some s!"ok {joinList (as.map fun a => hexOfBytes (subjectOf a))}"
    | none => some "bad-op"
  | ["outcome", deny, direct, mitm, conn, auths] =>
    match decodeOptRules deny, decodeOptRules direct, decodeOptRules mitm, unbits conn, bytesList auths with
    | some d, some x, some i, some cs, some as =>
      if cs.length != as.length then some "bad-op"
      else if !as.all isAscii then some "unsupported"
      else match buildOpt d, buildOpt x, buildOpt i with
        | .ok md, .ok mx, .ok mi =>
          some s!"ok {String.ofList (zipOutcomes { deny := md, direct := mx, mitm := mi } cs as)}"
        | .error e, _, _ => some e
        | _, .error e, _ => some e
        | _, _, .error e => some e
    | _, _, _, _, _ => some "bad-op"
  | _ => none

def siteOutcomeCode : SiteOutcome → Char
  | .localRefused => 'L'
  | .lists o => outcomeCode o

def zipSiteOutcomes (mode : LocalMode) (loc : Bytes → Bool) (L : Lists) : List Bool → List Bytes → List Char
  | c :: cs, a :: as => siteOutcomeCode (siteOutcome mode loc L c a) :: zipSiteOutcomes mode loc L cs as
  | _, _ => []

def decodeMode (s : String) : Option LocalMode :=
  if s = "deny" then some .deny else if s = "allow" then some .allow else if s = "direct" then some .direct else none

def handleSiteOutcome : List String → Option String
  | ["siteoutcome", mode, aliases, deny, direct, mitm, conn, auths] =>
    match decodeMode mode, bytesList aliases, decodeOptRules deny, decodeOptRules direct, decodeOptRules mitm,
        unbits conn, bytesList auths with
    | some md, some al, some d, some x, some i, some cs, some as =>
      if cs.length != as.length then some "bad-op"
      else if !as.all isAscii then some "unsupported"
      else match buildOpt d, buildOpt x, buildOpt i with
        | .ok md', .ok mx, .ok mi =>
          some s!"ok {String.ofList (zipSiteOutcomes md (localhostClass al) { deny := md', direct := mx, mitm := mi } cs as)}"
        | .error e, _, _ => some e
        | _, .error e, _ => some e
        | _, _, .error e => some e
    | _, _, _, _, _, _, _ => some "bad-op"
  | _ => none

def mkSchedule (hs : List Bytes) : List Nat → List Bool → List Nat → Option Schedule
  | c :: cs, i :: is, h :: ix =>
    match hs[h]?, mkSchedule hs cs is ix with
    | some host, some rest => some ((c, { viaInverse := i, host := host }) :: rest)
    | _, _ => none
  | [], [], [] => some []
  | _, _, _ => none

def handleConc : List String → Option String
  | ["conc", rules, hosts, callers, invs, idx] =>
    match decodeRules rules, bytesList hosts, natList callers, unbits invs, natList idx with
    | some l, some hs, some cs, some is, some ix =>
      if !hs.all isAscii || someUnsupported l then some "unsupported"
      else match mkSchedule hs cs is ix with
        | none => some "bad-op"
        | some sched =>
          match fromList l with
          | .ok m => some s!"ok {bits ((runSchedule m sched).map (·.2))}"
          | .noInclude => some "no-include"
          | .panic .unsupported => some "unsupported"
          | .panic .syntax => some "panic"
    | _, _, _, _, _ => some "bad-op"
  | _ => none

/-- `eval <rules> <hosts> <observed>` = the answers of `match`, `rules`, `holds` and `risk` in one
    round trip, separated by ` | ` -/
def handle : List String → String
  | ["eval", rules, hosts, observed] =>
    let a := handle1 ["match", rules, hosts]
    let r := handle1 ["rules", rules, hosts]
    let h := handle1 ["holds", rules, hosts, observed]
    match decodeRules rules with
    | none => "bad-op"
    | some l =>
      if a = "bad-op" ∨ r = "bad-op" ∨ h = "bad-op" then "bad-op" else s!"{a} | {r} | {h} | {riskAnswer l}"
  | ["risk", rules] =>
    match decodeRules rules with
    | none => "bad-op"
    | some l => riskAnswer l
  | req =>
    match handleSubject req with
    | some a => a
    | none =>
      match handleSiteOutcome req with
      | some a => a
      | none =>
      match handleConc req with
      | some a => a
      | none => handle1 req

end C17
end FwdVerif
