/- Line-protocol verbs for C07. -/
import FwdVerif.Model.C07

namespace FwdVerif
namespace C07

open Wire

def kindStr : SanKind → String
  | .ip => "ip"
  | .dns => "dns"

def outcomeStr : Outcome → String
  | .deliverTLS => "tls"
  | .deliverPlain => "plain"
  | .refused502 => "refused502"
  | .unsupported => "unsupported"

/-- `incl`/`excl` verdicts of the configured lists on the hostname are computed by the harness
    (the regexp semantics belong to C17); `~` = no filter installed -/
def filterOf (f : String) : Option (Option (Bytes → Bool)) :=
  match f with
  | "~" => some none
  | _ =>
    match f.splitOn "/" with
    | [i, e] =>
      match boolOf i, boolOf e with
      | some i, some e => some (some (domainsMatch (fun _ => i) (fun _ => e)))
      | _, _ => none
    | _ => none

/-- `subject/incl/excl` items -/
def tableOf (f : String) : Option (List (Bytes × Bool × Bool)) :=
  (splitList f).mapM fun it =>
    match it.splitOn "/" with
    | [s, i, e] =>
      match bytesOfHex s, boolOf i, boolOf e with
      | some s, some i, some e => some (s, i, e)
      | _, _, _ => none
    | _ => none

def kindOf : String → Option SanKind
  | "ip" => some .ip
  | "dns" => some .dns
  | _ => none

def originReqOf (a now k sv nb na tr : String) : Option OriginReq :=
  match bytesOfHex a, intOf now, kindOf k, bytesOfHex sv with
  | some a, some now, some k, some sv =>
    match intOf nb, intOf na, boolOf tr with
    | some nb, some na, some tr =>
      some { authority := a, now := now,
             cert := { cn := sv, kind := k, sanVal := sv, notBefore := nb, notAfter := na, byCA := tr } }
    | _, _, _ => none
  | _, _, _, _ => none

/-- `t,<authority>` | `m,<authority>,<now>,<ip|dns>,<san>,<notBefore>,<notAfter>,<trusted>` | `a,…` -/
def eventOf (s : String) : Option Event :=
  match splitList s with
  | ["t", a] => (bytesOfHex a).map Event.tunnel
  | ["m", a, now, k, sv, nb, na, tr] => (originReqOf a now k sv nb na tr).map Event.intercepted
  | ["a", a, now, k, sv, nb, na, tr] => (originReqOf a now k sv nb na tr).map Event.absolute
  | _ => none

def upstreamOf (k : String) (h : Bytes) : Option Upstream :=
  match k with
  | "direct" => some .direct
  | "http" => some (.http h)
  | "https" => some (.https h)
  | "socks5" => some (.socks5 h)
  | _ => none

def confHandlingOf : String → Option ConfHandling
  | "cloned" => some .cloned
  | "shared" => some .shared
  | _ => none

def poolHandlingOf : String → Option PoolHandling
  | "copied" => some .copied
  | "shared" => some .shared
  | _ => none

/-- CA names `1.2.3`, `-` = none -/
def caListOf (s : String) : Option (List CA) :=
  if s = "-" then some [] else (s.splitOn ".").mapM natOf

/-- `b,<insecure>,<extra CAs>` | `p,<instance>,<signer>` -/
def pEventOf (s : String) : Option PEvent :=
  match splitList s with
  | ["b", ins, cas] =>
    match boolOf ins, caListOf cas with
    | some ins, some cas => some (.build ⟨cas, ins⟩)
    | _, _ => none
  | ["p", i, sg] =>
    match natOf i, natOf sg with
    | some i, some sg => some (.probe i sg)
    | _, _ => none
  | _ => none

def pOutStr : POut → String
  | .built => "built"
  | .accept => "accept"
  | .refuse => "refuse"
  | .noInstance => "no-instance"

def evOutStr : EvOut → String
  | .tunnelled => "tunnelled"
  | .origin n o => s!"{outcomeStr o}/{hexOfBytes n}"

def handle : List String → String
  -- hist <cloned|shared> <direct|http|https|socks5> <upstream host> <allowHTTP> <insecure> <event;event;…>
  --   →  per event: tunnelled | <outcome>/<name verified>     (x509-shaped verifier, fresh instance)
  | ["hist", v, uk, uh, allow, ins, evs] =>
    match confHandlingOf v, (bytesOfHex uh).bind (upstreamOf uk), boolOf allow, boolOf ins,
      (splitList2 evs).mapM eventOf with
    | some v, some up, some allow, some ins, some evs =>
      joinList ((runHist v up x509ish allow ins Inst.fresh evs).map evOutStr)
    | _, _, _, _, _ => "bad-op"
  -- trust <copied|shared> <system CAs> <event;event;…>  →  per event: built | accept | refuse | no-instance
  | ["trust", v, sys, evs] =>
    match poolHandlingOf v, caListOf sys, (splitList2 evs).mapM pEventOf with
    | some v, some sys, some evs => joinList ((runProc v sys (Proc.start sys) evs).map pOutStr)
    | _, _, _ => "bad-op"
  -- name <sni> <connect host>  →  ok <name> <ip|dns>
  | ["name", sni, host] =>
    match bytesOfHex sni, bytesOfHex host with
    | some s, some h =>
      let n := certName s h
      s!"ok {hexOfBytes n} {kindStr (san n)}"
    | _, _ => "bad-op"
  -- leaf <sni> <connect host>  →  ok <common name> <ip|dns> <san> <cache key> <length of the requested name>
  --   (the leaf `cert` issues for the handshake on a miss and the key it is stored under; the tree's handling)
  | ["leaf", sni, host] =>
    match bytesOfHex sni, bytesOfHex host with
    | some s, some h =>
      let n := certName s h
      let c := certForH .verbatim x509ish 0 (fun _ => none) n 0
      s!"ok {hexOfBytes c.cn} {kindStr c.kind} {hexOfBytes c.sanVal} {hexOfBytes (cacheKey .verbatim n)} {n.length}"
    | _, _ => "bad-op"
  -- split <hostport>  →  ok <host> <port> | err
  | ["split", hp] =>
    match bytesOfHex hp with
    | some v =>
      match splitHostPort v with
      | some (h, p) => s!"ok {hexOfBytes h} {hexOfBytes p}"
      | none => "err"
    | none => "bad-op"
  | ["isip", s] =>
    match bytesOfHex s with
    | some v => ofBool (isIP v)
    | none => "bad-op"
  | ["hostname", a] =>
    match bytesOfHex a with
    | some v => s!"ok {hexOfBytes (urlHostname v)}"
    | none => "bad-op"
  -- window <validity ns> <now ns>  →  <notBefore ns> <notAfter ns>
  | ["window", v, now] =>
    match intOf v, intOf now with
    | some v, some now =>
      let c := fresh v [] now
      s!"{c.notBefore} {c.notAfter}"
    | _, _ => "bad-op"
  -- cert <none|valid|invalid>  →  cached | fresh      (state of the cache entry for the name)
  | ["cert", st] =>
    let hit : Cert := { cn := [1], kind := .dns, sanVal := [1], notBefore := 1, notAfter := 2, byCA := false }
    let go (cache : Cache) (ok : Bool) : String :=
      if certFor (fun _ _ _ => ok) 5 cache [1] 7 == hit then "cached" else "fresh"
    match st with
    | "none" => go (fun _ => none) true
    | "valid" => go (fun _ => some hit) true
    | "invalid" => go (fun _ => some hit) false
    | _ => "bad-op"
  -- path <hasConfig> <~ | incl/excl> <authority>  →  mitm | tunnel
  | ["path", cfg, f, a] =>
    match boolOf cfg, filterOf f, bytesOfHex a with
    | some c, some flt, some a =>
      match connectPath c flt a with
      | .mitm => "mitm"
      | .tunnel => "tunnel"
    | _, _, _ => "bad-op"
  -- pathtab <hasConfig> <nofilter | subject/incl/excl,…> <authority>  →  mitm|tunnel <subject looked up>
  | ["pathtab", cfg, f, a] =>
    let flt : Option (Option (Bytes → Bool)) :=
      if f = "nofilter" then some none else (tableOf f).map fun t => some (tableFilter t)
    match boolOf cfg, flt, bytesOfHex a with
    | some c, some flt, some a =>
      let p := match connectPath c flt a with
        | .mitm => "mitm"
        | .tunnel => "tunnel"
      s!"{p} {hexOfBytes (urlHostname a)}"
    | _, _, _ => "bad-op"
  -- origin <xfp> <allowHTTP> <insecure> <authority> <now ns> <ip|dns> <san> <notBefore ns> <notAfter ns> <trusted chain>
  --   →  <outcome> <name verified>       (x509-shaped verifier on the origin's certificate)
  | ["origin", xfp, allow, ins, a, now, k, sv, nb, na, tr] =>
    match bytesOfHex xfp, boolOf allow, boolOf ins, bytesOfHex a, intOf now with
    | some xfp, some allow, some ins, some a, some now =>
      match kindOf k, bytesOfHex sv, intOf nb, intOf na, boolOf tr with
      | some k, some sv, some nb, some na, some tr =>
        let c : Cert := { cn := sv, kind := k, sanVal := sv, notBefore := nb, notAfter := na, byCA := tr }
        s!"{outcomeStr (interceptedTo x509ish xfp allow ins c a now)} {hexOfBytes (originVerifyName a)}"
      | _, _, _, _, _ => "bad-op"
    | _, _, _, _, _ => "bad-op"
  -- send <url scheme> <xfp> <tls> <allowHTTP> <insecure> <originVerifies>  →  <scheme> <outcome>
  | ["send", us, xfp, tls, allow, ins, ok] =>
    match bytesOfHex us, bytesOfHex xfp, boolOf tls, boolOf allow, boolOf ins, boolOf ok with
    | some us, some xfp, some tls, some allow, some ins, some ok =>
      let s := fixScheme us xfp tls allow
      s!"{hexOfBytes s} {outcomeStr (forward s ins ok)}"
    | _, _, _, _, _, _ => "bad-op"
  | _ => "bad-op"

end C07
end FwdVerif
