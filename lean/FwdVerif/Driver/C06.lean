/- Line-protocol verbs of C06 (credentials) and of the whole-configuration pipeline. -/
import FwdVerif.Driver.C05
import FwdVerif.Model.C06

namespace FwdVerif
namespace C06

open Wire Req

/-- `creds=host,port,user,pass;…` (hex atoms) -/
def decodeCreds (s : String) : Option (List CredEntry) :=
  (splitList2 s).mapM fun e =>
    match splitList e with
    | [h, p, u, pw] => do
      some { host := (← bytesOfHex h), port := (← bytesOfHex p), cred := ((← bytesOfHex u), (← bytesOfHex pw)) }
    | _ => none

def credString : Option Cred → String
  | none => "none"
  | some (u, p) => s!"ok {hexOfBytes u} {hexOfBytes p}"

/-- `none` = undecodable, `some none` = table rejected (duplicates / invalid entry) -/
def decodeFull (t : List String) : Option (Option FullCfg) := do
  let base ← Req.decodeCfg t
  let rc ← C05.decodeRouteCfg t
  let es ← decodeCreds (kvD t "creds" "~")
  match buildTable es with
  | none => some none
  | some tbl => some (some { base := base, route := rc, table := tbl })

def handle : List String → String
  | ["match", creds, hp] =>
    match decodeCreds creds, bytesOfHex hp with
    | some es, some h =>
      match buildTable es with
      | none => "rejected"
      | some t => credString (matchHostport t h)
    | _, _ => "bad-op"
  | ["matchurl", creds, scheme, host] =>
    match decodeCreds creds, bytesOfHex scheme, bytesOfHex host with
    | some es, some sc, some h =>
      match buildTable es with
      | none => "rejected"
      | some t => credString (matchURL t sc h)
    | _, _, _ => "bad-op"
  | ["matchmany", creds, items] =>
    -- items: `h,<hostport>` or `u,<scheme>,<host>` joined by `;`; answers joined by `;`
    match decodeCreds creds with
    | none => "bad-op"
    | some es =>
      match buildTable es with
      | none => "rejected"
      | some t =>
        let one := fun (it : String) => match splitList it with
          | ["h", hp] => (bytesOfHex hp).map fun h => matchHostport t h
          | ["u", sc, h] => do some (matchURL t (← bytesOfHex sc) (← bytesOfHex h))
          | _ => none
        match (splitList2 items).mapM one with
        | none => "bad-op"
        | some rs => "many " ++ joinList2 (rs.map fun r => match r with
            | none => "none"
            | some (u, p) => joinList ["ok", hexOfBytes u, hexOfBytes p])
  | ["pacseq", creds, items] =>
    -- one proxy instance with a PAC script: `items` = the script's answer per request (`ok,<hex>` | `fail`),
    -- in order; per request `err` | `direct` | `proxy,<scheme>,<host:port>[,<user>,<pass>]`
    match decodeCreds creds, (splitList2 items).mapM (fun it => C05.decodePacResult (splitList it)) with
    | some es, some rs =>
      match buildTable es with
      | none => "rejected"
      | some t =>
        "seq " ++ joinList2 ((pacCredSeq t {} rs).map fun d => match d with
          | .error _ => "err"
          | .ok none => "direct"
          | .ok (some u) => joinList (["proxy", hexOfBytes u.scheme, hexOfBytes u.host] ++
              (match u.user with | some (a, b) => [hexOfBytes a, hexOfBytes b] | none => [])))
    | _, _ => "bad-op"
  | "request" :: toks =>
    match decodeFull toks, decodeCtx toks, decodeReq toks with
    | some none, _, _ => "rejected"
    | some (some fc), some ctx, some r =>
      let o := processRequest fc ctx r
      s!"{encodeOutcome o} # {encodeActions (requestActions fc ctx r)}"
    | _, _, _ => "bad-op"
  | "connect" :: toks =>
    match decodeFull toks, decodeCtx toks, decodeConnect toks with
    | some none, _, _ => "rejected"
    | some (some fc), some ctx, some c =>
      let o := processConnect fc ctx c
      s!"{encodeConnectOutcome o} # {encodeActions (connectActions fc ctx c)}"
    | _, _, _ => "bad-op"
  | _ => "bad-op"

end C06
end FwdVerif
