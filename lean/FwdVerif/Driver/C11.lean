/-
  Line-protocol verbs for C11: a HISTORY ACCEPTOR and the property clauses on a history.

  A history is the ordered list of what the harness did and saw (`Ev`).  Harness actions (connect,
  send, vanish, origin answers, Shutdown/Close/cancel called, …) are logged BEFORE they are
  performed, observations (origin got a request, response complete, socket closed, Shutdown/Run
  returned) AFTER they were made; so an action's effect lies after its position and the cause of an
  observation before its position.  Every event is one visible `Action` of `Model/C11.lean`; all
  other actions (the goroutines' steps) are hidden.

  `accept h` searches for an execution of the model whose visible actions are exactly `h`:
  * the hidden global steps are three blocks whose positions in `h` are enumerated:
      P = Shutdown takes connsMu and closes closeCh (+ first poll),
      R = Shutdown's last poll / select, return and unlock,
      Q = Close: lock, closeCh, close every registered socket, unlock;
  * given (P, R, Q) the connections only interact through `closing`, the mutex and the counter,
    so each connection's hidden steps are found by a depth-first search over `cstep` (the very
    function `step` uses) against its own events and the three blocks;
  * the per-connection solutions are merged into one action list, which is then RUN through
    `C11.run init` — a history is accepted only if that run succeeds and its visible actions are the
    history (`accept_sound`).
-/
import FwdVerif.Model.C11
import FwdVerif.Lib.Wire
import Std.Data.HashSet
import Std.Data.HashMap

namespace FwdVerif
namespace C11

inductive Ev where
  | connect (c : ConnId) (tls : Bool) | refused (c : ConnId) | hello (c : ConnId) | part (c : ConnId)
  | send (c : ConnId) (r : Req) | gone (c : ConnId) | answer (c : ConnId) | oend (c : ConnId)
  | origin (c : ConnId) | resp (c : ConnId) (cl : Bool) | closed (c : ConnId)
  | echo (c : ConnId)   -- the client got back through the tunnel what it had sent into it
  | lclose | shutCall | shutRet (isNil : Bool) | closeCall | closeRet | deadline | cancel | runRet
  | known      -- harness marker "closing is certainly set" (not an action; ignored by the acceptor)
  | nolimit    -- configuration marker: the context handed to Shutdown has no deadline (shutdown timeout 0);
               -- not an action: the execution starts from `initNoLimit`
  deriving DecidableEq, Repr, Inhabited

def Ev.action : Ev → Option Action
  | .connect c t => some (.connect c t) | .refused c => some (.connectRefused c)
  | .hello c => some (.hello c) | .part c => some (.sendPartial c) | .send c r => some (.send c r)
  | .gone c => some (.gone c) | .answer c => some (.originAnswer c) | .oend c => some (.originEnd c)
  | .origin c => some (.originSeen c) | .resp c cl => some (.respSeen c cl) | .echo c => some (.echoSeen c)
  | .closed c => some (.closedSeen c) | .lclose => some .listenerClose | .shutCall => some .shutdownCall
  | .shutRet n => some (.shutdownRet n) | .closeCall => some .closeCall | .closeRet => some .closeRet
  | .deadline => some .ctxExpire | .cancel => some .cancel | .runRet => some .runRet
  | .known => none
  | .nolimit => none

/-- markers are not actions -/
def Ev.isMarker : Ev → Bool
  | .known | .nolimit => true
  | _ => false

/-- the initial state a history is run from -/
def startOf (h : List Ev) : State := if h.contains .nolimit then initNoLimit else init

/-- the visible part of an action -/
def visible : Action → Option Ev
  | .connect c t => some (.connect c t) | .connectRefused c => some (.refused c)
  | .hello c => some (.hello c) | .sendPartial c => some (.part c) | .send c r => some (.send c r)
  | .gone c => some (.gone c) | .originAnswer c => some (.answer c) | .originEnd c => some (.oend c)
  | .originSeen c => some (.origin c) | .respSeen c cl => some (.resp c cl) | .echoSeen c => some (.echo c)
  | .closedSeen c => some (.closed c) | .listenerClose => some .lclose | .shutdownCall => some .shutCall
  | .shutdownRet n => some (.shutRet n) | .closeCall => some .closeCall | .closeRet => some .closeRet
  | .ctxExpire => some .deadline | .cancel => some .cancel | .runRet => some .runRet
  | _ => none

def Ev.conn? : Ev → Option ConnId
  | .connect c _ | .refused c | .hello c | .part c | .send c _ | .gone c | .answer c | .oend c
  | .origin c | .resp c _ | .closed c | .echo c => some c
  | _ => none

/-! ## per-connection search -/

/-- what one connection sees of the rest of the system -/
structure Sim where
  x : Conn := {}
  closing : Bool := false
  lockFree : Bool := true
  listenerOpen : Bool := true
  sweepMe : Bool := false      -- Close's loop over the map will visit this connection
  deriving DecidableEq, Hashable, Inhabited

inductive Item where
  | ev (e : Ev)
  | mL                        -- listener closed (lclose / cancel)
  | mP (mustCount : Bool)     -- Shutdown: lock + close(closeCh) + first poll
  | mR (isNil : Bool)         -- Shutdown: return + unlock
  | mQ1                       -- Close: lock, closeCh
  | mQ2                       -- Close: its loop over the map is over; unlock
  deriving DecidableEq, Inhabited

/-- hidden moves of a connection; critical sections are taken in one piece -/
inductive Mv where
  | c (a : CAct) | register | unregister | accept
  | swept                     -- not a move of the connection: `Close` closes its socket (one loop iteration)
  deriving DecidableEq, Hashable, Inhabited, Repr

def Mv.acts : Mv → List CAct
  | .c a => [a]
  | .register => [.lockAcq, .insert, .counterAdd, .unlockReg]
  | .unregister => [.lockAcqU, .delete, .unlockU]
  | .accept => []
  | .swept => []

def cstepSeq (cl lf : Bool) : Conn → List CAct → Option Conn
  | x, [] => some x
  | x, a :: as => match cstep cl lf x a with
    | some (x', _) => cstepSeq cl lf x' as
    | none => none

def applyMv (s : Sim) : Mv → Option Sim
  | .accept =>
    if s.x.pc = .backlog ∧ s.listenerOpen ∧ !s.closing then some { s with x := { s.x with pc := .accepted } } else none
  | .swept =>
    if s.sweepMe then some { s with sweepMe := false, x := { s.x with sockClosed := true } } else none
  | .c .relay =>
    -- the model lets a tunnel relay any number of round trips; the search needs one per observed echo
    -- (a client sends its next probe only after it saw the last one come back)
    if s.x.relayUnseen = 0 then
      (cstepSeq s.closing s.lockFree s.x [.relay]).map fun x => { s with x := x }
    else none
  | m => (cstepSeq s.closing s.lockFree s.x m.acts).map fun x => { s with x := x }

def hiddenMoves : List Mv :=
  [.swept, .accept, .c .lockReq, .register, .c .check0, .c .tlsDone, .c .tlsFail, .c .firstByte, .c .idleFail,
   .c .readDone, .c .readFail, .c .check, .c .forward, .c .respReady, .c .writeHead, .c .writeHeadFail, .c .writeDone,
   .c .writeFail, .c .relay, .c .tunnelEnd, .c .sockClose, .c .counterDec, .unregister]

def consume (s : Sim) : Item → Option Sim
  | .ev (.connect _ t) =>
    if s.x.pc = .absent ∧ s.listenerOpen then some { s with x := { pc := .backlog, tls := t } } else none
  | .ev (.refused _) =>
    if s.x.pc = .absent ∧ !s.listenerOpen then some { s with x := { pc := .refused } } else none
  | .ev (.hello _) => if s.x.pc ≠ .absent then some { s with x := { s.x with helloSent := true } } else none
  | .ev (.part _) => if s.x.pc ≠ .absent then some { s with x := { s.x with partialSent := true } } else none
  | .ev (.send _ r) =>
    if s.x.pc ≠ .absent then some { s with x := { s.x with partialSent := false, pending := s.x.pending ++ [r] } } else none
  | .ev (.gone _) => if s.x.pc ≠ .absent then some { s with x := { s.x with clientGone := true } } else none
  | .ev (.answer _) => if s.x.pc = .awaitOrigin then some { s with x := { s.x with answered := true } } else none
  | .ev (.oend _) => if s.x.pc ≠ .absent then some { s with x := { s.x with originEnded := true } } else none
  | .ev (.origin _) =>
    if s.x.fwdUnseen ≠ 0 then some { s with x := { s.x with fwdUnseen := s.x.fwdUnseen - 1 } } else none
  | .ev (.resp _ cl) =>
    match s.x.unseen with
    | f :: rest => if f = cl then some { s with x := { s.x with unseen := rest } } else none
    | [] => none
  | .ev (.echo _) =>
    if s.x.relayUnseen ≠ 0 then some { s with x := { s.x with relayUnseen := s.x.relayUnseen - 1 } } else none
  | .ev (.closed _) => if s.x.sockClosed ∨ s.x.pc = .reset then some s else none
  | .ev _ => some s
  | .mL =>
    some { s with listenerOpen := false, x := if s.x.pc = .backlog then { s.x with pc := .reset } else s.x }
  | .mP mc =>
    if s.lockFree ∧ (mc → counted s.x.pc) then some { s with closing := true, lockFree := false } else none
  | .mR isNil =>
    if isNil → !counted s.x.pc then some { s with lockFree := true } else none
  | .mQ1 =>
    if s.lockFree then some { s with closing := true, lockFree := false, sweepMe := inMap s.x.pc } else none
  | .mQ2 =>
    if !s.sweepMe then some { s with lockFree := true } else none

abbrev Seen := Std.HashSet (Nat × Sim)

/-- depth-first search: hidden moves before each item (one list per item, plus the trailing one) -/
partial def dfs (items : Array Item) (i : Nat) (s : Sim) (acc : List Mv) :
    StateM Seen (Option (List (List Mv))) := do
  if i ≥ items.size then return some [acc.reverse]
  if (← get).contains (i, s) then return none
  modify (·.insert (i, s))
  if let some s' := consume s items[i]! then
    if let some rest ← dfs items (i + 1) s' [] then
      return some (acc.reverse :: rest)
  for mv in hiddenMoves do
    if let some s' := applyMv s mv then
      if let some r ← dfs items i s' (mv :: acc) then
        return some r
  return none

def solveConn (items : Array Item) : Option (List (List Mv)) :=
  (dfs items 0 {} []).run' {}

/-! ## global search -/

structure Plan where
  p : Option Nat := none     -- gap (index of the event it precedes) of block P
  r : Option Nat := none
  isNil : Bool := true
  q : Option Nat := none     -- Close takes the lock and closes closeCh
  q2 : Option Nat := none    -- Close sweeps the map and unlocks
  deriving Repr, Inhabited

/-- events that every connection sees as "listener closed" -/
def isLClose : Ev → Bool
  | .lclose | .cancel => true
  | _ => false

/-- the item list of connection `k` under a plan (markers P, R, Q merged at their gaps) -/
def itemsOf (h : Array Ev) (k : ConnId) (pl : Plan) (mustCount : Bool) : Array Item := Id.run do
  let mut out : Array Item := #[]
  for g in [0:h.size + 1] do
    if pl.p = some g then out := out.push (.mP mustCount)
    if pl.r = some g then out := out.push (.mR pl.isNil)
    if pl.q = some g then out := out.push .mQ1
    if pl.q2 = some g then out := out.push .mQ2
    if g < h.size then
      let e := h[g]!
      if e.conn? = some k then out := out.push (.ev e)
      else if isLClose e then out := out.push .mL
  return out

/-- memo key: the plan as this connection sees it (numbers of its own items before each block) -/
def localKey (h : Array Ev) (k : ConnId) (pl : Plan) (mustCount : Bool) : Nat × Nat × Nat × Nat × Nat × Bool × Bool :=
  let cnt (g : Option Nat) : Nat := match g with
    | none => 0
    | some g => 1 + (h.extract 0 g).foldl (fun n e => if e.conn? = some k ∨ isLClose e then n + 1 else n) 0
  (k, cnt pl.p, cnt pl.r, cnt pl.q, cnt pl.q2, pl.isNil, mustCount)

abbrev Memo := Std.HashMap (Nat × Nat × Nat × Nat × Nat × Bool × Bool) (Option (List (List Mv)))

def solveMemo (h : Array Ev) (k : ConnId) (pl : Plan) (mustCount : Bool) :
    StateM Memo (Option (List (List Mv))) := do
  let key := localKey h k pl mustCount
  match (← get).get? key with
  | some r => return r
  | none =>
    let r := solveConn (itemsOf h k pl mustCount)
    modify (·.insert key r)
    return r

def mvActions (s : State) (k : ConnId) : Mv → List Action
  | .accept => (if s.serve = .checking then [.serveCheck] else []) ++ [.accept k]
  | .swept => [.closeConn k]
  | m => m.acts.map (.conn k)

def runList (s : State) (as : List Action) : Option State := run s as

/-- running state of the merge -/
structure Merge where
  s : State
  out : Array Action := #[]
  rig : Bool := false          -- HTTPProxy.run drives Shutdown/Close (history has `cancel`)

def Merge.apply (m : Merge) (as : List Action) : Option Merge :=
  match run m.s as with
  | some s' => some { m with s := s', out := m.out ++ as.toArray }
  | none => none

def Merge.moves (m : Merge) (k : ConnId) (mvs : List Mv) : Option Merge :=
  mvs.foldlM (fun m mv => m.apply (mvActions m.s k mv)) m

/-- flush, for every connection, the hidden moves before its next item (a shared one) -/
def flushAll (m : Merge) (conns : List ConnId) (sols : Std.HashMap ConnId (Array (List Mv)))
    (cur : Std.HashMap ConnId Nat) : Option (Merge × Std.HashMap ConnId Nat) :=
  conns.foldlM (fun (m, cur) k =>
    let i := cur.getD k 0
    let mvs := ((sols.getD k #[])[i]?).getD []
    (m.moves k mvs).map fun m' => (m', cur.insert k (i + 1))) (m, cur)

/-- merge the per-connection solutions along the history and run the result through the model -/
def assemble (h : Array Ev) (conns : List ConnId) (pl : Plan)
    (sols : Std.HashMap ConnId (Array (List Mv))) : Option (Array Action) := do
  let rigA := h.any (· == .cancel)
  let mut m : Merge := { s := startOf h.toList, rig := rigA }
  let mut cur : Std.HashMap ConnId Nat := {}
  for g in [0:h.size + 1] do
    if pl.p = some g then
      let (m', c') ← flushAll m conns sols cur
      m ← m'.apply [.shutLock, .shutCloseCh, .shutPoll]; cur := c'
    if pl.r = some g then
      let (m', c') ← flushAll m conns sols cur
      cur := c'
      if pl.isNil then
        let m1 ← if m'.s.shut = .selecting then m'.apply [.shutTimer, .shutPoll] else some m'
        m ← m1.apply [.shutUnlock]
      else
        let m1 ← if m'.s.shut = .polling then m'.apply [.shutPoll] else some m'
        m ← m1.apply [.shutCtx, .shutUnlock]
      if rigA then m ← m.apply [.runAfterShutdown]
    if pl.q = some g then
      let (m', c') ← flushAll m conns sols cur
      m ← m'.apply [.closeLock, .closeCloseCh]; cur := c'
    if pl.q2 = some g then
      let (m', c') ← flushAll m conns sols cur
      m ← m'.apply [.closeAll, .closeUnlock]; cur := c'
      if rigA then m ← m.apply [.runAfterClose]
    if g < h.size then
      let e := h[g]!
      match e.action with
      | none => pure ()
      | some a =>
        if isLClose e then
          let (m', c') ← flushAll m conns sols cur
          cur := c'
          m ← m'.apply (if e == .cancel then [a, .runCloseListeners, .runShutdown] else [a])
        else match e.conn? with
          | some k =>
            let i := cur.getD k 0
            let mvs := ((sols.getD k #[])[i]?).getD []
            let m' ← m.moves k mvs
            cur := cur.insert k (i + 1)
            m ← m'.apply [a]
          | none => m ← m.apply [a]
  -- trailing hidden moves
  let (m', _) ← flushAll m conns sols cur
  return m'.out

def findIdx (h : Array Ev) (p : Ev → Bool) : Option Nat := h.findIdx? p

def range (lo hi : Nat) : List Nat := (List.range (hi + 1 - lo)).map (· + lo)

/-- candidate plans, in an order that finds ordinary schedules early -/
def plans (h : Array Ev) : List Plan := Id.run do
  let n := h.size
  let dl := (findIdx h (· == .deadline)).map (· + 1)     -- first gap after the deadline
  match findIdx h (· == .cancel) with
  | some xc =>
    let xr := (findIdx h (· == .runRet)).getD n
    let mut out : List Plan := []
    for p in range (xc + 1) xr do
      for r in range p xr do
        out := { p := some p, r := some r, isNil := true } :: out
      match dl with
      | some d =>
        for r in range (max p d) xr do
          for q in range r xr do
            for q2 in range q xr do
              out := { p := some p, r := some r, isNil := false, q := some q, q2 := some q2 } :: out
      | none => pure ()
    return out.reverse
  | none =>
    let sc := findIdx h (· == .shutCall)
    let sr := findIdx h (fun e => match e with | .shutRet _ => true | _ => false)
    let isNil := h.any (· == .shutRet true)
    let cc := findIdx h (· == .closeCall)
    let cr := (findIdx h (· == .closeRet)).getD n
    let qs : Nat → List (Option Nat × Option Nat) := fun lo => match cc with
      | some c => (range (max lo (c + 1)) cr).flatMap fun q => (range q cr).map fun q2 => (some q, some q2)
      | none => [(none, none)]
    match sc, sr with
    | some sc, some sr =>
      let mut out : List Plan := []
      for p in range (sc + 1) sr do
        let rlo := if isNil then p else max p (dl.getD (sr + 1))
        for r in range rlo sr do
          for q in qs r do
            out := { p := some p, r := some r, isNil := isNil, q := q.1, q2 := q.2 } :: out
      return out.reverse
    | _, _ => return (qs 0).map fun q => { q := q.1, q2 := q.2 }

def connsOf (h : Array Ev) : List ConnId :=
  h.foldl (fun acc e => match e.conn? with
    | some k => if acc.contains k then acc else acc ++ [k]
    | none => acc) []

/-- try one plan -/
def tryPlan (h : Array Ev) (conns : List ConnId) (pl : Plan) : StateM Memo (Option (Array Action)) := do
  let mut sols : Std.HashMap ConnId (Array (List Mv)) := {}
  for k in conns do
    match ← solveMemo h k pl false with
    | some s => sols := sols.insert k s.toArray
    | none => return none
  if pl.isNil ∨ pl.p.isNone then
    return assemble h conns pl sols
  -- Shutdown returned the context's error: some connection was counted at its first poll
  for k in conns do
    if let some s ← solveMemo h k pl true then
      if let some as := assemble h conns pl (sols.insert k s.toArray) then
        return some as
  return none

structure Verdict where
  ok : Bool
  plansTried : Nat
  actions : Array Action
  capped : Bool := false

def planCap : Nat := 60000

def search (h : Array Ev) : Verdict := Id.run do
  let conns := connsOf h
  let mut memo : Memo := {}
  let mut tried := 0
  for pl in plans h do
    if tried ≥ planCap then return { ok := false, plansTried := tried, actions := #[], capped := true }
    tried := tried + 1
    let (r, memo') := (tryPlan h conns pl).run memo
    memo := memo'
    if let some as := r then
      return { ok := true, plansTried := tried, actions := as }
  return { ok := false, plansTried := tried, actions := #[] }

/-- the check that makes acceptance trustworthy: the action list runs in the model and its visible
    part is the history -/
def checkRun (h : List Ev) (as : List Action) : Bool :=
  (run (startOf h) as).isSome && (as.filterMap visible == h.filter (!·.isMarker))

def accept (h : List Ev) : Bool :=
  let v := search h.toArray
  v.ok && checkRun h v.actions.toList

/-- an accepted history is a behaviour of the model (started with the kind of context the history
    names) -/
theorem accept_sound {h : List Ev} (ha : accept h = true) :
    ∃ as, (run (startOf h) as).isSome = true ∧ as.filterMap visible = h.filter (!·.isMarker) := by
  unfold accept at ha
  simp only [Bool.and_eq_true] at ha
  refine ⟨(search h.toArray).actions.toList, ?_⟩
  have := ha.2
  unfold checkRun at this
  simp only [Bool.and_eq_true, beq_iff_eq] at this
  exact this

/-! ## the property clauses on a history -/

structure Fail where
  clause : String
  conn : Nat
  deriving Repr

def posOf (h : Array Ev) (p : Ev → Bool) : Option Nat := h.findIdx? p

/-- positions of the j-th (0-based) event of a kind on connection k -/
def nth (h : Array Ev) (p : Ev → Bool) (j : Nat) : Option Nat := Id.run do
  let mut seen := 0
  for i in [0:h.size] do
    if p h[i]! then
      if seen = j then return some i
      seen := seen + 1
  return none

def isSend (k : ConnId) : Ev → Bool | .send c _ => c == k | _ => false
def isOrigin (k : ConnId) : Ev → Bool | .origin c => c == k | _ => false
def isResp (k : ConnId) : Ev → Bool | .resp c _ => c == k | _ => false
def isAnswer (k : ConnId) : Ev → Bool | .answer c => c == k | _ => false
def isClosed (k : ConnId) : Ev → Bool | .closed c => c == k | _ => false
def isGone (k : ConnId) : Ev → Bool | .gone c => c == k | _ => false
def isOend (k : ConnId) : Ev → Bool | .oend c => c == k | _ => false
def isEcho (k : ConnId) : Ev → Bool | .echo c => c == k | _ => false
def isDial (k : ConnId) : Ev → Bool | .connect c _ => c == k | .refused c => c == k | _ => false

def countEv (h : Array Ev) (p : Ev → Bool) : Nat := h.foldl (fun n e => if p e then n + 1 else n) 0

def before (a : Option Nat) (b : Option Nat) : Bool :=
  match a, b with
  | some a, some b => a < b
  | _, _ => false

/-- the clauses of the property that are decidable from the order of events alone -/
def clauses (h : Array Ev) : List Fail := Id.run do
  let conns := connsOf h
  let known := posOf h (· == .known)
  let begun := match posOf h (· == .shutCall), posOf h (· == .cancel), posOf h (· == .closeCall) with
    | some a, _, _ => some a
    | _, some b, _ => some b
    | _, _, c => c
  let retNil := match posOf h (· == .shutRet true) with
    | some a => some a
    | none => none
  let forced := match posOf h (· == .closeCall), posOf h (· == .deadline) with
    | some a, some b => some (min a b)
    | some a, none => some a
    | none, b => b
  -- Run's return when no deadline precedes it
  let runRetFree : Option Nat := match posOf h (· == Ev.runRet) with
    | some rr => if before (posOf h (· == Ev.deadline)) (some rr) then none else some rr
    | none => none
  let mut out : List Fail := []
  for k in conns do
    let nOrigin := countEv h (isOrigin k)
    let nResp := countEv h (isResp k)
    -- (1) no request first sent after shutdown has begun is forwarded
    for j in [0:nOrigin] do
      if before known (nth h (isSend k) j) then
        out := out ++ [{ clause := "request-first-sent-after-shutdown-began-was-forwarded", conn := k }]
    -- (2) no new connection is served
    if before known (posOf h (isDial k)) ∧ (nOrigin > 0 ∨ nResp > 0) then
      out := out ++ [{ clause := "connection-made-after-shutdown-began-was-served", conn := k }]
    -- (3) an exchange whose request reached its origin before shutdown was requested completes,
    --     unless the client vanished or the shutdown was forced (deadline / Close) first
    for j in [0:nOrigin] do
      let o := nth h (isOrigin k) j
      if before o begun ∧ (nth h (isAnswer k) j).isSome then
        let r := nth h (isResp k) j
        let excused : Bool := (posOf h (isGone k)).isSome || (match forced with
          | some f => match r with
            | some r => f < r
            | none => true
          | none => false)
        if r.isNone ∧ !excused then
          out := out ++ [{ clause := "exchange-at-origin-before-shutdown-did-not-complete", conn := k }]
    -- (4) Shutdown returned nil although the connection was still being served
    match retNil with
    | some rn =>
      for j in [0:nOrigin] do
        let o := nth h (isOrigin k) j
        let a := nth h (isAnswer k) j
        if before o (some rn) ∧ (before (some rn) a ∨ (a.isNone ∧ (posOf h (isGone k)).isNone ∧ !(before (posOf h (isClosed k)) (some rn)))) then
          out := out ++ [{ clause := "shutdown-returned-nil-with-exchange-pending-at-origin", conn := k }]
      for j in [0:nResp] do
        if before (some rn) (nth h (isSend k) j) then
          out := out ++ [{ clause := "request-sent-after-shutdown-returned-nil-was-answered", conn := k }]
    | none => pure ()
    -- (5) a response the origin released after closing was known carries Connection: close — except the
    --     200 of a CONNECT (fixed bytes without a Connection field), which is followed by the tunnel: (8), (9)
    for j in [0:nResp] do
      let a := nth h (isAnswer k) j
      if before known a then
        let isConnect := match (nth h (isSend k) j).bind (fun i => h[i]?) with
          | some (.send _ r) => r.connect
          | _ => false
        match (nth h (isResp k) j).bind (fun i => h[i]?) with
        | some (.resp _ false) =>
          if !isConnect then
            out := out ++ [{ clause := "response-while-closing-without-connection-close", conn := k }]
        | _ => pure ()
    -- (7) rig a: Run returned although the shutdown deadline had not passed (there is none with shutdown
    --     timeout 0) while a request of this connection was still at its origin (answer released later)
    match runRetFree with
    | some rn =>
      if (posOf h (isGone k)).isNone then
        for j in [0:nOrigin] do
          if before (nth h (isOrigin k) j) (some rn) ∧ before (some rn) (nth h (isAnswer k) j) then
            out := out ++ [{ clause := "run-returned-before-the-deadline-with-exchange-pending-at-origin", conn := k }]
    | none => pure ()
    -- (8) a tunnel — established before shutdown was requested, or by a CONNECT whose dial completed
    --     during the shutdown — stays up until its client or its origin ends it, unless the shutdown was
    --     forced (deadline / Close) first
    -- (9) … and it is a tunnel: what the client sends into it comes back (the harness probes it at once),
    --     unless the client left or the shutdown was forced first
    for j in [0:nResp] do
      let isConnect : Bool := match (nth h (isSend k) j).bind (fun i => h[i]?) with
        | some (.send _ r) => r.connect
        | _ => false
      let r := nth h (isResp k) j
      if isConnect && r.isSome then
        let x := posOf h (isClosed k)
        let caused : Bool := before (posOf h (isGone k)) x || before (posOf h (isOend k)) x || before forced x
        if x.isSome && !caused then
          out := out ++ [{ clause := if before r begun then "tunnel-established-before-shutdown-was-cut-before-the-deadline"
                                     else "tunnel-established-during-shutdown-was-cut-before-the-deadline", conn := k }]
        let echoed : Bool := (List.range h.size).any fun i => isEcho k h[i]! && before r (some i)
        let excused : Bool := (posOf h (isGone k)).isSome || (match forced with
          | some f => match x with
            | some x => f < x
            | none => true
          | none => false)
        if !echoed && !excused then
          out := out ++ [{ clause := "connect-answered-200-but-the-tunnel-relayed-nothing", conn := k }]
  -- (6) Shutdown returns the context's error only after the deadline
  match posOf h (· == .shutRet false) with
  | some e =>
    if !(before (posOf h (· == .deadline)) (some e)) then
      out := out ++ [{ clause := "shutdown-returned-error-before-the-deadline", conn := 0 }]
  | none => pure ()
  return out

/-! ## wire -/

def parseBool (s : String) : Option Bool := Wire.boolOf s

def parseEv (s : String) : Option Ev :=
  match s.splitOn ":" with
  | ["c", k, t] => do some (.connect (← k.toNat?) (← parseBool t))
  | ["r", k] => do some (.refused (← k.toNat?))
  | ["h", k] => do some (.hello (← k.toNat?))
  | ["p", k] => do some (.part (← k.toNat?))
  | ["s", k, cn, cl, au] => do
    some (.send (← k.toNat?) { connect := (← parseBool cn), close := (← parseBool cl), auto := (← parseBool au) })
  | ["g", k] => do some (.gone (← k.toNat?))
  | ["a", k] => do some (.answer (← k.toNat?))
  | ["e", k] => do some (.oend (← k.toNat?))
  | ["o", k] => do some (.origin (← k.toNat?))
  | ["R", k, cl] => do some (.resp (← k.toNat?) (← parseBool cl))
  | ["x", k] => do some (.closed (← k.toNat?))
  | ["t", k] => do some (.echo (← k.toNat?))
  | ["L"] => some .lclose
  | ["SC"] => some .shutCall
  | ["SR", n] => do some (.shutRet (← parseBool n))
  | ["CC"] => some .closeCall
  | ["CR"] => some .closeRet
  | ["D"] => some .deadline
  | ["X"] => some .cancel
  | ["XR"] => some .runRet
  | ["K"] => some .known
  | ["NL"] => some .nolimit
  | _ => none

def parseHistory (s : String) : Option (List Ev) := (Wire.splitList s).mapM parseEv

def handle : List String → String
  | ["accept", hs] =>
    match parseHistory hs with
    | none => "bad-op"
    | some h =>
      let v := search h.toArray
      if v.ok then
        if checkRun h v.actions.toList then s!"accept plans={v.plansTried} actions={v.actions.size}"
        else s!"reject merged-run-does-not-replay plans={v.plansTried}"
      else if v.capped then s!"inconclusive plans={v.plansTried}"
      else s!"reject no-execution-of-the-model-has-this-history plans={v.plansTried}"
  | ["holds", hs] =>
    match parseHistory hs with
    | none => "bad-op"
    | some h =>
      match clauses h.toArray with
      | [] => "true"
      | fs => "false " ++ ",".intercalate (fs.map fun f => s!"{f.clause}:{f.conn}")
  | _ => "bad-op"

end C11
end FwdVerif
