/-
  Line-protocol verbs for C11: a HISTORY ACCEPTOR and the property clauses on a history.

  A history is the ordered list of what the harness did and saw (`Ev`).  Harness actions (connect,
  send, vanish, origin answers, Shutdown/Close/cancel called, …) are logged BEFORE they are
  performed, observations (origin got a request, response complete, socket closed, Shutdown/Run
  returned) AFTER they were made; so an action's effect lies after its position and the cause of an
  observation before its position.  Every event is one visible `Action` of `Model/C11.lean`; all
  other actions (the goroutines' steps) are hidden.

  `accept h` searches for an execution of the model whose visible actions are exactly `h`:
  * a history may contain any number of calls of Shutdown and Close (numbered; one after the other or
    overlapping).  The hidden global steps of every call are two blocks whose positions in `h` are
    enumerated:
      P = a Shutdown takes connsMu and closes closeCh (+ first poll),
      R = its last poll / select, return and unlock,
      Q1 = a Close: lock, closeCh;  Q2 = every registered socket closed, unlock;
    a call holds the mutex from its first block to its second, so the calls' sections [P, R], [Q1, Q2]
    follow each other in some order, which is enumerated as well (`Plan`);
  * given the plan the connections only interact through `closing`, the mutex and the counter,
    so each connection's hidden steps are found by a depth-first search over `cstep` (the very
    function `step` uses) against its own events and the blocks;
  * the per-connection solutions are merged into one action list, which is then RUN through
    `C11.run init` — a history is accepted only if that run succeeds and its visible actions are the
    history (`accept_sound`).
-/
import FwdVerif.Model.C11
import FwdVerif.Model.C11Group
import FwdVerif.Lib.Wire
import Std.Data.HashSet
import Std.Data.HashMap

namespace FwdVerif
namespace C11

inductive Ev where
  | connect (c : ConnId) (tls : Bool) | refused (c : ConnId) | hello (c : ConnId) | part (c : ConnId)
  | send (c : ConnId) (r : Req) | gone (c : ConnId) | answer (c : ConnId) | oend (c : ConnId)
  | origin (c : ConnId) | resp (c : ConnId) (cl : Bool) | closed (c : ConnId)
  | echo (c : ConnId)   -- the client got back through the tunnel what it had sent into it
  | lclose
  | shutCall (k : CallId) (noLimit cancellable : Bool)   -- call number k of Shutdown, kind of its context
  | shutRet (k : CallId) (r : Option Why)                -- … returned nil / its context's error
  | closeCall (k : CallId) | closeRet (k : CallId)
  | deadline (k : CallId)     -- the deadline of the context of call k has passed
  | ctxCancel (k : CallId)    -- the context of call k is cancelled by the caller of that Shutdown
  | sig (n : Sig) (k : CallId) -- signal n is delivered to the process hosting the proxy (rig a; k = 0: the call `run` makes)
  | cancel | runRet
  | known      -- harness marker "closing is certainly set" (not an action; ignored by the acceptor)
  | nolimit    -- configuration marker: shutdown timeout 0, the context `run` hands to Shutdown has no deadline;
               -- not an action: the execution starts from `initCfg true _`
  | signals (l : List Sig)  -- configuration marker: ShutdownSignals = l (`initCfg _ l`); none = the empty set
  -- the host layer (`Model/C11Group.lean`): events of the group, no actions of the proxy's model
  | groupCfg (members : Nat) (l : List Sig)  -- configuration marker: hosted in a runctx.Group with that many companions, NotifySignals = l
  | memberRet (i : MemberId)                 -- companion i returned
  | groupRet                                 -- RunContext returned
  deriving DecidableEq, Repr, Inhabited

def Ev.action : Ev → Option Action
  | .connect c t => some (.connect c t) | .refused c => some (.connectRefused c)
  | .hello c => some (.hello c) | .part c => some (.sendPartial c) | .send c r => some (.send c r)
  | .gone c => some (.gone c) | .answer c => some (.originAnswer c) | .oend c => some (.originEnd c)
  | .origin c => some (.originSeen c) | .resp c cl => some (.respSeen c cl) | .echo c => some (.echoSeen c)
  | .closed c => some (.closedSeen c) | .lclose => some .listenerClose
  | .shutCall k nl cb => some (.shutdownCall k nl cb)
  | .shutRet k r => some (.shutdownRet k r) | .closeCall k => some (.closeCall k) | .closeRet k => some (.closeRet k)
  | .deadline k => some (.ctxExpire k) | .ctxCancel k => some (.ctxCancel k)
  | .sig n k => some (.sig n k)
  | .cancel => some .cancel | .runRet => some .runRet
  | .known => none
  | .nolimit => none
  | .signals _ => none
  | .groupCfg _ _ => none
  | .memberRet _ => none
  | .groupRet => none

/-- markers are not actions (of the proxy's model) -/
def Ev.isMarker : Ev → Bool
  | .known | .nolimit | .signals _ | .groupCfg _ _ | .memberRet _ | .groupRet => true
  | _ => false

/-- markers that are no event of the host layer either -/
def Ev.isCfgMarker : Ev → Bool
  | .known | .nolimit | .signals _ | .groupCfg _ _ => true
  | _ => false

/-- how the history says the proxy is hosted: the group's companions and NotifySignals -/
def groupOf (h : List Ev) : Option (Nat × List Sig) :=
  h.findSome? fun e => match e with | .groupCfg m l => some (m, l) | _ => none

/-- the history of the PROXY in a history of a hosted proxy: the first signal of the group's NotifySignals delivered
    while the run context is not done IS its cancellation (`gstep (.signal n)`); everything else stays what it is -/
def baseOf (h : List Ev) : List Ev :=
  match groupOf h with
  | none => h
  | some (_, gs) =>
    let rec go (done : Bool) : List Ev → List Ev
      | [] => []
      | e :: rest =>
        match e with
        | .cancel => e :: go true rest
        | .sig n _ => if !done && gs.contains n then .cancel :: go true rest else e :: go done rest
        | _ => e :: go done rest
    go false h

/-- the configured set of shutdown signals a history names -/
def sigSet (h : List Ev) : List Sig :=
  h.foldr (fun e acc => match e with | .signals l => l ++ acc | _ => acc) []

/-- the initial state a history is run from -/
def startOf (h : List Ev) : State := initCfg (h.contains .nolimit) (sigSet h)

/-- the event is the delivery of a signal that cancels run's context under the configuration `cfg` -/
def isCfgSig (cfg : List Sig) : Ev → Bool
  | .sig n _ => cfg.contains n
  | _ => false

/-- the visible part of an action -/
def visible : Action → Option Ev
  | .connect c t => some (.connect c t) | .connectRefused c => some (.refused c)
  | .hello c => some (.hello c) | .sendPartial c => some (.part c) | .send c r => some (.send c r)
  | .gone c => some (.gone c) | .originAnswer c => some (.answer c) | .originEnd c => some (.oend c)
  | .originSeen c => some (.origin c) | .respSeen c cl => some (.resp c cl) | .echoSeen c => some (.echo c)
  | .closedSeen c => some (.closed c) | .listenerClose => some .lclose
  | .shutdownCall k nl cb => some (.shutCall k nl cb)
  | .shutdownRet k r => some (.shutRet k r) | .closeCall k => some (.closeCall k) | .closeRet k => some (.closeRet k)
  | .ctxExpire k => some (.deadline k) | .ctxCancel k => some (.ctxCancel k)
  | .sig n k => some (.sig n k)
  | .cancel => some .cancel | .runRet => some .runRet
  | _ => none

def Ev.conn? : Ev → Option ConnId
  | .connect c _ | .refused c | .hello c | .part c | .send c _ | .gone c | .answer c | .oend c
  | .origin c | .resp c _ | .closed c | .echo c => some c
  | _ => none

/-! ## per-connection search -/

/-- what one connection sees of the rest of the system -/
structure Sim where
  x : Conn := {}
  closing : Bool := false
  lockFree : Bool := true
  listenerOpen : Bool := true
  sweepMe : Bool := false      -- Close's loop over the map will visit this connection
  deriving DecidableEq, Hashable, Inhabited

inductive Item where
  | ev (e : Ev)
  | mL                        -- listener closed (lclose / cancel)
  | mP (mustCount : Bool)     -- Shutdown: lock + close(closeCh) + first poll
  | mR (isNil : Bool)         -- Shutdown: return + unlock
  | mQ1                       -- Close: lock, closeCh
  | mQ2                       -- Close: its loop over the map is over; unlock
  deriving DecidableEq, Inhabited

/-- hidden moves of a connection; critical sections are taken in one piece -/
inductive Mv where
  | c (a : CAct) | register | unregister | accept
  | swept                     -- not a move of the connection: `Close` calls `conn.Close()` on it (one loop iteration)
  deriving DecidableEq, Hashable, Inhabited, Repr

def Mv.acts : Mv → List CAct
  | .c a => [a]
  | .register => [.lockAcq, .insert, .counterAdd, .unlockReg]
  | .unregister => [.lockAcqU, .delete, .unlockU]
  | .accept => []
  | .swept => []

def cstepSeq (cl lf : Bool) : Conn → List CAct → Option Conn
  | x, [] => some x
  | x, a :: as => match cstep cl lf x a with
    | some (x', _) => cstepSeq cl lf x' as
    | none => none

def applyMv (s : Sim) : Mv → Option Sim
  | .accept =>
    if s.x.pc = .backlog ∧ s.listenerOpen ∧ !s.closing then some { s with x := { s.x with pc := .accepted } } else none
  | .swept =>
    -- (`sweepClose`: a connection whose handler is inside its own `conn.Close()` is not closed by the sweep)
    if s.sweepMe then some { s with sweepMe := false, x := sweepClose s.x } else none
  | .c .relay =>
    -- the model lets a tunnel relay any number of round trips; the search needs one per observed echo
    -- (a client sends its next probe only after it saw the last one come back)
    if s.x.relayUnseen = 0 then
      (cstepSeq s.closing s.lockFree s.x [.relay]).map fun x => { s with x := x }
    else none
  | m => (cstepSeq s.closing s.lockFree s.x m.acts).map fun x => { s with x := x }

def hiddenMoves : List Mv :=
  [.swept, .accept, .c .lockReq, .register, .c .check0, .c .tlsDone, .c .tlsFail, .c .firstByte, .c .idleFail,
   .c .readDone, .c .readFail, .c .check, .c .forward, .c .respReady, .c .writeHead, .c .writeHeadFail, .c .writeDone,
   .c .writeFail, .c .relay, .c .tunnelEnd, .c .closeStart, .c .closeDone, .c .counterDec, .unregister]

def consume (s : Sim) : Item → Option Sim
  | .ev (.connect _ t) =>
    if s.x.pc = .absent ∧ s.listenerOpen then some { s with x := { pc := .backlog, tls := t } } else none
  | .ev (.refused _) =>
    if s.x.pc = .absent ∧ !s.listenerOpen then some { s with x := { pc := .refused } } else none
  | .ev (.hello _) => if s.x.pc ≠ .absent then some { s with x := { s.x with helloSent := true } } else none
  | .ev (.part _) => if s.x.pc ≠ .absent then some { s with x := { s.x with partialSent := true } } else none
  | .ev (.send _ r) =>
    if s.x.pc ≠ .absent then some { s with x := { s.x with partialSent := false, pending := s.x.pending ++ [r] } } else none
  | .ev (.gone _) => if s.x.pc ≠ .absent then some { s with x := { s.x with clientGone := true } } else none
  | .ev (.answer _) => if s.x.pc = .awaitOrigin then some { s with x := { s.x with answered := true } } else none
  | .ev (.oend _) => if s.x.pc ≠ .absent then some { s with x := { s.x with originEnded := true } } else none
  | .ev (.origin _) =>
    if s.x.fwdUnseen ≠ 0 then some { s with x := { s.x with fwdUnseen := s.x.fwdUnseen - 1 } } else none
  | .ev (.resp _ cl) =>
    match s.x.unseen with
    | f :: rest => if f = cl then some { s with x := { s.x with unseen := rest } } else none
    | [] => none
  | .ev (.echo _) =>
    if s.x.relayUnseen ≠ 0 then some { s with x := { s.x with relayUnseen := s.x.relayUnseen - 1 } } else none
  | .ev (.closed _) => if s.x.sockClosed ∨ s.x.pc = .reset then some s else none
  | .ev _ => some s
  | .mL =>
    some { s with listenerOpen := false, x := if s.x.pc = .backlog then { s.x with pc := .reset } else s.x }
  | .mP mc =>
    if s.lockFree ∧ (mc → counted s.x.pc) then some { s with closing := true, lockFree := false } else none
  | .mR isNil =>
    if isNil → !counted s.x.pc then some { s with lockFree := true } else none
  | .mQ1 =>
    if s.lockFree then some { s with closing := true, lockFree := false, sweepMe := inMap s.x.pc } else none
  | .mQ2 =>
    if !s.sweepMe then some { s with lockFree := true } else none

abbrev Seen := Std.HashSet (Nat × Sim)

/-- depth-first search: hidden moves before each item (one list per item, plus the trailing one) -/
partial def dfs (items : Array Item) (i : Nat) (s : Sim) (acc : List Mv) :
    StateM Seen (Option (List (List Mv))) := do
  if i ≥ items.size then return some [acc.reverse]
  if (← get).contains (i, s) then return none
  modify (·.insert (i, s))
  if let some s' := consume s items[i]! then
    if let some rest ← dfs items (i + 1) s' [] then
      return some (acc.reverse :: rest)
  for mv in hiddenMoves do
    if let some s' := applyMv s mv then
      if let some r ← dfs items i s' (mv :: acc) then
        return some r
  return none

def solveConn (items : Array Item) : Option (List (List Mv)) :=
  (dfs items 0 {} []).run' {}

/-! ## global search -/

/-- the section of one call in which it holds the mutex: [P, R] of a Shutdown, [Q1, Q2] of a Close -/
structure Block where
  shut : Bool := true        -- a call of Shutdown (else of Close)
  id : CallId := 0
  a : Nat := 0               -- gap (index of the event it precedes) of its first block
  b : Nat := 0               -- … of its second block
  isNil : Bool := true       -- Shutdown: returns nil
  deriving Repr, Inhabited

/-- the sections of all calls, in the order in which they hold the mutex (`a ≤ b` within a block,
    `b` of one ≤ `a` of the next) -/
structure Plan where
  blocks : Array Block := #[]
  deriving Repr, Inhabited

/-- events that every connection sees as "listener closed" -/
def isLClose : Ev → Bool
  | .lclose | .cancel => true
  | _ => false

/-- the item list of connection `k` under a plan (the blocks merged at their gaps); `mc[i]` = the
    connection must be counted at the first poll of block `i` -/
def itemsOf (h : Array Ev) (k : ConnId) (pl : Plan) (mc : Array Bool) : Array Item := Id.run do
  let mut out : Array Item := #[]
  for g in [0:h.size + 1] do
    for i in [0:pl.blocks.size] do
      let bl := pl.blocks[i]!
      if bl.a = g then out := out.push (if bl.shut then .mP (mc.getD i false) else .mQ1)
      if bl.b = g then out := out.push (if bl.shut then .mR bl.isNil else .mQ2)
    if g < h.size then
      let e := h[g]!
      if e.conn? = some k then out := out.push (.ev e)
      else if isLClose e then out := out.push .mL
  return out

/-- memo key: the plan as this connection sees it — its item list with its own events abbreviated to
    their number between two shared items -/
def localKey (h : Array Ev) (k : ConnId) (pl : Plan) (mc : Array Bool) : Nat × List Nat :=
  let items := itemsOf h k pl mc
  let (acc, run) := items.foldl (fun (acc, run) it => match it with
    | .ev _ => (acc, run + 1)
    | .mL => (1 :: run :: acc, 0)
    | .mP b => ((if b then 3 else 2) :: run :: acc, 0)
    | .mR b => ((if b then 5 else 4) :: run :: acc, 0)
    | .mQ1 => (6 :: run :: acc, 0)
    | .mQ2 => (7 :: run :: acc, 0)) (([] : List Nat), 0)
  (k, run :: acc)

abbrev Memo := Std.HashMap (Nat × List Nat) (Option (List (List Mv)))

def solveMemo (h : Array Ev) (k : ConnId) (pl : Plan) (mc : Array Bool) :
    StateM Memo (Option (List (List Mv))) := do
  let key := localKey h k pl mc
  match (← get).get? key with
  | some r => return r
  | none =>
    let r := solveConn (itemsOf h k pl mc)
    modify (·.insert key r)
    return r

/-- the call of `Close` that is walking the map -/
def sweeper (s : State) : CallId := match s.lock with
  | .closer j => j
  | _ => 0

def mvActions (s : State) (k : ConnId) : Mv → List Action
  | .accept => (if s.serve = .checking then [.serveCheck] else []) ++ [.accept k]
  | .swept => [.closeConn (sweeper s) k]
  | m => m.acts.map (.conn k)

def runList (s : State) (as : List Action) : Option State := run s as

/-- running state of the merge -/
structure Merge where
  s : State
  out : Array Action := #[]
  rig : Bool := false          -- HTTPProxy.run drives Shutdown/Close (history has `cancel`)

def Merge.apply (m : Merge) (as : List Action) : Option Merge :=
  match run m.s as with
  | some s' => some { m with s := s', out := m.out ++ as.toArray }
  | none => none

def Merge.moves (m : Merge) (k : ConnId) (mvs : List Mv) : Option Merge :=
  mvs.foldlM (fun m mv => m.apply (mvActions m.s k mv)) m

/-- flush, for every connection, the hidden moves before its next item (a shared one) -/
def flushAll (m : Merge) (conns : List ConnId) (sols : Std.HashMap ConnId (Array (List Mv)))
    (cur : Std.HashMap ConnId Nat) : Option (Merge × Std.HashMap ConnId Nat) :=
  conns.foldlM (fun (m, cur) k =>
    let i := cur.getD k 0
    let mvs := ((sols.getD k #[])[i]?).getD []
    (m.moves k mvs).map fun m' => (m', cur.insert k (i + 1))) (m, cur)

/-- merge the per-connection solutions along the history and run the result through the model -/
def assemble (h : Array Ev) (conns : List ConnId) (pl : Plan)
    (sols : Std.HashMap ConnId (Array (List Mv))) : Option (Array Action) := do
  let rigA := h.any (· == .cancel)
  let mut m : Merge := { s := startOf h.toList, rig := rigA }
  let mut cur : Std.HashMap ConnId Nat := {}
  for g in [0:h.size + 1] do
    for bl in pl.blocks do
      let k := bl.id
      if bl.a = g then
        let (m', c') ← flushAll m conns sols cur
        cur := c'
        m ← m'.apply (if bl.shut then [.shutLock k, .shutCloseCh k, .shutPoll k] else [.closeLock k, .closeCloseCh k])
      if bl.b = g then
        let (m', c') ← flushAll m conns sols cur
        cur := c'
        if bl.shut then
          if bl.isNil then
            let m1 ← if (m'.s.shuts k).pc = .selecting then m'.apply [.shutTimer k, .shutPoll k] else some m'
            m ← m1.apply [.shutUnlock k]
          else
            let m1 ← if (m'.s.shuts k).pc = .polling then m'.apply [.shutPoll k] else some m'
            m ← m1.apply [.shutCtx k, .shutUnlock k]
          if rigA then m ← m.apply [.runAfterShutdown 0]
        else
          m ← m'.apply [.closeAll k, .closeUnlock k]
          if rigA then m ← m.apply [.runAfterClose]
    if g < h.size then
      let e := h[g]!
      match e.action with
      | none => pure ()
      | some a =>
        if isLClose e then
          let (m', c') ← flushAll m conns sols cur
          cur := c'
          m ← m'.apply (if e == .cancel then [a, .runCloseListeners, .runShutdown 0] else [a])
        else match e.conn? with
          | some k =>
            let i := cur.getD k 0
            let mvs := ((sols.getD k #[])[i]?).getD []
            let m' ← m.moves k mvs
            cur := cur.insert k (i + 1)
            m ← m'.apply [a]
          | none => m ← m.apply [a]
  -- trailing hidden moves
  let (m', _) ← flushAll m conns sols cur
  return m'.out

def findIdx (h : Array Ev) (p : Ev → Bool) : Option Nat := h.findIdx? p

def range (lo hi : Nat) : List Nat := (List.range (hi + 1 - lo)).map (· + lo)

def connsOf (h : Array Ev) : List ConnId :=
  h.foldl (fun acc e => match e.conn? with
    | some k => if acc.contains k then acc else acc ++ [k]
    | none => acc) []

/-- the indices of the blocks of Shutdown calls that return the context's error: at their first poll
    some connection is counted -/
def errBlocks (pl : Plan) : List Nat :=
  (List.range pl.blocks.size).filter fun i => let b := pl.blocks[i]!; b.shut && !b.isNil

/-- all ways to name, for every block of `bs`, the connection that is counted at its first poll -/
def assignments (conns : List ConnId) : List Nat → List (List (Nat × ConnId))
  | [] => [[]]
  | b :: bs => (assignments conns bs).flatMap fun rest => conns.map fun c => (b, c) :: rest

/-- try one plan -/
def tryPlan (h : Array Ev) (conns : List ConnId) (pl : Plan) : StateM Memo (Option (Array Action)) := do
  let mut sols : Std.HashMap ConnId (Array (List Mv)) := {}
  for k in conns do
    match ← solveMemo h k pl #[] with
    | some s => sols := sols.insert k s.toArray
    | none => return none
  let errs := errBlocks pl
  if errs.isEmpty then
    return assemble h conns pl sols
  -- every Shutdown that returned the context's error: some connection was counted at its first poll
  for asg in (assignments conns errs).take 256 do
    let mut sols' := sols
    let mut ok := true
    for k in conns do
      let mine := asg.filter (·.2 == k)
      if !mine.isEmpty then
        let mc : Array Bool := (Array.range pl.blocks.size).map fun i => mine.any (·.1 == i)
        match ← solveMemo h k pl mc with
        | some s => sols' := sols'.insert k s.toArray
        | none => ok := false
    if ok then
      if let some as := assemble h conns pl sols' then
        return some as
  return none

/-- a call as the history shows it -/
structure CallInfo where
  shut : Bool
  id : CallId
  call : Nat                 -- position of its call event
  ret : Nat                  -- position of its return event
  isNil : Bool := true
  minEnd : Nat := 0          -- Shutdown returning the error: first gap after its context was done
  deriving Repr, Inhabited, BEq

/-- the calls of a history driven through the API that have returned (a call that never returned is not
    given a section: the harness reports it as a hang) -/
def callsOf (h : Array Ev) : List CallInfo := Id.run do
  let mut out : List CallInfo := []
  for i in [0:h.size] do
    match h[i]! with
    | .shutCall k _ _ =>
      match findIdx h (fun e => match e with | .shutRet k' _ => k' == k | _ => false) with
      | some r =>
        let isNil := h[r]! == .shutRet k none
        let dn := (findIdx h (fun e => e == .deadline k || e == .ctxCancel k)).map (· + 1)
        out := out ++ [{ shut := true, id := k, call := i, ret := r, isNil := isNil,
                         minEnd := if isNil then 0 else dn.getD (r + 1) }]
      | none => pure ()
    | .closeCall k =>
      match findIdx h (· == .closeRet k) with
      | some r => out := out ++ [{ shut := false, id := k, call := i, ret := r }]
      | none => pure ()
    | _ => pure ()
  return out

structure Verdict where
  ok : Bool
  plansTried : Nat
  actions : Array Action
  capped : Bool := false

def planCap : Nat := 60000

structure Search where
  memo : Memo := {}
  tried : Nat := 0
  found : Option (Array Action) := none

/-- try a complete plan (counts towards the cap) -/
def leaf (h : Array Ev) (conns : List ConnId) (pl : Plan) : StateM Search Bool := do
  let st ← get
  if st.found.isSome || st.tried ≥ planCap then return true
  let (r, memo') := (tryPlan h conns pl).run st.memo
  set { st with memo := memo', tried := st.tried + 1, found := r }
  return r.isSome

/-- depth-first enumeration of the orders and positions of the calls' sections; stops at the first plan
    that works or at the cap -/
partial def enumCalls (h : Array Ev) (conns : List ConnId) (calls : List CallInfo) (last : Nat)
    (acc : Array Block) : StateM Search Bool := do
  if calls.isEmpty then return ← leaf h conns { blocks := acc }
  for c in calls do
    let rest := calls.filter (· != c)
    for a in range (max last (c.call + 1)) c.ret do
      for b in range (max a c.minEnd) c.ret do
        -- every other call must still fit behind this section
        if rest.all (fun d => b ≤ d.ret) then
          if ← enumCalls h conns rest b (acc.push { shut := c.shut, id := c.id, a := a, b := b, isNil := c.isNil }) then
            return true
  let st ← get
  return st.found.isSome || st.tried ≥ planCap

/-- candidate plans of a history driven through `run` (one Shutdown, then Close if it returned an error),
    in an order that finds ordinary schedules early -/
def plansRun (h : Array Ev) (xc : Nat) : List Plan := Id.run do
  let n := h.size
  -- first gap after run's context was done (deadline passed / a signal of the configured set delivered)
  let cfg := sigSet h.toList
  let dl := (findIdx h (fun e => e == .deadline 0 || isCfgSig cfg e)).map (· + 1)
  let xr := (findIdx h (· == .runRet)).getD n
  let mut out : List Plan := []
  for p in range (xc + 1) xr do
    for r in range p xr do
      out := { blocks := #[{ shut := true, id := 0, a := p, b := r, isNil := true }] } :: out
    match dl with
    | some d =>
      for r in range (max p d) xr do
        for q in range r xr do
          for q2 in range q xr do
            out := { blocks := #[{ shut := true, id := 0, a := p, b := r, isNil := false },
                                 { shut := false, id := 0, a := q, b := q2 }] } :: out
    | none => pure ()
  return out.reverse

def search (h : Array Ev) : Verdict := Id.run do
  let conns := connsOf h
  match findIdx h (· == .cancel) with
  | some xc =>
    let mut st : Search := {}
    for pl in plansRun h xc do
      let (_, st') := (leaf h conns pl).run st
      st := st'
      if st.found.isSome || st.tried ≥ planCap then break
    match st.found with
    | some as => return { ok := true, plansTried := st.tried, actions := as }
    | none => return { ok := false, plansTried := st.tried, actions := #[], capped := st.tried ≥ planCap }
  | none =>
    let (_, st) := (enumCalls h conns (callsOf h) 0 #[]).run {}
    match st.found with
    | some as => return { ok := true, plansTried := st.tried, actions := as }
    | none => return { ok := false, plansTried := st.tried, actions := #[], capped := st.tried ≥ planCap }

/-- the check that makes acceptance trustworthy: the action list runs in the model and its visible
    part is the history -/
def checkRun (h : List Ev) (as : List Action) : Bool :=
  (run (startOf h) as).isSome && (as.filterMap visible == h.filter (!·.isMarker))

def accept (h : List Ev) : Bool :=
  let v := search h.toArray
  v.ok && checkRun h v.actions.toList

/-- an accepted history is a behaviour of the model (started with the kind of context the history
    names) -/
theorem accept_sound {h : List Ev} (ha : accept h = true) :
    ∃ as, (run (startOf h) as).isSome = true ∧ as.filterMap visible = h.filter (!·.isMarker) := by
  unfold accept at ha
  simp only [Bool.and_eq_true] at ha
  refine ⟨(search h.toArray).actions.toList, ?_⟩
  have := ha.2
  unfold checkRun at this
  simp only [Bool.and_eq_true, beq_iff_eq] at this
  exact this

/-! ## the host layer -/

/-- the initial state of the hosted system a history names -/
def gstartOf (h : List Ev) : GState :=
  match groupOf h with
  | some (m, gs) => ginit (h.contains .nolimit) (sigSet h) gs m
  | none => ginit (h.contains .nolimit) (sigSet h) [] 0

/-- the visible part of an action of the hosted system -/
def gvisible : GAction → Option Ev
  | .base a => visible a
  | .signal n => some (.sig n 0)
  | .memberRet i => some (.memberRet i)
  | .groupRet => some .groupRet

/-- the events of a history that are events of the hosted system -/
def gevents (h : List Ev) : List Ev := h.filter (!·.isCfgMarker)

/-- lift an execution of the proxy (its visible part = `baseOf h`) to the hosted system along `h`: a delivered signal
    is `signal`; the returns of the companions and of the group are placed just before the next visible action (after
    the hidden steps that precede it), the rest at the end -/
def liftGroup : List Ev → List Action → List GAction
  | hs, [] => hs.filterMap fun e => match e with
    | .memberRet i => some (.memberRet i)
    | .groupRet => some .groupRet
    | _ => none
  | hs, a :: as =>
    match visible a with
    | none => .base a :: liftGroup hs as
    | some _ =>
      -- the group events that come first
      let pre := hs.takeWhile fun e => match e with | .memberRet _ | .groupRet => true | _ => false
      let rest := hs.dropWhile fun e => match e with | .memberRet _ | .groupRet => true | _ => false
      let preA : List GAction := pre.filterMap fun e => match e with
        | .memberRet i => some (.memberRet i)
        | .groupRet => some .groupRet
        | _ => none
      match rest with
      | .sig n _ :: rest' => preA ++ .signal n :: liftGroup rest' as
      | _ :: rest' => preA ++ .base a :: liftGroup rest' as
      | [] => preA ++ .base a :: liftGroup [] as

/-- the lifted execution runs in the hosted system and its visible part is the history -/
def checkGRun (h : List Ev) (as : List Action) : Bool :=
  let gas := liftGroup (gevents h) as
  (grun (gstartOf h) gas).isSome && (gas.filterMap gvisible == gevents h)

/-- acceptance of a history of a hosted proxy -/
def gaccept (h : List Ev) : Bool :=
  let hb := baseOf h
  let v := search hb.toArray
  v.ok && checkRun hb v.actions.toList && checkGRun h v.actions.toList

/-- an accepted history of a hosted proxy is a behaviour of the hosted system `Model/C11Group.lean` -/
theorem gaccept_sound {h : List Ev} (ha : gaccept h = true) :
    ∃ gas, (grun (gstartOf h) gas).isSome = true ∧ gas.filterMap gvisible = gevents h := by
  unfold gaccept at ha
  simp only [Bool.and_eq_true] at ha
  refine ⟨liftGroup (gevents h) (search (baseOf h).toArray).actions.toList, ?_⟩
  have := ha.2
  unfold checkGRun at this
  simp only [Bool.and_eq_true, beq_iff_eq] at this
  exact this

/-! ## the property clauses on a history -/

structure Fail where
  clause : String
  conn : Nat
  deriving Repr

def posOf (h : Array Ev) (p : Ev → Bool) : Option Nat := h.findIdx? p

/-- positions of the j-th (0-based) event of a kind on connection k -/
def nth (h : Array Ev) (p : Ev → Bool) (j : Nat) : Option Nat := Id.run do
  let mut seen := 0
  for i in [0:h.size] do
    if p h[i]! then
      if seen = j then return some i
      seen := seen + 1
  return none

def isSend (k : ConnId) : Ev → Bool | .send c _ => c == k | _ => false
def isOrigin (k : ConnId) : Ev → Bool | .origin c => c == k | _ => false
def isResp (k : ConnId) : Ev → Bool | .resp c _ => c == k | _ => false
def isAnswer (k : ConnId) : Ev → Bool | .answer c => c == k | _ => false
def isClosed (k : ConnId) : Ev → Bool | .closed c => c == k | _ => false
def isGone (k : ConnId) : Ev → Bool | .gone c => c == k | _ => false
def isOend (k : ConnId) : Ev → Bool | .oend c => c == k | _ => false
def isEcho (k : ConnId) : Ev → Bool | .echo c => c == k | _ => false
def isDial (k : ConnId) : Ev → Bool | .connect c _ => c == k | .refused c => c == k | _ => false

def countEv (h : Array Ev) (p : Ev → Bool) : Nat := h.foldl (fun n e => if p e then n + 1 else n) 0

def before (a : Option Nat) (b : Option Nat) : Bool :=
  match a, b with
  | some a, some b => a < b
  | _, _ => false

/-- the clauses of the property that are decidable from the order of events alone -/
def clauses (h : Array Ev) : List Fail := Id.run do
  let conns := connsOf h
  let known := posOf h (· == .known)
  let isShutCall : Ev → Bool := fun e => match e with | .shutCall .. => true | _ => false
  let isCloseCall : Ev → Bool := fun e => match e with | .closeCall _ => true | _ => false
  -- a context is done: its deadline passed, its caller cancelled it, or (run's) a signal of the CONFIGURED set
  -- was delivered — a signal outside that set ends nothing
  let cfg := sigSet h.toList
  let isCtxDone : Ev → Bool := fun e => match e with | .deadline _ | .ctxCancel _ => true | e => isCfgSig cfg e
  -- the first call of anything
  let begun := posOf h (fun e => isShutCall e || isCloseCall e || e == .cancel)
  -- every return of nil by a call of Shutdown
  let retNils : List Nat := (List.range h.size).filter fun i => match h[i]! with
    | .shutRet _ none => true
    | _ => false
  -- from here on exchanges may be cut: the first call of Close; under `run` (which calls Close as soon as its
  -- Shutdown gave up) the moment run's context is done (deadline passed / second signal)
  let forced := match posOf h isCloseCall, (if h.any (· == .cancel) then posOf h isCtxDone else none) with
    | some a, some b => some (min a b)
    | some a, none => some a
    | none, b => b
  -- Run's return when its context was not done before
  let runRetFree : Option Nat := match posOf h (· == Ev.runRet) with
    | some rr => if before (posOf h isCtxDone) (some rr) then none else some rr
    | none => none
  let mut out : List Fail := []
  for k in conns do
    let nOrigin := countEv h (isOrigin k)
    let nResp := countEv h (isResp k)
    -- (1) no request first sent after shutdown has begun is forwarded
    for j in [0:nOrigin] do
      if before known (nth h (isSend k) j) then
        out := out ++ [{ clause := "request-first-sent-after-shutdown-began-was-forwarded", conn := k }]
    -- (2) no new connection is served
    if before known (posOf h (isDial k)) ∧ (nOrigin > 0 ∨ nResp > 0) then
      out := out ++ [{ clause := "connection-made-after-shutdown-began-was-served", conn := k }]
    -- (3) an exchange whose request reached its origin before shutdown was requested completes,
    --     unless the client vanished or the shutdown was forced (deadline / Close) first
    for j in [0:nOrigin] do
      let o := nth h (isOrigin k) j
      if before o begun ∧ (nth h (isAnswer k) j).isSome then
        let r := nth h (isResp k) j
        let excused : Bool := (posOf h (isGone k)).isSome || (match forced with
          | some f => match r with
            | some r => f < r
            | none => true
          | none => false)
        if r.isNone ∧ !excused then
          out := out ++ [{ clause := "exchange-at-origin-before-shutdown-did-not-complete", conn := k }]
    -- (4) a call of Shutdown — the first or a later one — returned nil although the connection was still being served
    for rn in retNils do
      for j in [0:nOrigin] do
        let o := nth h (isOrigin k) j
        let a := nth h (isAnswer k) j
        if before o (some rn) ∧ (before (some rn) a ∨ (a.isNone ∧ (posOf h (isGone k)).isNone ∧ !(before (posOf h (isClosed k)) (some rn)))) then
          out := out ++ [{ clause := "shutdown-returned-nil-with-exchange-pending-at-origin", conn := k }]
      for j in [0:nResp] do
        if before (some rn) (nth h (isSend k) j) then
          out := out ++ [{ clause := "request-sent-after-shutdown-returned-nil-was-answered", conn := k }]
    -- (5) a response the origin released after closing was known carries Connection: close — except the
    --     200 of a CONNECT (fixed bytes without a Connection field), which is followed by the tunnel: (8), (9)
    for j in [0:nResp] do
      let a := nth h (isAnswer k) j
      if before known a then
        let isConnect := match (nth h (isSend k) j).bind (fun i => h[i]?) with
          | some (.send _ r) => r.connect
          | _ => false
        match (nth h (isResp k) j).bind (fun i => h[i]?) with
        | some (.resp _ false) =>
          if !isConnect then
            out := out ++ [{ clause := "response-while-closing-without-connection-close", conn := k }]
        | _ => pure ()
    -- (7) rig a: Run returned although the shutdown deadline had not passed (there is none with shutdown
    --     timeout 0) while a request of this connection was still at its origin (answer released later)
    match runRetFree with
    | some rn =>
      if (posOf h (isGone k)).isNone then
        for j in [0:nOrigin] do
          if before (nth h (isOrigin k) j) (some rn) ∧ before (some rn) (nth h (isAnswer k) j) then
            out := out ++ [{ clause := "run-returned-before-the-deadline-with-exchange-pending-at-origin", conn := k }]
    | none => pure ()
    -- (8) a tunnel — established before shutdown was requested, or by a CONNECT whose dial completed
    --     during the shutdown — stays up until its client or its origin ends it, unless the shutdown was
    --     forced (deadline / Close) first
    -- (9) … and it is a tunnel: what the client sends into it comes back (the harness probes it at once),
    --     unless the client left or the shutdown was forced first
    for j in [0:nResp] do
      let isConnect : Bool := match (nth h (isSend k) j).bind (fun i => h[i]?) with
        | some (.send _ r) => r.connect
        | _ => false
      let r := nth h (isResp k) j
      if isConnect && r.isSome then
        let x := posOf h (isClosed k)
        let caused : Bool := before (posOf h (isGone k)) x || before (posOf h (isOend k)) x || before forced x
        if x.isSome && !caused then
          out := out ++ [{ clause := if before r begun then "tunnel-established-before-shutdown-was-cut-before-the-deadline"
                                     else "tunnel-established-during-shutdown-was-cut-before-the-deadline", conn := k }]
        let echoed : Bool := (List.range h.size).any fun i => isEcho k h[i]! && before r (some i)
        let excused : Bool := (posOf h (isGone k)).isSome || (match forced with
          | some f => match x with
            | some x => f < x
            | none => true
          | none => false)
        if !echoed && !excused then
          out := out ++ [{ clause := "connect-answered-200-but-the-tunnel-relayed-nothing", conn := k }]
  -- (10) nothing is served any more once Run has returned / a Close has returned: an answer its origin released
  --      after that does not reach the client
  let ends : List Nat := (List.range h.size).filter fun i => match h[i]! with
    | .runRet | .closeRet _ => true
    | _ => false
  for k in conns do
    for j in [0:countEv h (isResp k)] do
      if ends.any (fun e => before (some e) (nth h (isAnswer k) j)) then
        out := out ++ [{ clause := "response-relayed-after-run-or-close-returned", conn := k }]
  -- (11) the host layer: RunContext returns only after EVERY member has returned — the proxy's Run and every companion —,
  --      and nothing is served any more once it has returned (the process exits)
  match groupOf h.toList with
  | some (m, _) =>
    for gr in (List.range h.size).filter (fun i => h[i]! == Ev.groupRet) do
      let late : Bool := !(before (posOf h (· == Ev.runRet)) (some gr)) ||
        (List.range m).any fun i => !(before (posOf h (· == Ev.memberRet i)) (some gr))
      if late then
        out := out ++ [{ clause := "group-returned-before-every-member-had-returned", conn := 0 }]
      for k in conns do
        for j in [0:countEv h (isResp k)] do
          if before (some gr) (nth h (isAnswer k) j) then
            out := out ++ [{ clause := "response-relayed-after-the-group-returned", conn := k }]
  | none => pure ()
  -- (6) every call of Shutdown returns the error of ITS context, and only after that context was done for that
  --     reason (deadline passed: DeadlineExceeded; cancelled: Canceled)
  for i in [0:h.size] do
    match h[i]! with
    | .shutRet k (some w) =>
      let cause : Ev := match w with
        | .deadline => .deadline k
        | .cancel => .ctxCancel k
      if !(before (posOf h (· == cause)) (some i)) then
        out := out ++ [{ clause := "shutdown-returned-error-before-its-own-context-was-done", conn := k }]
    | _ => pure ()
  return out

/-! ## wire -/

def parseBool (s : String) : Option Bool := Wire.boolOf s

def parseEv (s : String) : Option Ev :=
  match s.splitOn ":" with
  | ["c", k, t] => do some (.connect (← k.toNat?) (← parseBool t))
  | ["r", k] => do some (.refused (← k.toNat?))
  | ["h", k] => do some (.hello (← k.toNat?))
  | ["p", k] => do some (.part (← k.toNat?))
  | ["s", k, cn, cl, au] => do
    some (.send (← k.toNat?) { connect := (← parseBool cn), close := (← parseBool cl), auto := (← parseBool au) })
  | ["g", k] => do some (.gone (← k.toNat?))
  | ["a", k] => do some (.answer (← k.toNat?))
  | ["e", k] => do some (.oend (← k.toNat?))
  | ["o", k] => do some (.origin (← k.toNat?))
  | ["R", k, cl] => do some (.resp (← k.toNat?) (← parseBool cl))
  | ["x", k] => do some (.closed (← k.toNat?))
  | ["t", k] => do some (.echo (← k.toNat?))
  | ["L"] => some .lclose
  | ["SC"] => some (.shutCall 0 false false)
  | ["SC", k, nl, cb] => do some (.shutCall (← k.toNat?) (← parseBool nl) (← parseBool cb))
  | ["SR", n] => do some (.shutRet 0 (if (← parseBool n) then none else some .deadline))
  | ["SR", k, r] => do
    let r ← match r with
      | "n" => some none
      | "d" => some (some Why.deadline)
      | "c" => some (some Why.cancel)
      | _ => none
    some (.shutRet (← k.toNat?) r)
  | ["CC"] => some (.closeCall 0)
  | ["CC", k] => do some (.closeCall (← k.toNat?))
  | ["CR"] => some (.closeRet 0)
  | ["CR", k] => do some (.closeRet (← k.toNat?))
  | ["D"] => some (.deadline 0)
  | ["D", k] => do some (.deadline (← k.toNat?))
  | ["Z", k] => do some (.ctxCancel (← k.toNat?))
  | ["X"] => some .cancel
  | ["XR"] => some .runRet
  | ["K"] => some .known
  | ["NL"] => some .nolimit
  | ["G", n] => do some (.sig (← n.toNat?) 0)
  | "SG" :: l => do some (.signals (← l.mapM String.toNat?))
  | "GC" :: m :: l => do some (.groupCfg (← m.toNat?) (← l.mapM String.toNat?))
  | ["MR", i] => do some (.memberRet (← i.toNat?))
  | ["GR"] => some .groupRet
  | _ => none

def parseHistory (s : String) : Option (List Ev) := (Wire.splitList s).mapM parseEv

def handle : List String → String
  | ["accept", hs] =>
    match parseHistory hs with
    | none => "bad-op"
    | some h0 =>
      -- (a hosted proxy: the proxy's own history first, then the host layer along the whole history)
      let h := baseOf h0
      let v := search h.toArray
      if v.ok then
        if checkRun h v.actions.toList then
          if (groupOf h0).isNone || checkGRun h0 v.actions.toList then s!"accept plans={v.plansTried} actions={v.actions.size}"
          else s!"reject host-layer-does-not-replay plans={v.plansTried}"
        else s!"reject merged-run-does-not-replay plans={v.plansTried}"
      else if v.capped then s!"inconclusive plans={v.plansTried}"
      else s!"reject no-execution-of-the-model-has-this-history plans={v.plansTried}"
  | ["holds", hs] =>
    match parseHistory hs with
    | none => "bad-op"
    | some h =>
      match clauses (baseOf h).toArray with
      | [] => "true"
      | fs => "false " ++ ",".intercalate (fs.map fun f => s!"{f.clause}:{f.conn}")
  | _ => "bad-op"

end C11
end FwdVerif
