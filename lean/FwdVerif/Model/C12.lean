/-
  C12 — upstream faults and hostile input: what the client reads when something goes wrong
  beyond the proxy.  Core-only.

  Anchors (forwarder):
    http_proxy_errors.go            errorResponse + the fourteen handlers, in order
    internal/martian/proxy_conn.go  handle, handleUpgradeResponse, writeErrorResponse, writeResponse
    internal/martian/proxyutil/proxyutil.go  NewResponse, SetProto (the protocol version of a generated response)
    internal/martian/proxy.go       handleLoop (maxConsecutiveErrors), roundTrip
    internal/martian/errors.go      isClosedConnError, isCloseable, ErrorStatus
    internal/martian/proxy_connect.go  connectHTTP, OnProxyConnectResponse, maybeConnectErrorResponse
    dialvia/http.go                 DialContextR (CONNECT to an upstream proxy)

  §1  `ErrShape`: what `errors.As` / `errors.Is` / `err.Error()` reveal of an error chain; the
      handlers as functions of it, in code order; `classifyShape`.
  §2  `ErrKind`: the error chains that actually reach `errorResponse` (with their shapes);
      `classify`; the CONNECT-rejection relay (`maybeConnectErrorResponse`).
  §3  the error response: what `errorResponse` builds, the response modifiers, `writeResponse`;
      the relayed CONNECT rejection (`relayResponse`, `writtenRelay`).
  §4  the exchange state machine with one injected fault: `clientStream`.
  §5  `handleLoop`: the consecutive-error counter.
  §6  `writeResponse`: the writer selection (CONNECT-OK literal / header-only writer / SSE flush writer /
      chunk flush writer / plain) as a total function of (request method, status, header), which writers
      read the body, and what `handle` makes of an accepted upstream reply (`relay`, incl. the `panicBody`
      sentinel of `handleUpgradeResponse` and the 502 for a `101` that is no protocol switch).
  §7  `addr2Host` (net_metrics.go): the `host` label of the dialer's metrics as a function of the dialled
      address, with UTF-8 validity (RFC 3629) as a predicate on bytes; the two ways to bound a label.
  §8  the handler variant (proxy_handler.go `writeResponse` under net/http's server): what the client reads
      when the body copy fails, as a function of what the handler does with the error (`CopyPolicy`).
  §9  the accept loop (`Proxy.Serve`): which `Accept` errors are retried (with which delay) and which end it.
  §10 the HTTP log mode: the logger as a wrapper around the relayed body (`wrapBody`), transparency.
  §11 `middleware.parseBasicAuth` as Go executes it (slice and index expressions with their bound checks,
      a `panic` outcome), the basic-auth decision on a field value; the `strings.Fields` way of writing it.
  §12 (Model/C12Dial.lean) the dialer's retry loop (`net.go` `Dialer.dialContext` / `DialContext`) as a pure
      function of the attempt outcomes and of the points at which the caller's context is done.
-/
import FwdVerif.Model.Resp
import FwdVerif.Model.RespSpec
import FwdVerif.Model.C04

namespace FwdVerif
namespace C12

open Ascii
open C16 (HMap goDel goSet goAdd Rule applyRules)
open Req (bs hget goGet removeHopByHop natToDec lowerFields)

/-! ## §1 error shapes and the ordered handler list -/

/-- `net.OpError.Op` values that occur: the dialer and the socket use dial/read/write, `crypto/tls`
    wraps alerts as `&net.OpError{Op: "remote error" | "local error", Err: alert}`. -/
inductive NetOp where
  | dial | read | write | remoteError | localError
  | proxyconnect   -- `http.Transport` wraps every failure to reach the configured proxy (dial, TLS to an https proxy)
  | socksConnect   -- `golang.org/x/net/internal/socks` wraps the failure to reach a SOCKS5 proxy: `socks connect tcp …`
  deriving DecidableEq, Repr

def NetOp.text : NetOp → String
  | .dial => "dial" | .read => "read" | .write => "write"
  | .remoteError => "remote error" | .localError => "local error"
  | .proxyconnect => "proxyconnect"
  | .socksConnect => "socks connect"

/-- Everything the handlers look at.  One Go error chain can satisfy several of the tests at once
    (a TLS alert arrives wrapped in a `*net.OpError`; an `ErrorStatus` may wrap anything), which is
    why the order of the handler list matters. -/
structure ErrShape where
  opError : Option (NetOp × Bool) := none     -- errors.As(*net.OpError): (Op, Timeout())
  recordHeader : Option Bool := none          -- errors.As(tls.RecordHeaderError): looks like HTTP?
  certVerification : Bool := false            -- errors.As(*tls.CertificateVerificationError)
  echRejection : Bool := false                -- errors.As(*tls.ECHRejectionError)
  alert : Bool := false                       -- errors.As(tls.AlertError)
  errorStatus : Option Nat := none            -- errors.As(martian.ErrorStatus): .Status
  proxyAuth : Bool := false                   -- errors.Is(ErrProxyAuthentication)
  deny : Bool := false                        -- errors.As(denyError)
  prohibited : Bool := false                  -- errors.As(prohibitedError)
  canceled : Bool := false                    -- errors.Is(context.Canceled)
  statusText : Option Nat := none             -- first i in [400,600) with http.StatusText(i) == err.Error()
  timeout : Bool := false                     -- errors.As(net.Error) && .Timeout()  (context.DeadlineExceeded, net/http's
                                              --   time-out errors, every *net.OpError whose Timeout() holds)
  eof : Bool := false                         -- errors.Is(io.EOF) || errors.Is(io.ErrUnexpectedEOF)
  deriving DecidableEq, Repr

/-- (code, label); code 0 = "not mine, ask the next handler" -/
abbrev Verdict := Nat × String

def pass : Verdict := (0, "")

/-- metrics are skipped for this label -/
def skipMetricsLabel : String := "-"

/-- a handler sees the request (only `req.URL.Scheme == "https"` matters for the verdict) and the error -/
abbrev Handler := Bool → ErrShape → Verdict

/-- `runtime.GOOS != "windows"`: returns at once -/
def handleWindowsNetError : Handler := fun _ _ => pass

def handleNetError : Handler := fun _ e =>
  match e.opError with
  | some (op, true) => (504, "net_" ++ op.text)
  | some (op, false) => (502, "net_" ++ op.text)
  | none => pass

def handleTLSRecordHeader : Handler := fun _ e =>
  match e.recordHeader with
  | some _ => (502, "tls_record_header")
  | none => pass

def handleTLSCertificateError : Handler := fun _ e =>
  if e.certVerification then (502, "tls_certificate") else pass

def handleTLSECHRejectionError : Handler := fun _ e =>
  if e.echRejection then (502, "tls_ech_rejection") else pass

def handleTLSAlertError : Handler := fun _ e =>
  if e.alert then (502, "tls_alert") else pass

/-- `code = martianErr.Status` — a zero status falls through to the next handler -/
def handleMartianErrorStatus : Handler := fun _ e =>
  match e.errorStatus with
  | some s => (s, "martian_error")
  | none => pass

def handleAuthenticationError : Handler := fun _ e =>
  if e.proxyAuth then (407, "proxy_authentication") else pass

def handleDenyError : Handler := fun _ e =>
  if e.deny then (403, skipMetricsLabel) else pass

def handleProhibitedError : Handler := fun _ e =>
  if e.prohibited then (451, skipMetricsLabel) else pass

def handleContextCancelationError : Handler := fun _ e =>
  if e.canceled then (500, "request_ctx_canceled") else pass

def handleStatusText : Handler := fun https e =>
  if https then
    match e.statusText with
    | some i => if 400 ≤ i ∧ i < 600 then (i, "https_status_text") else pass
    | none => pass
  else pass

/-- any error that is a time-out and that none of the handlers before claimed: `context.DeadlineExceeded`
    (an upstream proxy that does not answer CONNECT within `ConnectTimeout`), `net/http: TLS handshake
    timeout`, `net/http: timeout awaiting response headers` -/
def handleTimeoutError : Handler := fun _ e =>
  if e.timeout then (504, "timeout") else pass

/-- the remote host closed the connection before a complete reply: in the TLS handshake, instead of a
    response, inside the response head where the bytes so far are well-formed -/
def handleEOFError : Handler := fun _ e =>
  if e.eof then (502, "unexpected_eof") else pass

/-- the list of `errorResponse`, in code order -/
def handlers : List Handler :=
  [handleWindowsNetError, handleNetError, handleTLSRecordHeader, handleTLSCertificateError,
   handleTLSECHRejectionError, handleTLSAlertError, handleMartianErrorStatus,
   handleAuthenticationError, handleDenyError, handleProhibitedError,
   handleContextCancelationError, handleStatusText, handleTimeoutError, handleEOFError]

/-- `for _, h := range handlers { code, msg, label = h(req, err); if code != 0 { break } }` -/
def firstVerdict : List Handler → Bool → ErrShape → Verdict
  | [], _, _ => pass
  | h :: hs, https, e =>
    let v := h https e
    if v.1 != 0 then v else firstVerdict hs https e

/-- … `if code == 0 { code = 500; label = "unexpected_error" }` -/
def classifyWith (hs : List Handler) (https : Bool) (e : ErrShape) : Verdict :=
  let v := firstVerdict hs https e
  if v.1 == 0 then (500, "unexpected_error") else v

def classifyShape (https : Bool) (e : ErrShape) : Verdict := classifyWith handlers https e

/-! ## §2 the error chains that occur -/

inductive ErrKind where
  | opError (op : NetOp) (timeout : Bool)  -- dial tcp …: connection refused / i/o timeout; read tcp …: connection reset by peer; …
  /-- `*net.OpError`s nested: `&OpError{Op: outer, Err: &OpError{Op: inner₁, … Err: e}}` where `e` is a
      time-out or not — e.g. `proxyconnect tcp: dial tcp …: i/o timeout`, what `http.Transport` returns when
      the dial to the upstream proxy fails.  `errors.As` finds the outermost; `OpError.Timeout()` asks the
      error it wraps, so the answer is the innermost error's. -/
  | opChain (outer : NetOp) (inner : List NetOp) (timeout : Bool)
  | dns (timeout : Bool)                   -- &OpError{Op:"dial", Err:&DNSError{IsTimeout}}
  | connRefused                            -- &OpError{Op:"dial", Err: ECONNREFUSED}
  | connReset                              -- &OpError{Op:"read", Err: ECONNRESET}
  | unexpectedEOF                          -- io.EOF / io.ErrUnexpectedEOF out of the transport or dialvia
  | tlsRecordHeader (looksLikeHTTP : Bool) -- tls.RecordHeaderError ("first record does not look like a TLS handshake")
  | tlsCertificate                         -- *tls.CertificateVerificationError (expired, wrong name, unknown authority)
  | tlsECHRejection
  | tlsAlertBare                           -- a tls.AlertError that is not wrapped
  | tlsAlertRemote                         -- &net.OpError{Op:"remote error", Err: alert}
  | tlsAlertLocal                          -- &net.OpError{Op:"local error", Err: alert}
  | tlsGeneric                             -- errors.New("tls: …") out of the handshake (garbage ServerHello …)
  | tlsHandshakeTimeout                    -- net/http: TLS handshake timeout
  | martianStatus (s : Nat)                -- martian.ErrorStatus (Via loop: 400)
  | proxyAuth | denied | prohibited
  | ctxCanceled | ctxDeadline
  | connectRejected (s : Nat)              -- *connectError made by OnProxyConnectResponse (status s)
  | statusTextError (s : Nat) (https : Bool) -- err.Error() == http.StatusText(s), request scheme https or not
  | malformedResponse                      -- malformed HTTP response / MIME header / conflicting Content-Length / oversized head
  | responseHeaderTimeout                  -- net/http: timeout awaiting response headers
  | other
  deriving DecidableEq, Repr

def shapeOf : ErrKind → ErrShape
  | .opError op t => { opError := some (op, t), timeout := t }
  | .opChain outer _ t => { opError := some (outer, t), timeout := t }
  | .dns t => { opError := some (.dial, t), timeout := t }
  | .connRefused => { opError := some (.dial, false) }
  | .connReset => { opError := some (.read, false) }
  | .unexpectedEOF => { eof := true }
  | .tlsRecordHeader b => { recordHeader := some b }
  | .tlsCertificate => { certVerification := true }
  | .tlsECHRejection => { echRejection := true }
  | .tlsAlertBare => { alert := true }
  | .tlsAlertRemote => { opError := some (.remoteError, false), alert := true }
  | .tlsAlertLocal => { opError := some (.localError, false), alert := true }
  | .tlsGeneric => {}
  | .tlsHandshakeTimeout => { timeout := true }        -- `tlsHandshakeTimeoutError`: a `net.Error`, `Timeout()` true
  | .martianStatus s => { errorStatus := some s }
  | .proxyAuth => { proxyAuth := true }
  | .denied => { deny := true }
  | .prohibited => { prohibited := true }
  | .ctxCanceled => { canceled := true }
  | .ctxDeadline => { timeout := true }                -- `context.DeadlineExceeded` implements `net.Error`
  | .connectRejected _ => {}               -- "proxy connect error: 403 Forbidden": no handler knows it
  | .statusTextError s _ => { statusText := some s }
  | .malformedResponse => {}
  | .responseHeaderTimeout => { timeout := true }      -- `httpError{timeout: true}`
  | .other => {}

def ErrKind.https : ErrKind → Bool
  | .statusTextError _ h => h
  | _ => false

/-- `errorResponse`'s (code, label) for an error of kind `k` -/
def classify (k : ErrKind) : Verdict := classifyShape k.https (shapeOf k)

/-- what `writeErrorResponse` writes: the upstream proxy's own reply when the error is a
    `*connectError` (`maybeConnectErrorResponse`) — re-addressed to the client's request
    (`res.Request = req`, the client's protocol version) —, otherwise `errorResponse` -/
inductive Written where
  | relay (status : Nat)
  | generated (status : Nat) (label : String)
  deriving DecidableEq, Repr

def errorWritten : ErrKind → Written
  | .connectRejected s => .relay s
  | k => .generated (classify k).1 (classify k).2

def Written.status : Written → Nat
  | .relay s => s
  | .generated s _ => s

/-- status the client reads for an error of kind `k` -/
def respStatus (k : ErrKind) : Nat := (errorWritten k).status

/-! ## §3 the error response -/

/-- facts of the client's request that the error path uses -/
structure ReqFacts where
  name : Bytes                 -- hp.config.Name
  major : Nat := 1             -- HTTP/<major>.<minor> of the request line (`http.ReadRequest` accepts any digits:
  minor : Nat := 1             --   `PRI * HTTP/2.0`, `GET … HTTP/1.7`)
  close : Bool := false        -- req.Close
  isConnect : Bool := false
  rules : List Rule := []      -- --response-header rules (skipped for CONNECT)
  deriving Repr

structure GoResp where
  status : Nat
  minor : Nat
  header : HMap
  body : Bytes
  contentLength : Nat
  close : Bool
  deriving Repr

def xfeName : Bytes := bs "X-Forwarder-Error"

/-- `proxyutil.SetProto` (used by `NewResponse` and by the CONNECT-rejection relay of `writeErrorResponse`):
    the response takes the protocol version of the request when that is HTTP/1.0 or HTTP/1.1 and is
    HTTP/1.1 otherwise — the minor version of the `HTTP/1.x` it is written with -/
def respMinor (rq : ReqFacts) : Nat :=
  if rq.major == 1 && (rq.minor == 0 || rq.minor == 1) then rq.minor else 1

/-- `errorResponse`: body = name SP msg LF err LF; `X-Forwarder-Error: name SP err`;
    `Content-Type`; `Proxy-Authenticate` for 407; `ContentLength = body.Len()` -/
def errorResponse (rq : ReqFacts) (status : Nat) (msg errText : Bytes) : GoResp :=
  let body := rq.name ++ [32] ++ msg ++ [10] ++ errText ++ [10]
  let h0 : HMap := []
  let h1 := if status == 407 then goSet h0 (bs "Proxy-Authenticate") (bs "Basic realm=\"" ++ rq.name ++ bs "\"") else h0
  let h2 := goSet h1 xfeName (rq.name ++ [32] ++ errText)
  let h3 := goSet h2 (bs "Content-Type") (bs "text/plain; charset=utf-8")
  { status := status, minor := respMinor rq, header := h3, body := body, contentLength := body.length,
    close := rq.close }

/-- `p.modifyResponse(res)`: the inner group (response rules; not for CONNECT) then hop-by-hop removal -/
def modifyResponse (rq : ReqFacts) (r : GoResp) : GoResp :=
  { r with header := removeHopByHop (if rq.isConnect then r.header else applyRules rq.rules r.header) }

/-- what `writeResponse` + `Response.Write` put on the client connection -/
structure WireResp where
  minor : Nat
  status : Nat
  fields : List (Bytes × List Bytes)   -- lower-cased names; the framing lines first, as `Response.Write` emits them
  body : Bytes
  keepAlive : Bool
  deriving Repr

/-- `writeResponse` for a response with a known positive length (every error response has one):
    `Close` from the request (or shutdown), `Connection: close` added, `Content-Length: n`, the map
    minus the framing fields. -/
def writeResponse (closing : Bool) (r : GoResp) : WireResp :=
  let close := closing || r.close
  let h := if close then goAdd r.header (bs "Connection") (bs "close") else r.header
  let excluded := [bs "Content-Length", bs "Transfer-Encoding", bs "Trailer"]
  let rest := lowerFields (h.filter fun e => !excluded.contains e.1)
  { minor := r.minor, status := r.status,
    fields := (bs "content-length", [natToDec r.contentLength]) :: rest,
    body := r.body, keepAlive := !close }

/-- the whole error path of `writeErrorResponse` for a generated response -/
def writtenError (closing : Bool) (rq : ReqFacts) (status : Nat) (msg errText : Bytes) : WireResp :=
  writeResponse closing (modifyResponse rq (errorResponse rq status msg errText))

/-- The response `writeErrorResponse` relays when the error is the transport's `*connectError`:
    `OnProxyConnectResponse` built it from the upstream proxy's reply to the transport's own CONNECT —
    status `status`, `Header = connectRes.Header.Clone()` (`up`), the body it could read (`body`, empty
    when the reply announced none or was torn), `ContentLength = len(body)` — and `writeErrorResponse`
    now hands it to the client's request: `res.Request = req`, `proxyutil.SetProto(res, req)`.  Nothing of
    forwarder's own is added: no `X-Forwarder-Error` unless the upstream proxy sent one.
    (Statuses that admit a body: `writeResponse` below writes `Content-Length` also when it is 0.) -/
def relayResponse (rq : ReqFacts) (status : Nat) (up : HMap) (body : Bytes) : GoResp :=
  { status := status, minor := respMinor rq, header := up, body := body, contentLength := body.length,
    close := rq.close }

/-- the whole path of `writeErrorResponse` for a relayed transport-level CONNECT rejection: the
    response modifiers run for the client's request (its method is not CONNECT: the response rules
    apply), `writeResponse` decides `Connection: close` from the client's request -/
def writtenRelay (closing : Bool) (rq : ReqFacts) (status : Nat) (up : HMap) (body : Bytes) : WireResp :=
  writeResponse closing (modifyResponse rq (relayResponse rq status up body))

def WireResp.values (w : WireResp) (name : Bytes) : List Bytes :=
  (w.fields.filter fun f => f.1 == lower name).flatMap (·.2)

/-- the length the head declares -/
def WireResp.declaredLength (w : WireResp) : Option Nat :=
  match w.values (bs "Content-Length") with
  | [v] => Req.parseNat? v
  | _ => none

def crlf : Bytes := [13, 10]

def fieldLines (fs : List (Bytes × List Bytes)) : Bytes :=
  fs.flatMap fun f => f.2.flatMap fun v => f.1 ++ [58, 32] ++ v ++ crlf

/-- bytes on the wire (reason phrase left out: `HTTP/1.m SP code SP CRLF`; header names in lower
    case — both irrelevant to framing) -/
def WireResp.head (w : WireResp) : Bytes :=
  bs "HTTP/1." ++ natToDec w.minor ++ [32] ++ natToDec w.status ++ [32] ++ crlf ++ fieldLines w.fields ++ crlf

def WireResp.wire (w : WireResp) : Bytes := w.head ++ w.body

/-! ## §4 one exchange with one injected fault -/

/-- framing of the origin's reply (and, for these framings, of what the proxy writes) -/
inductive Framing where
  | cl (n : Nat) | chunked | eof
  deriving DecidableEq, Repr

/-- how the client asked -/
inductive ReqKind where
  | plain        -- `GET http://…` on the listener
  | httpsGet     -- `GET https://…` on the listener: the transport does TLS (and CONNECT via an upstream)
  | mitm         -- a request inside an intercepted CONNECT tunnel
  | connect      -- a client CONNECT that is tunnelled
  deriving DecidableEq, Repr

structure Exchange where
  id : Nat
  kind : ReqKind := .plain
  viaUpstream : Bool := false
  upstreamTLS : Bool := false   -- the upstream proxy is an https:// one (TLS to the proxy itself)
  reqClose : Bool := false
  clientMinor : Nat := 1        -- the client speaks HTTP/1.<clientMinor>
  headLen : Nat := 0            -- bytes of the origin's reply head
  framing : Framing := .cl 0
  bodyLen : Nat := 0            -- body payload bytes the origin means to send
  deriving DecidableEq, Repr

inductive TLSFault where
  | expired | wrongName | untrusted      -- certificate verification
  | garbageHandshake                     -- a record that is no ServerHello
  | plainHTTP                            -- an HTTP response on the TLS port
  | notTLS                               -- other non-TLS bytes
  | remoteAlert                          -- the peer answers with an alert
  | localAlert                           -- a well-formed record that is out of place: the client side raises the alert
  | closed | reset                       -- FIN / RST instead of a ServerHello
  | stall                                -- nothing until the handshake time-out
  deriving DecidableEq, Repr

def TLSFault.errKind : TLSFault → ErrKind
  | .expired | .wrongName | .untrusted => .tlsCertificate
  | .garbageHandshake => .tlsGeneric
  | .plainHTTP => .tlsRecordHeader true
  | .notTLS => .tlsRecordHeader false
  | .remoteAlert => .tlsAlertRemote
  | .localAlert => .tlsAlertLocal
  | .closed => .unexpectedEOF
  | .reset => .connReset
  | .stall => .tlsHandshakeTimeout

/-- the upstream proxy's answer to CONNECT -/
inductive ConnectReply where
  | rejected (s : Nat) (framed : Bool)   -- non-2xx with (framed) or without a Content-Length
  | rejectedCut (s n k : Nat)            -- non-2xx announcing n body bytes, k < n of them, then close
  | cut (k : Nat) (reset surfaces eof : Bool)
  | malformed
  | timeout
  deriving DecidableEq, Repr

/-- Fault points.  `surfaces`, `eof` and `lost` are the nondeterminism of the byte-level readers:
    whether a reset that follows bytes already read is reported as such or swallowed by bufio
    (then the next read sees EOF); whether `http.ReadResponse` finds the `k > 0` bytes of a torn head
    well-formed as far as they go and reports the end of input (`io.ErrUnexpectedEOF`: the cut falls
    behind a complete line or behind the colon of a field line) or takes the last, partial line for a
    malformed one; and how many payload bytes that the proxy had read are not relayed before the read
    error ends the copy. -/
inductive Fault where
  | none
  | dialRefused | dialTimeout
  /-- the dialled party accepts the connection and resets it at once; `op` = where the reset surfaces
      (scheduling: in the connect itself, in the first write, in the first read) -/
  | dialReset (op : NetOp)
  | tls (f : TLSFault)
  | connectReply (r : ConnectReply)
  | headCut (k : Nat) (reset surfaces eof : Bool)   -- k < headLen bytes of the reply head, then close
  | headMalformed                                    -- complete but unparsable / conflicting / oversized head
  | bodyCut (k : Nat) (reset : Bool) (lost : Nat)    -- whole head, k payload bytes, then close
  deriving DecidableEq, Repr

/-- error of a reply that ends after `k` bytes of its head -/
def cutErr (k : Nat) (reset surfaces eof : Bool) : ErrKind :=
  if k == 0 then (if reset then .connReset else .unexpectedEOF)
  else if reset && surfaces then .connReset
  else if eof then .unexpectedEOF else .malformedResponse

def usesTLS (ex : Exchange) : Bool := ex.kind == .httpsGet || ex.kind == .mitm

/-- the request goes out through `http.Transport` with a proxy configured: its failures to reach that
    proxy come back wrapped in a `proxyconnect` `OpError` (a client CONNECT is dialled by `dialvia`,
    which hands back the bare error) -/
def viaTransportProxy (ex : Exchange) : Bool := ex.viaUpstream && ex.kind != .connect

/-- a dial error, as the path of the exchange reports it -/
def dialErr (ex : Exchange) (timeout : Bool) : ErrKind :=
  if viaTransportProxy ex then .opChain .proxyconnect [.dial] timeout
  else if timeout then .opError .dial true else .connRefused

/-- the dialled party resets the fresh connection: the operation `op` fails with ECONNRESET — in the TLS
    handshake with an https upstream proxy (wrapped by the transport), otherwise in the connect or in the
    first exchange on the connection.  A direct client CONNECT has been answered `200` by then (unless the
    connect itself reports the reset): the tunnel just ends. -/
def resetErr (ex : Exchange) (op : NetOp) : Option ErrKind :=
  if ex.kind == .connect && !ex.viaUpstream && op != .dial then none
  else if viaTransportProxy ex && (ex.upstreamTLS || op == .dial) then some (.opChain .proxyconnect [op] false)
  else some (.opError op false)

/-- a CONNECT to the upstream proxy precedes the exchange -/
def usesConnect (ex : Exchange) : Bool := ex.viaUpstream && ex.kind != .plain

inductive CloseKind where
  | fin | rst
  deriving DecidableEq, Repr

/-- what the client reads on its connection for one exchange -/
inductive ClientObs where
  /-- one complete response built by `errorResponse` -/
  | errorResponse (id status : Nat) (label : String) (keepAlive : Bool)
  /-- the upstream proxy's own reply to CONNECT; `wellFormed = false`: a status line whose protocol
      version is not HTTP/1.0 or HTTP/1.1 (never produced by `clientStream`; it is what a client saw
      before the repair of F12: `HTTP/0.0 …`, and `cleanOutcome` rejects it) -/
  | relayedRejection (id status : Nat) (wellFormed keepAlive : Bool)
  /-- the origin's complete response -/
  | complete (id : Nat) (framing : Framing) (bodyBytes : Nat) (keepAlive : Bool)
  /-- `HTTP/1.1 200 OK` and a tunnel -/
  | tunnel (id : Nat)
  /-- complete head, `bodyBytes` payload bytes (`terminated`: the last chunk was written), then the
      connection is closed -/
  | prefixThenClose (id : Nat) (framing : Framing) (bodyBytes : Nat) (terminated : Bool) (close : CloseKind)
  /-- nothing, the connection is closed -/
  | cleanClose
  deriving DecidableEq, Repr

/-- the response for an error of kind `k` on exchange `ex` -/
def errorObs (ex : Exchange) (k : ErrKind) : ClientObs :=
  match errorWritten k with
  | .relay s =>
    -- `res.Request` is the client's request: its protocol version, `Close` as the client asked;
    -- `OnProxyConnectResponse` gives the response a known length, so nothing else forces a close
    .relayedRejection ex.id s true (!ex.reqClose)
  | .generated s l => .errorResponse ex.id s l (!ex.reqClose)

/-- framing of the relayed body on the client connection: an HTTP/1.0 client cannot parse a chunked
    body, `writeResponse` falls back to a close-delimited one for it -/
def relayFraming (ex : Exchange) : Framing :=
  match ex.framing with
  | .chunked => if ex.clientMinor == 0 then .eof else .chunked
  | f => f

/-- the exchange without a fault -/
def okObs (ex : Exchange) : ClientObs :=
  match ex.kind with
  | .connect => .tunnel ex.id
  | _ =>
    match ex.framing with
    | .cl n => .complete ex.id (.cl n) n (!ex.reqClose)
    | .chunked =>
      if ex.clientMinor == 0 then .complete ex.id .eof ex.bodyLen false
      else .complete ex.id .chunked ex.bodyLen (!ex.reqClose)
    | .eof => .complete ex.id .eof ex.bodyLen false

/-- The error a fault raises before the reply head is complete, when the exchange passes the fault
    point at all: TLS only where the proxy's transport does TLS, a CONNECT reply only where a CONNECT
    to an upstream proxy precedes the exchange, reply bytes only where the proxy reads a reply
    (not inside a tunnelled CONNECT).  A client CONNECT that the upstream rejects is no error:
    `connectHTTP` hands the upstream's response on. -/
def faultErr (f : Fault) (ex : Exchange) : Option ErrKind :=
  match f with
  | .none => none
  | .dialRefused => some (dialErr ex false)
  | .dialTimeout => some (dialErr ex true)
  | .dialReset op => resetErr ex op
  | .tls t => if usesTLS ex then some t.errKind else none
  | .connectReply r =>
    if usesConnect ex then
      match r with
      | .rejected s _ => if ex.kind == .connect then none else some (.connectRejected s)
      -- `OnProxyConnectResponse` cannot read the body, relays the status with an empty one
      | .rejectedCut s _ _ => if ex.kind == .connect then none else some (.connectRejected s)
      | .cut k reset surfaces eof => some (cutErr k reset surfaces eof)
      | .malformed => some .malformedResponse
      | .timeout => some (if ex.kind == .connect then .ctxDeadline else .other)
    else none
  | .headCut k reset surfaces eof => if ex.kind == .connect then none else some (cutErr k reset surfaces eof)
  | .headMalformed => if ex.kind == .connect then none else some .malformedResponse
  | .bodyCut _ _ _ => none

/-- a fault after the head was relayed: `k` payload bytes reached the proxy, then the read failed -/
def bodyCutObs (ex : Exchange) (k : Nat) (reset : Bool) (lost : Nat) : ClientObs :=
  let delivered := k - lost
  match ex.framing with
  | .cl n => .prefixThenClose ex.id (.cl n) delivered false .fin
  | .chunked =>
    if ex.clientMinor == 0 then
      -- relayed close-delimited to an HTTP/1.0 client: the torn body ends with a plain FIN (F37);
      -- when every payload byte made it, only the terminating chunk is missing, which this framing lacks
      if delivered == ex.bodyLen then .complete ex.id .eof ex.bodyLen false
      else .prefixThenClose ex.id .eof delivered false .fin
    else .prefixThenClose ex.id .chunked delivered false .fin
  | .eof =>
    -- a FIN is how such a body ends; after a reset the proxy knows better and still FIN-closes (F13)
    if reset then .prefixThenClose ex.id .eof delivered false .fin
    else .complete ex.id .eof k false

/-- `clientStream`: what the client reads when fault `f` hits exchange `ex`.  A fault at a point the
    exchange does not pass leaves the exchange alone. -/
def clientStream (f : Fault) (ex : Exchange) : ClientObs :=
  match faultErr f ex with
  | some k => errorObs ex k
  | none =>
    match f with
    | .connectReply (.rejected s framed) =>
      -- `connectHTTP` gives the upstream's response to `writeResponse` with the client's request
      if usesConnect ex && ex.kind == .connect then .relayedRejection ex.id s true (framed && !ex.reqClose)
      else okObs ex
    | .connectReply (.rejectedCut _ n k) =>
      -- the relayed body is copied while it is written: a prefix, then the close
      if usesConnect ex && ex.kind == .connect then .prefixThenClose ex.id (.cl n) k false .fin
      else okObs ex
    | .bodyCut k reset lost => if ex.kind == .connect then okObs ex else bodyCutObs ex k reset lost
    | _ => okObs ex

/-- the error kinds an upstream fault can produce (everything but the proxy's own refusals and the
    CONNECT relay) -/
def upstreamKind : ErrKind → Bool
  | .martianStatus _ | .proxyAuth | .denied | .prohibited | .connectRejected _ | .statusTextError _ _ => false
  | _ => true

/-- the exchange passes through a transport-level CONNECT that the upstream rejects (the class of
    the repaired F12): the rejection is relayed by `writeErrorResponse` -/
def transportConnectRejection (f : Fault) (ex : Exchange) : Bool :=
  match f with
  | .connectReply (.rejected _ _) => usesConnect ex && ex.kind != .connect
  | .connectReply (.rejectedCut _ _ _) => usesConnect ex && ex.kind != .connect
  | _ => false

/-- the status with which the upstream proxy rejects a CONNECT, if the fault is such a rejection -/
def Fault.rejectionStatus : Fault → Option Nat
  | .connectReply (.rejected s _) => some s
  | .connectReply (.rejectedCut s _ _) => some s
  | _ => Option.none

/-- the fault point lies inside the reply of this exchange -/
def Fault.wf (f : Fault) (ex : Exchange) : Bool :=
  (match ex.framing with | .cl n => n == ex.bodyLen | _ => true) &&
  match f with
  | .headCut k _ _ _ => k < ex.headLen
  | .connectReply (.rejectedCut _ n k) => k < n
  | .bodyCut k _ lost =>
    lost ≤ k && (match ex.framing with
      | .chunked => k ≤ ex.bodyLen       -- all payload but no terminating chunk is still a cut
      | _ => k < ex.bodyLen)
  | _ => true

/-- the verdict of a conforming HTTP/1 parser on the bytes up to the close: is this one complete message? -/
def ClientObs.parsesComplete : ClientObs → Bool
  | .errorResponse .. => true
  | .relayedRejection .. => true
  | .complete .. => true
  | .tunnel _ => true
  | .prefixThenClose _ fr b term _ =>
    match fr with
    | .cl n => b == n
    | .chunked => term
    | .eof => true
  | .cleanClose => false

/-- fewer payload bytes than the origin's message has -/
def ClientObs.truncated (ex : Exchange) : ClientObs → Bool
  | .prefixThenClose _ _ b _ _ => b < ex.bodyLen
  | .complete _ _ b _ => b < ex.bodyLen
  | _ => false

def ClientObs.id? : ClientObs → Option Nat
  | .errorResponse id .. => some id
  | .relayedRejection id .. => some id
  | .complete id .. => some id
  | .tunnel id => some id
  | .prefixThenClose id .. => some id
  | .cleanClose => none

/-- the connection is usable for another exchange afterwards -/
def ClientObs.keepsAlive : ClientObs → Bool
  | .errorResponse _ _ _ ka => ka
  | .relayedRejection _ _ _ ka => ka
  | .complete _ _ _ ka => ka
  | _ => false

/-- decidable form of the property's conclusion for one exchange (used by `holds`):
    a complete error response (5xx, or the status the classification gives), the upstream's own
    rejection, the origin's complete response, or a prefix that no parser takes for a whole message;
    in every case bytes of this exchange only. -/
def cleanOutcome (ex : Exchange) (o : ClientObs) : Bool :=
  (match o.id? with | some i => i == ex.id | none => true) &&
  match o with
  | .errorResponse _ st _ _ => 400 ≤ st && st < 600
  | .relayedRejection _ st wf _ => wf && 300 ≤ st && st < 600
  | .complete _ _ _ _ => !o.truncated ex
  | .tunnel _ => ex.kind == .connect
  | .prefixThenClose .. => !o.parsesComplete
  | .cleanClose => true

/-! ### several exchanges on one client connection -/

/-- the observations of a connection: exchange after exchange until one ends the connection -/
def connStream : List (Fault × Exchange) → List ClientObs
  | [] => []
  | (f, ex) :: rest =>
    let o := clientStream f ex
    if o.keepsAlive then o :: connStream rest else [o]

/-! ## §5 `handleLoop` -/

/-- what `pc.handle()` returned -/
inductive HandleResult where
  | ok          -- nil: a response (also an error response) was written and the connection is kept
  | closing     -- errClose, or an error for which `isCloseable` holds
  | other       -- any other error
  deriving DecidableEq, Repr

def maxConsecutiveErrors : Nat := 5

structure LoopState where
  errorsN : Nat := 0
  closed : Bool := false
  deriving DecidableEq, Repr

def loopStep (s : LoopState) (r : HandleResult) : LoopState :=
  if s.closed then s else
  match r with
  | .ok => { errorsN := 0, closed := false }
  | .closing => { s with closed := true }
  | .other =>
    let n := s.errorsN + 1
    { errorsN := n, closed := n ≥ maxConsecutiveErrors }

def runLoop (s : LoopState) (rs : List HandleResult) : LoopState := rs.foldl loopStep s

/-- how many results are consumed before the connection is closed (`none`: still open) -/
def closedAt (rs : List HandleResult) : Option Nat :=
  let rec go (s : LoopState) (i : Nat) : List HandleResult → Option Nat
    | [] => none
    | r :: rest =>
      let s' := loopStep s r
      if s'.closed then some (i + 1) else go s' (i + 1) rest
  go {} 0 rs

/-- what `handle()` returns after an HTTP/1 exchange, read off the client's observation: whenever a
    response was written completely and the connection is kept, `nil`; in every other case `errClose`.
    No HTTP/1 path returns any other error (`writeErrorResponse` returns `writeResponse`'s result). -/
def resultOf (o : ClientObs) : HandleResult :=
  if o.keepsAlive then .ok else .closing

/-- errors `H2Config().Proxy` can hand back from `handleMITM` — the only non-`errClose` errors of `handle` -/
inductive H2Err where
  | dialFailed          -- *net.OpError, not a time-out: `isCloseable`
  | dialTimeout         -- net.Error with Timeout(): not closeable
  | tlsFailed           -- message contains "tls:": closeable
  | eof                 -- io.EOF / io.ErrUnexpectedEOF while reading the preface: closeable
  | badPreface          -- "client sent unexpected preface": not closeable
  deriving DecidableEq, Repr

/-- `errors.Is(err, errClose) || isCloseable(err)` -/
def h2Result : H2Err → HandleResult
  | .dialFailed => .closing
  | .dialTimeout => .other
  | .tlsFailed => .closing
  | .eof => .closing
  | .badPreface => .other

/-! ## §6 `writeResponse`: which writer, and whether it touches the body

  `proxyConn.writeResponse` ends in a switch that picks one of five writers (proxy_conn.go; the
  hijacked HTTP/1 tunnel of handler mode has the same order):

      case req.Method == CONNECT && res.StatusCode/100 == 2:  writeConnectOKResponse   (a literal)
      case isHeaderOnlySpec(res):                             writeHeaderOnlyResponse  (status line + map)
      default: switch {
        case isTextEventStream(res):   res.Write(patternFlushWriter "\n\n")
        case shouldChunk(res):         res.Write(patternFlushWriter "\r\n")
        default:                       res.Write(p.brw) }

  `http.Response.Write` looks at the body (`ContentLength == 0 && Body != nil` ⇒ it reads one byte to
  find out; otherwise it copies it); the first two writers never touch it.  `handleUpgradeResponse`
  relies on that: it replaces the body of a 101 response by `panicBody`, a reader that panics on
  `Read`, before calling `tunnel` → `writeResponse`.  The writer is chosen from fields an upstream
  controls (status, `Content-Type`, framing), so the order of the cases is what keeps an upstream from
  reaching the sentinel: `c12_header_only_body_never_read`, `c12_upstream_reply_never_panics`. -/

inductive Writer where
  | connectOK     -- `writeConnectOKResponse`: the literal `HTTP/1.1 200 OK CRLF CRLF`
  | headerOnly    -- `writeHeaderOnlyResponse`: status line, the header map, the blank line
  | sseFlush      -- `res.Write` into the pattern flush writer, pattern LF LF
  | chunkFlush    -- `res.Write` into the pattern flush writer, pattern CR LF
  | plain         -- `res.Write` into the buffered writer
  deriving DecidableEq, Repr

/-- does the writer call `Read` on `res.Body`? (`http.Response.Write` does: it probes a body of
    declared length 0 and copies any other) -/
def Writer.readsBody : Writer → Bool
  | .connectOK => false
  | .headerOnly => false
  | .sseFlush => true
  | .chunkFlush => true
  | .plain => true

/-- what `writeResponse` looks at besides the request method, the status and the header map -/
structure ResFacts where
  protoMajor : Nat := 1
  protoMinor : Nat := 1
  contentLength : Int := 0        -- `res.ContentLength` (-1 = unknown)
  /-- `mime.ParseMediaType` returns an empty media type although the part before the first `;` is fine:
      two parameters of the same name with different values (the parameter grammar itself is not modelled) -/
  ctParamsConflict : Bool := false
  deriving DecidableEq, Repr

def methodConnect : Bytes := bs "CONNECT"
def sseType : Bytes := bs "text/event-stream"

/-- the part of a media type before the first `;`, lower-cased and trimmed (`mime.ParseMediaType`) -/
def mediaBase (v : Bytes) : Bytes := Req.trimSpace (lower (v.takeWhile (· != 59)))

/-- `isTextEventStream`: `mime.ParseMediaType(res.Header.Get("Content-Type"))` has the base type
    `text/event-stream` — whatever its case, whatever parameters follow.  (A malformed parameter list
    still yields the base type; only conflicting duplicates void it.) -/
def isTextEventStream (h : HMap) (r : ResFacts) : Bool :=
  mediaBase (goGet h (bs "Content-Type")) == sseType && !r.ctParamsConflict

/-- `isHeaderOnlySpec` = `Resp.headerOnly`: HEAD, 1xx, 204, 304 -/
def isHeaderOnlySpec (method : Bytes) (status : Nat) : Bool := Resp.headerOnly method status

/-- `shouldChunk` -/
def shouldChunk (method : Bytes) (status : Nat) (r : ResFacts) : Bool :=
  r.protoMajor == 1 && r.protoMinor == 1 && r.contentLength == -1 && !isHeaderOnlySpec method status

/-- the writer selection of `writeResponse`, in code order: total in (method, status, header, facts) -/
def selectWriter (method : Bytes) (status : Nat) (h : HMap) (r : ResFacts) : Writer :=
  if method == methodConnect && status / 100 == 2 then .connectOK
  else if isHeaderOnlySpec method status then .headerOnly
  else if isTextEventStream h r then .sseFlush
  else if shouldChunk method status r then .chunkFlush
  else .plain

/-- The same five cases flattened into one switch with the event-stream case ahead of the
    header-only case (the edit of seed c12-1): every case still "looks right" alone. -/
def selectWriterSSEFirst (method : Bytes) (status : Nat) (h : HMap) (r : ResFacts) : Writer :=
  if method == methodConnect && status / 100 == 2 then .connectOK
  else if isTextEventStream h r then .sseFlush
  else if isHeaderOnlySpec method status then .headerOnly
  else if shouldChunk method status r then .chunkFlush
  else .plain

abbrev Selector := Bytes → Nat → HMap → ResFacts → Writer

/-- what `res.Body` is when `writeResponse` runs -/
inductive BodyAtWrite where
  | upstream        -- the transport's body reader (bytes of the upstream connection)
  | noBody          -- `http.NoBody`
  | panicSentinel   -- `panicBody`: `Read` panics
  deriving DecidableEq, Repr

/-- what becomes of an upstream reply that the transport accepted -/
inductive Relayed where
  | wrote (w : Writer) (tunnelFollows : Bool)
  /-- `writeErrorResponse`: the reply is not passed on, the client gets a generated error response -/
  | answeredError (status : Nat) (label : String)
  | closedWithoutResponse     -- `errClose` before a byte was written (no path of `handle` from an accepted reply on does that)
  | panicked                  -- `panic("unexpected read")` in the connection's goroutine: the process dies
  deriving DecidableEq, Repr

/-- `http.Transport`: the body of a 101 reply is the connection itself (writable) exactly when the
    reply is a protocol switch: `Upgrade` non-empty and `Connection` has the token `upgrade` -/
def protocolSwitch (status : Nat) (h : HMap) : Bool :=
  status == 101 && !(Req.upgradeType h).isEmpty

/-- `errNoProtocolSwitch`: the `ErrorStatus{…, 502}` with which `handleUpgradeResponse` answers a `101`
    reply that is no protocol switch -/
def noProtocolSwitchErr : ErrKind := .martianStatus 502

/-- `roundTrip` + `handle`: the body with which `writeResponse` is entered for the upstream's reply
    (`none`: it is not entered for it).
    * a header-only response other than 101 has its body replaced by `NoBody` (`roundTrip`);
    * 101: `handleUpgradeResponse` — a body that is not writable (the reply is no protocol switch) is
      answered with the error response of `errNoProtocolSwitch`, a writable one is replaced by `panicBody`. -/
def bodyAtWrite (method : Bytes) (status : Nat) (h : HMap) : Option BodyAtWrite :=
  if status == 101 then
    if protocolSwitch status h then some .panicSentinel else none
  else if isHeaderOnlySpec method status then some .noBody
  else some .upstream

/-- `handle` from the accepted reply on, with the writer selection `sel` -/
def relayWith (sel : Selector) (method : Bytes) (status : Nat) (h : HMap) (r : ResFacts) : Relayed :=
  match bodyAtWrite method status h with
  | none => .answeredError (classify noProtocolSwitchErr).1 (classify noProtocolSwitchErr).2
  | some b =>
    let w := sel method status h r
    if w.readsBody && b == .panicSentinel then .panicked
    else .wrote w (status == 101)

/-- the code as it is -/
def relay (method : Bytes) (status : Nat) (h : HMap) (r : ResFacts) : Relayed :=
  relayWith selectWriter method status h r

/-- `handleConnectRequest` from the upstream proxy's reply to the CONNECT on (`dialvia` read it with
    `http.ReadResponse`: the body is an ordinary reader, never the sentinel): 2xx ⇒ the literal and a
    tunnel, anything else is written as the answer to the CONNECT -/
def relayConnectWith (sel : Selector) (status : Nat) (h : HMap) (r : ResFacts) : Relayed :=
  .wrote (sel methodConnect status h r) (status / 100 == 2)

def relayConnect (status : Nat) (h : HMap) (r : ResFacts) : Relayed :=
  relayConnectWith selectWriter status h r

/-! ## §7 the dialer's metric label (`net_metrics.go`: `addr2Host`)

  `forwarder.Dialer` counts every dial, error, retry and close under the label `host = addr2Host(address)`
  (`dialer_errors_total{host=…}` …).  The address is what the client named (CONNECT authority, absolute-form
  URL, `Host` field), after `--connect-to`.  prometheus' `WithLabelValues` panics on a value that is not
  valid UTF-8 — inside `Dialer.DialContext`, on goroutines nobody recovers: the label function is what
  stands between a hostile host name and the death of the process (F35, repaired). -/

/-- `UTF8-tail` of RFC 3629 §4 -/
def tailByte (b : UInt8) : Bool := 0x80 ≤ b && b ≤ 0xBF

/-- `UTF8-char` of RFC 3629 §4 — the well-formed encodings of one Unicode scalar value (no overlong
    forms, no surrogates, nothing above U+10FFFF); the same table as `unicode/utf8`'s `first` /
    `acceptRanges` -/
def utf8Char : Bytes → Bool
  | [a] => a ≤ 0x7F
  | [a, b] => 0xC2 ≤ a && a ≤ 0xDF && tailByte b
  | [a, b, c] =>
    ((a == 0xE0 && 0xA0 ≤ b && b ≤ 0xBF) || (0xE1 ≤ a && a ≤ 0xEC && tailByte b) ||
      (a == 0xED && 0x80 ≤ b && b ≤ 0x9F) || (0xEE ≤ a && a ≤ 0xEF && tailByte b)) && tailByte c
  | [a, b, c, d] =>
    ((a == 0xF0 && 0x90 ≤ b && b ≤ 0xBF) || (0xF1 ≤ a && a ≤ 0xF3 && tailByte b) ||
      (a == 0xF4 && 0x80 ≤ b && b ≤ 0x8F)) && tailByte c && tailByte d
  | _ => false

/-- valid UTF-8 (RFC 3629 `UTF8-octets = *( UTF8-char )`): the bytes decode as a sequence of well-formed
    scalar encodings -/
def ValidUTF8 (l : Bytes) : Prop := ∃ cs : List Bytes, (∀ c ∈ cs, utf8Char c = true) ∧ l = cs.flatten

/-- the length of the encoding a lead byte announces -/
def leadLen (a : UInt8) : Nat := if a < 0x80 then 1 else if a < 0xE0 then 2 else if a < 0xF0 then 3 else 4

def validUTF8Aux : Nat → Bytes → Bool
  | _, [] => true
  | 0, _ :: _ => false
  | fuel + 1, a :: rest =>
    utf8Char ((a :: rest).take (leadLen a)) && validUTF8Aux fuel ((a :: rest).drop (leadLen a))

/-- `utf8.ValidString`: decode encoding after encoding from the front (`c12_validUTF8_iff`: it decides
    `ValidUTF8`) -/
def validUTF8 (l : Bytes) : Bool := validUTF8Aux l.length l

def commonLocalhostNames : List Bytes := [bs "localhost", bs "127.0.0.1", bs "::1", bs "::"]

/-- `addr2Host`, as it is: the host of the address; the fixed names for an address that does not split, for
    localhost in its spellings and for a host that is not valid UTF-8.  There is no length bound. -/
def addr2Host (addr : Bytes) : Bytes :=
  match Req.netSplitHostPort addr with
  | none => bs "unknown"
  | some (host, _) =>
    if commonLocalhostNames.contains host then bs "localhost"
    else if Req.isLoopbackLiteral host || Req.isUnspecifiedLiteral host then bs "localhost"
    else if !validUTF8 host then bs "invalid"
    else host

/-! ### NOT the code: bounding the label.  A step behind the validity check has to keep what the check
    established; cutting at a byte offset does not (`c12_label_byte_truncation_witness`), cutting at an
    encoding boundary does (`c12_label_rune_truncation_valid`). -/

/-- `host[:n]` -/
def truncBytes (n : Nat) (l : Bytes) : Bytes := l.take n

def truncRunesAux : Nat → Nat → Bytes → Bytes
  | _, _, [] => []
  | 0, _, _ :: _ => []
  | fuel + 1, n, a :: rest =>
    if leadLen a ≤ n then
      (a :: rest).take (leadLen a) ++ truncRunesAux fuel (n - leadLen a) ((a :: rest).drop (leadLen a))
    else []

/-- the longest prefix of whole encodings that fits into `n` bytes -/
def truncRunes (n : Nat) (l : Bytes) : Bytes := truncRunesAux l.length n l

/-- the label function followed by a bounding step -/
def boundedLabel (cut : Bytes → Bytes) (addr : Bytes) : Bytes := cut (addr2Host addr)

/-! ## §8 the proxy served through martian's `http.Handler` (`proxy_handler.go`, under net/http's server)

  `proxyHandler.writeResponse` copies the upstream body into the `http.ResponseWriter`; the server frames it
  (`Content-Length` when the upstream declared one, chunked otherwise, close-delimited for an HTTP/1.0
  client).  When the copy fails the handler must `panic(http.ErrAbortHandler)`: net/http then drops the
  connection without finishing the message.  A handler that RETURNS lets the server finish it: the
  terminating chunk is appended and the connection is kept — a torn body becomes a well-formed message. -/

/-- what ends the body copy early -/
inductive CopyErr where
  | upstreamEOF         -- the origin closed inside the body: `io.ErrUnexpectedEOF`
  | upstreamReset       -- the origin reset the connection: `ECONNRESET`
  | upstreamMalformed   -- e.g. an invalid chunk size: none of the errors `isClosedConnError` knows
  | clientGone          -- the write to the client failed
  deriving DecidableEq, Repr

/-- `isClosedConnError(err)`: EOF, unexpected EOF, ECONNRESET / ECONNABORTED, "use of closed network
    connection" — whichever side of the copy reports them -/
def CopyErr.closedConnLike : CopyErr → Bool
  | .upstreamMalformed => false
  | _ => true

inductive HandlerEnd where
  | abort      -- `panic(http.ErrAbortHandler)`
  | returns    -- the handler returns normally
  deriving DecidableEq, Repr

/-- what `writeResponse` does with the error of the body copy -/
abbrev CopyPolicy := CopyErr → HandlerEnd

/-- the code as it is: every error aborts -/
def abortAlways : CopyPolicy := fun _ => .abort

/-- NOT the code: "the client went away, nobody is left to abort the response for" -/
def returnOnClosedConn : CopyPolicy := fun e => if e.closedConnLike then .returns else .abort

/-- framing net/http's server gives the response on the client connection -/
def handlerFraming (ex : Exchange) : Framing :=
  match ex.framing with
  | .cl n => .cl n
  | _ => if ex.clientMinor == 0 then .eof else .chunked

/-- the connection is kept after a complete response -/
def handlerKeeps (ex : Exchange) : Bool := !ex.reqClose && ex.clientMinor != 0

/-- the exchange without a fault; a close-delimited origin body that the origin ends after `n` bytes -/
def handlerComplete (ex : Exchange) (n : Nat) : ClientObs :=
  match handlerFraming ex with
  | .eof => .complete ex.id .eof n false
  | fr => .complete ex.id fr n (handlerKeeps ex)

def handlerOk (ex : Exchange) : ClientObs :=
  match ex.kind with
  | .connect => .tunnel ex.id
  | _ => handlerComplete ex ex.bodyLen

/-- net/http's server after the handler is through with a body of which `delivered` bytes were written -/
def serverEnd (ex : Exchange) (delivered : Nat) : HandlerEnd → ClientObs
  | .abort =>
    -- the connection is closed, nothing is appended
    match handlerFraming ex with
    | .eof =>
      -- an HTTP/1.0 client: the close is also how a complete body ends (F37 / F13 in this mode)
      if ex.framing == .chunked && delivered == ex.bodyLen then .complete ex.id .eof ex.bodyLen false
      else .prefixThenClose ex.id .eof delivered false .fin
    | fr => .prefixThenClose ex.id fr delivered false .fin
  | .returns =>
    -- the server completes the message
    match handlerFraming ex with
    | .cl n =>
      -- "wrote less than declared Content-Length": the connection is closed
      if delivered == n then .complete ex.id (.cl n) n (handlerKeeps ex)
      else .prefixThenClose ex.id (.cl n) delivered false .fin
    | .chunked => .complete ex.id .chunked delivered (handlerKeeps ex)   -- last-chunk appended, connection kept
    | .eof => .complete ex.id .eof delivered false

/-- the error of the copy when the origin's body ends after `k` payload bytes (`none`: the end of a
    close-delimited body is its regular end) -/
def copyErrOf (ex : Exchange) (reset : Bool) : Option CopyErr :=
  if reset then some .upstreamReset
  else if ex.framing == .eof then none else some .upstreamEOF

def handlerBodyCutWith (p : CopyPolicy) (ex : Exchange) (k : Nat) (reset : Bool) (lost : Nat) : ClientObs :=
  match copyErrOf ex reset with
  | none => handlerComplete ex k
  | some e => serverEnd ex (k - lost) (p e)

/-- `clientStream` for the handler variant with the copy policy `p`: faults before the reply head is
    complete are answered by the same `errorResponse` -/
def handlerStreamWith (p : CopyPolicy) (f : Fault) (ex : Exchange) : ClientObs :=
  match faultErr f ex with
  | some k =>
    match errorObs ex k with
    | .errorResponse id st l _ => .errorResponse id st l (handlerKeeps ex)
    | .relayedRejection id st wf _ => .relayedRejection id st wf (handlerKeeps ex)
    | o => o
  | none =>
    match f with
    | .connectReply (.rejected s _) =>
      -- `handleConnectRequest` hands the upstream proxy's response to `writeResponse`; a reply without
      -- Content-Length is read to its end and goes out chunked: the client connection is kept either way
      if usesConnect ex && ex.kind == .connect then .relayedRejection ex.id s true (handlerKeeps ex)
      else handlerOk ex
    | .connectReply (.rejectedCut _ n k) =>
      -- its body is copied like any other: the copy fails, the policy decides (Content-Length framing:
      -- the server's accounting closes the connection either way)
      if usesConnect ex && ex.kind == .connect then .prefixThenClose ex.id (.cl n) k false .fin
      else handlerOk ex
    | .bodyCut k reset lost => if ex.kind == .connect then handlerOk ex else handlerBodyCutWith p ex k reset lost
    | _ => handlerOk ex

/-- the code as it is -/
def handlerStream (f : Fault) (ex : Exchange) : ClientObs := handlerStreamWith abortAlways f ex

/-! ### the same at the level of bytes: what follows the response head on the client connection -/

/-- the body bytes the server writes for the pieces the copy handed it (one chunk per flushed write under
    chunked framing), and how it ends: the last-chunk only when the handler returned -/
def handlerBodyWire (fr : Framing) (pieces : List Bytes) (e : HandlerEnd) : Bytes :=
  match fr with
  | .chunked => pieces.flatMap Resp.encodeChunk ++ (match e with | .returns => 48 :: Resp.crlf ++ Resp.crlf | .abort => [])
  | _ => pieces.flatten

/-- does a reader (the RFC 7230 reader of `Model/RespSpec.lean`) take the bytes between the head and the
    close for a complete body? -/
def bodyParsesComplete (fr : Framing) (wire : Bytes) : Bool :=
  match fr with
  | .cl n => n ≤ wire.length
  | .chunked => (Resp.decodeChunked wire).isSome
  | .eof => true

/-! ## §9 the accept loop (`Proxy.Serve`; net/http's `Server.Serve` in the handler variant)

  `Serve` calls `l.Accept()` for ever.  On an error it asks `errors.As(err, &net.Error) && nerr.Temporary()`:
  if so it sleeps (5 ms, doubled per consecutive error, capped at 1 s; an accepted connection resets the delay)
  and calls `Accept` again; otherwise it returns — and its deferred `l.Close()` closes the listening socket,
  while the process lives on (`HTTPProxy.run` waits for its context): every later client is refused. -/

/-- what the loop can ask of an error `Accept` returned -/
structure AcceptShape where
  netError : Bool    -- `errors.As(err, &net.Error)`
  temporary : Bool   -- `nerr.Temporary()`
  timeout : Bool     -- `nerr.Timeout()`
  closed : Bool      -- `errors.Is(err, net.ErrClosed)`
  deriving DecidableEq, Repr

/-- the errors `Accept` returns, as the net package builds them (`*net.OpError{Op: "accept"}` around …) -/
inductive AcceptErr where
  | emfile         -- `os.SyscallError{"accept4", EMFILE}`: the process is out of descriptors
  | enfile         -- … ENFILE: the system is
  | eintr          -- … EINTR
  | econnaborted   -- the bare errno (`OpError.Temporary`: "ECONNRESET and ECONNABORTED … from calling accept")
  | econnreset
  | deadline       -- `os.ErrDeadlineExceeded`: a deadline set on the listener passed
  | etimedout      -- `os.SyscallError{…, ETIMEDOUT}`
  | closed         -- `net.ErrClosed`: the listener was closed
  | einval         -- `os.SyscallError{…, EINVAL}`: an errno that is not temporary
  | plain          -- an error that is no `net.Error` at all
  deriving DecidableEq, Repr

/-- THE TABLE: `syscall.Errno.Temporary` is `EINTR || EMFILE || ENFILE || Timeout()`, `Timeout` is
    `EAGAIN || EWOULDBLOCK || ETIMEDOUT`; `OpError.Temporary` adds ECONNRESET / ECONNABORTED from accept -/
def AcceptErr.shape : AcceptErr → AcceptShape
  | .emfile | .enfile | .eintr => { netError := true, temporary := true, timeout := false, closed := false }
  | .econnaborted | .econnreset => { netError := true, temporary := true, timeout := false, closed := false }
  | .deadline | .etimedout => { netError := true, temporary := true, timeout := true, closed := false }
  | .closed => { netError := true, temporary := false, timeout := false, closed := true }
  | .einval => { netError := true, temporary := false, timeout := false, closed := false }
  | .plain => { netError := false, temporary := false, timeout := false, closed := false }

/-- the PROPERTY's notion (not the code's): the condition passes by itself — descriptors are released, the
    next connection is not aborted, the call is not interrupted again — so the proxy has to go on accepting -/
def AcceptErr.passes : AcceptErr → Bool
  | .closed | .einval | .plain => false
  | _ => true

inductive LoopAction where
  | retry (delayMs : Nat)   -- sleep, call `Accept` again
  | ret                     -- `Serve` returns; the deferred `l.Close()` closes the listener
  deriving DecidableEq, Repr

/-- which errors the loop retries -/
abbrev RetryPred := AcceptShape → Bool

/-- the code as it is -/
def retryTemporary : RetryPred := fun s => s.netError && s.temporary

/-- NOT the code: "Temporary is deprecated, the errors worth retrying are time-outs" -/
def retryTimeoutOnly : RetryPred := fun s => s.netError && s.timeout

/-- the delay before the next `Accept` call, from the previous one (0 = none yet / a connection since) -/
def nextDelay (d : Nat) : Nat := if d == 0 then 5 else if d * 2 > 1000 then 1000 else d * 2

def acceptActionWith (p : RetryPred) (delay : Nat) (e : AcceptErr) : LoopAction :=
  if p e.shape then .retry (nextDelay delay) else .ret

/-- what the unchanged `Serve` does with an error of a fresh loop -/
def acceptStep (e : AcceptErr) : LoopAction := acceptActionWith retryTemporary 0 e

structure AcceptState where
  delay : Nat := 0
  returned : Bool := false   -- `Serve` has returned: the listener is closed
  served : Nat := 0          -- connections handed to `handleLoop`
  deriving DecidableEq, Repr

/-- what happens at the listener: a client connects, or `Accept` fails -/
inductive AcceptEv where
  | conn
  | err (e : AcceptErr)
  deriving DecidableEq, Repr

inductive AcceptOut where
  | served                    -- the connection is accepted and served
  | refused                   -- nobody listens any more
  | action (a : LoopAction)
  | unseen                    -- no loop is left to see the error
  deriving DecidableEq, Repr

def acceptStepWith (p : RetryPred) (st : AcceptState) (ev : AcceptEv) : AcceptState × AcceptOut :=
  if st.returned then (st, match ev with | .conn => .refused | .err _ => .unseen)
  else
    match ev with
    | .conn => ({ st with delay := 0, served := st.served + 1 }, .served)
    | .err e =>
      match acceptActionWith p st.delay e with
      | .retry d => ({ st with delay := d }, .action (.retry d))
      | .ret => ({ st with returned := true }, .action .ret)

def acceptRunWith (p : RetryPred) : AcceptState → List AcceptEv → AcceptState × List AcceptOut
  | st, [] => (st, [])
  | st, ev :: evs =>
    let (st1, o) := acceptStepWith p st ev
    let (st2, os) := acceptRunWith p st1 evs
    (st2, o :: os)

/-- the code as it is -/
def acceptRun (st : AcceptState) (evs : List AcceptEv) : AcceptState × List AcceptOut :=
  acceptRunWith retryTemporary st evs

/-! ## §10 the HTTP log mode (`httplog`, `--log-http`): a wrapper around the relayed body

  The logger is a response modifier (`middlewareStack`: `fg.AddResponseModifier(lf)`).  The modes `none`,
  `short-url`, `url`, `headers`, `errors` never touch a body.  Mode `body` (`structuredLogBuilder.WithBody`)
  reads the response body to its end with `io.ReadAll`; when that succeeds it puts
  `io.NopCloser(bytes.NewReader(data))` in its place, when it fails it records `body_error` and LEAVES THE
  FAILED BODY IN PLACE — a body that was read to its error returns that error again (`bodyEOFSignal.rerr`,
  `chunkedReader.err`), so `writeResponse` still sees it.  (The request body is read by the same modifier,
  i.e. after the round trip: it has no part in what is forwarded.) -/

/-- how a body stream ends: regularly (`io.EOF`), or with a read error (the peer closed or reset inside it) -/
inductive BodyEnd where
  | clean | err
  deriving DecidableEq, Repr

/-- a message body as a reader yields it: the non-empty reads, and the terminal condition -/
structure BodyStream where
  pieces : List Bytes
  ending : BodyEnd
  deriving DecidableEq, Repr

def BodyStream.bytes (b : BodyStream) : Bytes := b.pieces.flatten

inductive LogMode where
  | none | shortURL | url | headers | body | errors
  deriving DecidableEq, Repr

/-- one read yields everything a `bytes.Reader` holds -/
def replayPieces (data : Bytes) : List Bytes := match data with | [] => [] | d => [d]

/-- what a body-logging step leaves in place of the body it read -/
abbrev Snapshot := BodyStream → BodyStream

/-- the code as it is: the data is replayed only when the read succeeded; a failed body stays, consumed,
    and yields its error again -/
def snapshotKeepErr : Snapshot := fun b =>
  match b.ending with
  | .clean => { pieces := replayPieces b.bytes, ending := .clean }
  | .err => { pieces := [], ending := .err }

/-- NOT the code: "keep the data read before an error so that a message that broke off still shows up in
    the log" — always `io.NopCloser(bytes.NewReader(data))`: the error is logged and gone -/
def snapshotDropErr : Snapshot := fun b => { pieces := replayPieces b.bytes, ending := .clean }

def wrapBodyWith (s : Snapshot) : LogMode → BodyStream → BodyStream
  | .body, b => s b
  | _, b => b

/-- the body `writeResponse` gets under log mode `m` -/
def wrapBody (m : LogMode) (b : BodyStream) : BodyStream := wrapBodyWith snapshotKeepErr m b

/-- a wrapper is transparent when it never changes how a body ends, never invents bytes, and leaves a
    body that ends regularly byte for byte as it was -/
def Transparent (w : BodyStream → BodyStream) : Prop :=
  ∀ b, (w b).ending = b.ending ∧ (∃ t, (w b).bytes ++ t = b.bytes) ∧ (b.ending = .clean → (w b).bytes = b.bytes)

/-- the writers (`writeResponse` towards the client, `http.Transport` towards the origin) finish a message
    only when its body ended regularly -/
def relayEnd : BodyEnd → HandlerEnd
  | .clean => .returns
  | .err => .abort

/-- the body bytes on the wire under framing `fr` -/
def relayBodyWire (fr : Framing) (b : BodyStream) : Bytes := handlerBodyWire fr b.pieces (relayEnd b.ending)

/-- the request body the origin receives: the logger is not in its way, whatever the mode -/
def forwardedUpload (_m : LogMode) (fr : Framing) (b : BodyStream) : Bytes := relayBodyWire fr b

/-! ### the same on exchanges -/

/-- the `k` payload bytes that reached the proxy (their values are immaterial here) -/
def tornPieces (k : Nat) : List Bytes := if k == 0 then [] else [List.replicate k 0]

/-- the reply body as the transport hands it to the modifiers when the origin stops after `k` payload
    bytes: an error, except that a FIN is the regular end of a close-delimited body -/
def originBody (ex : Exchange) (k : Nat) (reset : Bool) : BodyStream :=
  { pieces := tornPieces k, ending := if ex.framing == .eof && !reset then .clean else .err }

/-- `writeResponse` with a body that ends regularly after `n` bytes -/
def replayedObs (ex : Exchange) (n : Nat) : ClientObs :=
  match ex.framing with
  | .cl m =>
    -- `http.Response.Write` checks the length it declared
    if n == m then .complete ex.id (.cl m) m (!ex.reqClose) else .prefixThenClose ex.id (.cl m) n false .fin
  | .chunked =>
    if ex.clientMinor == 0 then .complete ex.id .eof n false else .complete ex.id .chunked n (!ex.reqClose)
  | .eof => .complete ex.id .eof n false

def loggedBodyCutWith (snap : Snapshot) (m : LogMode) (ex : Exchange) (k : Nat) (reset : Bool) (lost : Nat) : ClientObs :=
  let b := wrapBodyWith snap m (originBody ex k reset)
  match b.ending with
  | .err => bodyCutObs ex k reset (k - (b.bytes.length - lost))   -- `b.bytes.length - lost` bytes are delivered
  | .clean => replayedObs ex b.bytes.length

/-- `clientStream` with the logger in mode `m` in the response path -/
def clientStreamLoggedWith (snap : Snapshot) (m : LogMode) (f : Fault) (ex : Exchange) : ClientObs :=
  match f with
  | .bodyCut k reset lost => if ex.kind == .connect then okObs ex else loggedBodyCutWith snap m ex k reset lost
  | _ => clientStream f ex

/-- the code as it is -/
def clientStreamLogged (m : LogMode) (f : Fault) (ex : Exchange) : ClientObs :=
  clientStreamLoggedWith snapshotKeepErr m f ex

/-- what the logger makes of a fault: in mode `body` every byte of a torn body stays in the log's read -/
def loggedFault : LogMode → Fault → Fault
  | .body, .bodyCut k reset _ => .bodyCut k reset k
  | _, f => f

/-- the handler variant: the same modifier stack in front of `proxyHandler.writeResponse` -/
def handlerStreamLogged (m : LogMode) (f : Fault) (ex : Exchange) : ClientObs := handlerStream (loggedFault m f) ex

/-! ## §11 `middleware.parseBasicAuth` as Go executes it

  The proxy's basic-auth request modifier runs on martian's `handleLoop` goroutine, which has no `recover`:
  an index or slice expression out of range in the parser of a client-supplied field value ends the
  process.  `Req.parseBasicAuth` (shared with C04) says WHAT the parser returns; here the same code is
  written with Go's slice / index expressions as partial operations, so that "defined on every input" is
  a statement (and a theorem) instead of a property of the modelling language. -/

/-- outcome of Go code that may run into an index / slice expression out of range -/
inductive GoOut (α : Type) where
  | panic
  | ret (v : α)
  deriving Repr, DecidableEq

/-- `s[:n]` -/
def goSliceTo (s : Bytes) (n : Nat) : GoOut Bytes := if n ≤ s.length then .ret (s.take n) else .panic
/-- `s[n:]` -/
def goSliceFrom (s : Bytes) (n : Nat) : GoOut Bytes := if n ≤ s.length then .ret (s.drop n) else .panic
/-- `f[i]` -/
def goIndex (f : List Bytes) (i : Nat) : GoOut Bytes :=
  match f[i]? with
  | some x => .ret x
  | none => .panic

/-- what follows the scheme: `base64.StdEncoding.DecodeString`, then `strings.Cut(cs, ":")` -/
def credsOf (payload : Bytes) : Option (Bytes × Bytes) :=
  match Req.b64Decode payload with
  | none => none
  | some cs =>
    let user := cs.takeWhile (fun c => c != 58)
    if user.length == cs.length then none else some (user, cs.drop (user.length + 1))

/-- `parseBasicAuth` of middleware/basic_auth.go, expression by expression: `||` evaluates
    `auth[:len(prefix)]` only when `len(auth) < len(prefix)` is false -/
def parseBasicAuthGo (auth : Bytes) : GoOut (Option (Bytes × Bytes)) :=
  if auth.length < 6 then .ret none else
  match goSliceTo auth 6 with
  | .panic => .panic
  | .ret p =>
    if !eqFold p (bs "Basic ") then .ret none else
    match goSliceFrom auth 6 with
    | .panic => .panic
    | .ret rest => .ret (credsOf rest)

/-- `BasicAuth.AuthenticatedRequest` on the value `Header.Get` returns ("" when the field is absent) -/
def authenticatedGo (user pass v : Bytes) : GoOut Bool :=
  if v.isEmpty then .ret false else
  match parseBasicAuthGo v with
  | .panic => .panic
  | .ret none => .ret false
  | .ret (some (u, p)) => .ret (u == user && p == pass)

/-- white space of `strings.Fields` among single bytes: `\t \n \v \f \r` and space -/
def isFieldSpace (c : UInt8) : Bool := c == 9 || c == 10 || c == 11 || c == 12 || c == 13 || c == 32

def flushField (cur : Bytes) : List Bytes := if cur.isEmpty then [] else [cur.reverse]

/-- `strings.Fields` as far as the witnesses need it: split around runs of ASCII white space and of
    U+00A0 (`C2 A0`, one of the code points `unicode.IsSpace` adds to the ASCII ones); `pending` = the
    byte before was `C2` and is not yet part of a field -/
def authFieldsAcc : Bytes → Bool → Bytes → List Bytes
  | [], pending, cur => flushField (if pending then 194 :: cur else cur)
  | c :: tl, pending, cur =>
    if pending && c == 160 then flushField cur ++ authFieldsAcc tl false []
    else
      let cur := if pending then 194 :: cur else cur
      if isFieldSpace c then flushField cur ++ authFieldsAcc tl false []
      else if c == 194 then authFieldsAcc tl true cur
      else authFieldsAcc tl false (c :: cur)

def authFields (s : Bytes) : List Bytes := authFieldsAcc s false []

/-- the parser written with `strings.Fields` ("the caller does not pass an empty value"):
    `f := strings.Fields(auth); if len(f) > 2 || !EqualFold(f[0], "Basic") { return }; decode f[1]` -/
def parseBasicAuthFields (auth : Bytes) : GoOut (Option (Bytes × Bytes)) :=
  let f := authFields auth
  if f.length > 2 then .ret none else
  match goIndex f 0 with
  | .panic => .panic
  | .ret f0 =>
    if !eqFold f0 (bs "Basic") then .ret none else
    match goIndex f 1 with
    | .panic => .panic
    | .ret f1 => .ret (credsOf f1)

end C12
end FwdVerif
