/-
  C14 — PAC evaluation (`/repo/pac`): the predefined helpers as the code implements them
  (`ascii_pac_utils.js` for the JavaScript ones, `pac_ipv4.go` / `pac_ipv6.go` for the Go ones,
  on top of Go's `net.ParseIP`, `net.ParseCIDR`, `IPNet.Contains`, `IP.String`,
  `net.SplitHostPort`), a tiny script language (decision trees over helper calls) with its
  evaluator, the entry-point rules and result checks of `pac.go`, the result-list parser of
  `proxy.go`, and the resolver pool of `pool.go` as an acquire/release machine over exclusively
  held VMs.  Core-only.

  Strings are byte lists (the agreed domain is ASCII; JavaScript's UTF-16 view coincides with
  the byte view there).  IP addresses are `List Nat` (Go's `net.IP`, 16-byte form unless noted).
-/
import FwdVerif.Lib.Ascii

namespace FwdVerif
namespace C14

open Ascii

/-- `net.IP`: a list of byte values (16 entries after `net.ParseIP`). -/
abbrev IP := List Nat

/-! ## 1. String utilities -/

/-- JavaScript `s.split(sep)` / Go `strings.Split(s, sep)` for a one-byte separator. -/
def splitOn (sep : UInt8) : Bytes → List Bytes
  | [] => [[]]
  | c :: cs =>
    if c == sep then [] :: splitOn sep cs
    else match splitOn sep cs with
      | [] => [[c]]
      | h :: t => (c :: h) :: t

/-- `strings.Join(xs, sep)` -/
def join (sep : Bytes) : List Bytes → Bytes
  | [] => []
  | [x] => x
  | x :: y :: xs => x ++ sep ++ join sep (y :: xs)

/-- value of a decimal digit string (`parseInt`/`ToNumber` on `\d+`, Go's digit loops) -/
def decVal (s : Bytes) : Nat := s.foldl (fun a c => a * 10 + (c.toNat - 48)) 0

def natDec (n : Nat) : Bytes := (Nat.toDigits 10 n).map (fun ch => UInt8.ofNat ch.toNat)
def natHex (n : Nat) : Bytes := (Nat.toDigits 16 n).map (fun ch => UInt8.ofNat ch.toNat)
def intDec (n : Int) : Bytes := if n < 0 then 45 :: natDec n.natAbs else natDec n.toNat

/-- ASCII part of Go's `unicode.IsSpace` (`strings.TrimSpace` on the ASCII domain). -/
def isGoSpace (c : UInt8) : Bool := c == 9 || c == 10 || c == 11 || c == 12 || c == 13 || c == 32

def trimSpace (s : Bytes) : Bytes :=
  ((s.dropWhile isGoSpace).reverse.dropWhile isGoSpace).reverse

/-- `strings.Cut(s, sep)` for a one-byte separator (`none` = not found). -/
def cutAt (sep : UInt8) : Bytes → Option (Bytes × Bytes)
  | [] => none
  | c :: cs =>
    if c == sep then some ([], cs)
    else match cutAt sep cs with
      | none => none
      | some (a, b) => some (c :: a, b)

def indexOf (c : UInt8) (s : Bytes) : Option Nat := s.findIdx? (· == c)

def lastIndexOf (c : UInt8) (s : Bytes) : Option Nat :=
  match s.reverse.findIdx? (· == c) with
  | none => none
  | some k => some (s.length - 1 - k)

def isAscii (s : Bytes) : Bool := s.all (· < 128)

/-! string constants, written out (so that the kernel can compute with them) -/
def sDot : Bytes := [46]
def sTrue : Bytes := [116, 114, 117, 101]
def sFalse : Bytes := [102, 97, 108, 115, 101]
def sNull : Bytes := [110, 117, 108, 108]
def sUndefined : Bytes := [117, 110, 100, 101, 102, 105, 110, 101, 100]
def sObject : Bytes := [91, 111, 98, 106, 101, 99, 116, 32, 79, 98, 106, 101, 99, 116, 93]
def sLoopback : Bytes := [49, 50, 55, 46, 48, 46, 48, 46, 49]          -- "127.0.0.1"
def sVersion : Bytes := [49, 46, 48]                                    -- "1.0"
def kDIRECT : Bytes := [68, 73, 82, 69, 67, 84]
def kPROXY : Bytes := [80, 82, 79, 88, 89]
def kHTTP : Bytes := [72, 84, 84, 80]
def kHTTPS : Bytes := [72, 84, 84, 80, 83]
def kSOCKS : Bytes := [83, 79, 67, 75, 83]
def kSOCKS4 : Bytes := [83, 79, 67, 75, 83, 52]
def kSOCKS5 : Bytes := [83, 79, 67, 75, 83, 53]

/-! ## 2. JavaScript values -/

inductive Val where
  | str (s : Bytes)
  | num (n : Int)
  | bool (b : Bool)
  | null
  | undef
  | obj                     -- some non-primitive (`{}`, a function): only ever a return value
  deriving DecidableEq, Repr

/-- `String(v)` -/
def Val.toStr : Val → Bytes
  | .str s => s
  | .num n => intDec n
  | .bool true => sTrue
  | .bool false => sFalse
  | .null => sNull
  | .undef => sUndefined
  | .obj => sObject

/-- `ToBoolean(v)` (what `if (v)` tests) -/
def Val.truthy : Val → Bool
  | .str s => !s.isEmpty
  | .num n => n != 0
  | .bool b => b
  | .null => false
  | .undef => false
  | .obj => true

def Val.isNullish : Val → Bool
  | .null => true
  | .undef => true
  | _ => false

/-- outcome of evaluating JavaScript: a value, a thrown exception, or "this model does not cover
    the input" (never produced on the agreed domain; the harness does not generate such inputs). -/
inductive Out (α : Type) where
  | ok (a : α)
  | throw
  | unmodelled
  deriving DecidableEq, Repr

abbrev Res := Out Val

/-! ## 3. The JavaScript helpers of `ascii_pac_utils.js` on strings -/

/-- `host.length >= domain.length && host.substring(host.length - domain.length) == domain` -/
def dnsDomainIs (host domain : Bytes) : Bool :=
  decide (host.length ≥ domain.length) && host.drop (host.length - domain.length) == domain

/-- `host.split(".").length - 1` -/
def dnsDomainLevels (host : Bytes) : Nat := (splitOn 46 host).length - 1

/-- `host.search("(\\.)|:") == -1` : no position holds a `.` or a `:` -/
def isPlainHostName (host : Bytes) : Bool :=
  (host.findIdx? (fun c => c == 46 || c == 58)).isNone

/-- `host == hostdom || hostdom.lastIndexOf(host + ".", 0) == 0`
    (`lastIndexOf(x, 0) == 0` ⇔ `hostdom` starts with `x`). -/
def localHostOrDomainIs (host hostdom : Bytes) : Bool :=
  host == hostdom || (host ++ [46]).isPrefixOf hostdom

/-! ### `shExpMatch`: glob → RegExp source → matcher -/

/-- `s.replace(/c/g, rep)` for a one-character pattern -/
def replaceAll (c : UInt8) (rep : Bytes) (s : Bytes) : Bytes :=
  s.flatMap (fun x => if x == c then rep else [x])

/-- the three `replace` calls of `shExpMatch`, in the order of the code -/
def globToRegexSrc (p : Bytes) : Bytes :=
  replaceAll 63 [46] (replaceAll 42 [46, 42] (replaceAll 46 [92, 46] p))

/-- characters with a meaning of their own in a JavaScript RegExp source -/
def isReSpecial (c : UInt8) : Bool :=
  c == 92 || c == 94 || c == 36 || c == 46 || c == 42 || c == 43 || c == 63 || c == 40 || c == 41 ||
  c == 91 || c == 93 || c == 123 || c == 125 || c == 124

inductive Atom where
  | any                       -- `.`
  | lit (c : UInt8)           -- a literal character, or `\.`
  deriving DecidableEq, Repr

/-- JavaScript `.` (no `s` flag) matches anything but a line terminator. -/
def Atom.m : Atom → UInt8 → Bool
  | .any, c => c != 10 && c != 13
  | .lit a, c => a == c

inductive RTok where
  | atom (a : Atom)
  | star
  deriving DecidableEq, Repr

/-- lexer for the RegExp fragment the translation can produce on the agreed domain
    (`\.`, `.`, `*`, ordinary characters); anything else is outside the modelled fragment. -/
def reLex : Bytes → Option (List RTok)
  | [] => some []
  | c :: rest =>
    if c == 92 then
      match rest with
      | [] => none
      | d :: rest' =>
        if d == 46 then (reLex rest').map (RTok.atom (.lit 46) :: ·) else none
    else if c == 46 then (reLex rest).map (RTok.atom .any :: ·)
    else if c == 42 then (reLex rest).map (RTok.star :: ·)
    else if isReSpecial c then none
    else (reLex rest).map (RTok.atom (.lit c) :: ·)

/-- attach `*` to the atom before it -/
def reGroup : List RTok → Option (List (Atom × Bool))
  | [] => some []
  | .star :: _ => none
  | .atom a :: .star :: rest' => (reGroup rest').map ((a, true) :: ·)
  | .atom a :: rest => (reGroup rest).map ((a, false) :: ·)

/-- `a*` followed by continuation `k` (backtracking over the number of repetitions) -/
def starLoop (a : Atom) (k : Bytes → Bool) : Bytes → Bool
  | [] => k []
  | c :: s => k (c :: s) || (a.m c && starLoop a k s)

/-- `new RegExp("^" + atoms + "$").test(s)` : the whole string must match -/
def matchAtoms : List (Atom × Bool) → Bytes → Bool
  | [], s => s.isEmpty
  | (a, false) :: as, s =>
    match s with
    | [] => false
    | c :: s' => a.m c && matchAtoms as s'
  | (a, true) :: as, s => starLoop a (matchAtoms as) s

def compileGlob (p : Bytes) : Option (List (Atom × Bool)) :=
  match reLex (globToRegexSrc p) with
  | none => none
  | some ts => reGroup ts

/-- `shExpMatch(url, pattern)` on strings (`none` = pattern outside the modelled RegExp fragment) -/
def shExpMatch (url pattern : Bytes) : Option Bool :=
  (compileGlob pattern).map (fun atoms => matchAtoms atoms url)

/-! ### `isInNet` -/

def isDigits13 (p : Bytes) : Bool := decide (1 ≤ p.length) && decide (p.length ≤ 3) && p.all isDigit

/-- `/^(\d{1,3})\.(\d{1,3})\.(\d{1,3})\.(\d{1,3})$/` and every group `<= 255` -/
def isValidIpAddress (s : Bytes) : Bool :=
  match splitOn 46 s with
  | [a, b, c, d] =>
    isDigits13 a && isDigits13 b && isDigits13 c && isDigits13 d &&
    decide (decVal a ≤ 255) && decide (decVal b ≤ 255) && decide (decVal c ≤ 255) && decide (decVal d ≤ 255)
  | _ => false

/-- `convert_addr`: `((b0 & 0xff) << 24) | ((b1 & 0xff) << 16) | ((b2 & 0xff) << 8) | (b3 & 0xff)`
    (JavaScript yields the Int32 with the same 32 bits; `==` on those agrees with `==` here). -/
def convertAddr (s : Bytes) : Nat :=
  let bs := (splitOn 46 s).map decVal
  ((bs.getD 0 0 &&& 255) <<< 24) ||| ((bs.getD 1 0 &&& 255) <<< 16) |||
    ((bs.getD 2 0 &&& 255) <<< 8) ||| (bs.getD 3 0 &&& 255)

/-- the last line of `isInNet` -/
def maskedEq (host pat mask : Nat) : Bool := (host &&& mask) == (pat &&& mask)

/-! ## 4. Go's address parsing and printing (`net`, `net/netip`, go1.23) -/

/-- `netip.parseIPv4Fields` : state = (value of the current octet, its digit count, octets done) -/
def parseV4Loop : Bytes → Nat → Nat → List Nat → Option (List Nat)
  | [], val, _, fields => if fields.length < 3 then none else some (fields ++ [val])
  | c :: rest, val, digLen, fields =>
    if isDigit c then
      if digLen == 1 && val == 0 then none                     -- leading zero
      else
        let v := val * 10 + (c.toNat - 48)
        if v > 255 then none else parseV4Loop rest v (digLen + 1) fields
    else if c == 46 then
      if digLen == 0 || rest.isEmpty then none                  -- ".1.2.3", "1.2.3.", "1..2.3"
      else if fields.length == 3 then none                      -- too long
      else parseV4Loop rest 0 0 (fields ++ [val])
    else none

/-- dotted quad → 4 octets -/
def parseV4 (s : Bytes) : Option (List Nat) := parseV4Loop s 0 0 []

def hexVal? (c : UInt8) : Option Nat :=
  if isDigit c then some (c.toNat - 48)
  else if 97 ≤ c && c ≤ 102 then some (c.toNat - 87)
  else if 65 ≤ c && c ≤ 70 then some (c.toNat - 55)
  else none

/-- the inner hex loop of `parseIPv6`: (value, number of digits, rest); `none` = more than 4 digits -/
def scanHex : Bytes → Nat → Nat → Option (Nat × Nat × Bytes)
  | [], acc, off => some (acc, off, [])
  | c :: rest, acc, off =>
    match hexVal? c with
    | none => some (acc, off, c :: rest)
    | some d =>
      let acc' := acc * 16 + d
      if off > 3 then none else if acc' > 65535 then none else scanHex rest acc' (off + 1)

/-- the main loop of `parseIPv6` (`fuel` ≥ 9 suffices: each round adds 2 bytes).
    Result: (unparsed rest, bytes so far, position of the ellipsis). -/
def v6Loop : Nat → Bytes → List Nat → Option Nat → Option (Bytes × List Nat × Option Nat)
  | 0, s, ip, ell => some (s, ip, ell)
  | fuel + 1, s, ip, ell =>
    if ip.length ≥ 16 then some (s, ip, ell) else
    match scanHex s 0 0 with
    | none => none
    | some (acc, off, rest) =>
      if off == 0 then none
      else if rest.head? == some 46 then
        -- embedded IPv4 replaces the last two fields
        if ell.isNone && ip.length != 12 then none
        else if ip.length + 4 > 16 then none
        else match parseV4 s with
          | none => none
          | some f => some ([], ip ++ f, ell)
      else
        let ip := ip ++ [acc / 256, acc % 256]
        match rest with
        | [] => some ([], ip, ell)
        | c :: r1 =>
          if c != 58 then none
          else match r1 with
            | [] => none                                       -- colon must be followed by more
            | c2 :: r2 =>
              if c2 == 58 then
                if ell.isSome then none
                else if r2.isEmpty then some ([], ip, some ip.length)
                else v6Loop fuel r2 ip (some ip.length)
              else v6Loop fuel r1 ip ell

def parseV6 (s : Bytes) : Option IP :=
  let lead := match s with
    | 58 :: 58 :: r => some r
    | _ => none
  let start : Bytes × Option Nat := match lead with
    | some r => (r, some 0)
    | none => (s, none)
  if lead.isSome && start.1.isEmpty then some (List.replicate 16 0) else
  match v6Loop 9 start.1 [] start.2 with
  | none => none
  | some (rest, ip, ell) =>
    if !rest.isEmpty then none
    else if ip.length < 16 then
      match ell with
      | none => none
      | some e => some (ip.take e ++ List.replicate (16 - ip.length) 0 ++ ip.drop e)
    else if ell.isSome then none
    else some ip

def v4InV6Prefix : List Nat := [0, 0, 0, 0, 0, 0, 0, 0, 0, 0, 255, 255]

/-- `netip.ParseAddr` without zones: (is a plain IPv4 literal, 16-byte form) -/
def parseAddr (s : Bytes) : Option (Bool × IP) :=
  if s.contains 37 then none else
  match s.find? (fun c => c == 46 || c == 58) with
  | none => none
  | some c =>
    if c == 46 then (parseV4 s).map (fun f => (true, v4InV6Prefix ++ f))
    else (parseV6 s).map (fun ip => (false, ip))

/-- `net.ParseIP` -/
def parseIP (s : Bytes) : Option IP := (parseAddr s).map (·.2)

/-- `IP.To4` on a 4- or 16-byte address -/
def to4 (ip : IP) : Option (List Nat) :=
  if ip.length == 4 then some ip
  else if ip.length == 16 && ip.take 12 == v4InV6Prefix then some (ip.drop 12)
  else none

def isV4 (ip : IP) : Bool := (to4 ip).isSome

def groups16 : List Nat → List Nat
  | a :: b :: rest => (a * 256 + b) :: groups16 rest
  | _ => []

def zeroRun (g : List Nat) (i : Nat) : Nat := ((g.drop i).takeWhile (· == 0)).length

/-- first longest run of ≥ 2 zero groups: (start, end) -/
def bestZeroRun (g : List Nat) : Option (Nat × Nat) :=
  (List.range 8).foldl (fun best i =>
    let l := zeroRun g i
    let bl := match best with | none => 0 | some (s, e) => e - s
    if l ≥ 2 && l > bl then some (i, i + l) else best) none

def fmt6 (g : List Nat) (z : Option (Nat × Nat)) : Nat → Nat → Bytes
  | 0, _ => []
  | fuel + 1, i =>
    if i ≥ 8 then []
    else match z with
      | some (zs, ze) =>
        if i == zs then
          [58, 58] ++ (if ze ≥ 8 then [] else natHex (g.getD ze 0) ++ fmt6 g z fuel (ze + 1))
        else (if i > 0 then [58] else []) ++ natHex (g.getD i 0) ++ fmt6 g z fuel (i + 1)
      | none => (if i > 0 then [58] else []) ++ natHex (g.getD i 0) ++ fmt6 g z fuel (i + 1)

/-- `net.IP.String` -/
def ipString (ip : IP) : Bytes :=
  match to4 ip with
  | some f => join sDot (f.map natDec)
  | none =>
    let g := groups16 ip
    fmt6 g (bestZeroRun g) 9 0

/-- `semicolonDelimitedString` -/
def semicolonJoin (xs : List Bytes) : Bytes := join [59] xs

/-! ### CIDR (`net.ParseCIDR`, `CIDRMask`, `IP.Mask`, `IPNet.Contains`) -/

/-- `CIDRMask(n, 8*l)` -/
def cidrMask : Nat → Nat → List Nat
  | 0, _ => []
  | l + 1, n =>
    if n ≥ 8 then 255 :: cidrMask l (n - 8)
    else (255 - (255 >>> n)) :: cidrMask l 0

def andBytes (a m : List Nat) : List Nat := List.zipWith (· &&& ·) a m

structure IPNet where
  ip : List Nat          -- masked network number (4 or 16 bytes)
  mask : List Nat
  deriving DecidableEq, Repr

def parseCIDR (s : Bytes) : Option IPNet :=
  match cutAt 47 s with
  | none => none
  | some (addr, m) =>
    match parseAddr addr with
    | none => none
    | some (is4, ip16) =>
      let bits := if is4 then 32 else 128
      -- `dtoi`: digits only, at least one, no overflow; then `n ≤ bits`
      if m.isEmpty || !m.all isDigit || decVal m > bits then none
      else
        let n := decVal m
        let mask := cidrMask (bits / 8) n
        -- `IP(addr16).Mask(m)`: a 4-byte mask applied to a v4-in-v6 address yields 4 bytes
        let ip := if is4 then ip16.drop 12 else ip16
        some { ip := andBytes ip mask, mask := mask }

/-- `(*IPNet).Contains` (with `networkNumberAndMask`) -/
def IPNet.contains (n : IPNet) (ip : IP) : Bool :=
  let nn := (to4 n.ip).getD n.ip
  let m := if n.mask.length == 16 && nn.length == 4 then n.mask.drop 12 else n.mask
  let x := (to4 ip).getD ip
  x.length == nn.length &&
    (List.zip nn (List.zip m x)).all (fun t => (t.1 &&& t.2.1) == (t.2.2 &&& t.2.1))

/-- body of the Go handler `isInNetEx` on strings -/
def isInNetEx (host cidr : Bytes) : Bool :=
  match parseIP host with
  | none => false
  | some ip =>
    match parseCIDR cidr with
    | none => false
    | some n => n.contains ip

/-! ## 5. Environment: injected resolver table and own addresses -/

structure Env where
  table : List (Bytes × List IP)       -- host name ↦ addresses (16-byte form), in answer order
  myIPs : List IP                      -- `testingMyIPAddress`
  myIPsEx : List IP                    -- `testingMyIPAddressEx`
  deriving Repr

/-- the injected `LookupIP(network, host)`: an IP literal resolves to itself, other names through
    the table; network `ip4` keeps IPv4 addresses only; an empty answer is an error. -/
def lookupIP (env : Env) (only4 : Bool) (host : Bytes) : Option (List IP) :=
  let cands := match parseIP host with
    | some ip => [ip]
    | none => (env.table.lookup host).getD []
  let r := if only4 then cands.filter isV4 else cands
  if r.isEmpty then none else some r

/-- `dnsResolve(host)` for a string: `none` = JavaScript `null` -/
def dnsResolveStr (env : Env) (host : Bytes) : Option Bytes :=
  (lookupIP env true host).map (fun ips => ipString (ips.headD []))

/-- `dnsResolveEx(host)` for a string -/
def dnsResolveExStr (env : Env) (host : Bytes) : Bytes :=
  match lookupIP env false host with
  | none => []
  | some ips => semicolonJoin (ips.map ipString)

def myIpAddressStr (env : Env) : Bytes :=
  match env.myIPs with
  | [] => sLoopback
  | ip :: _ => ipString ip

def myIpAddressExStr (env : Env) : Bytes := semicolonJoin (env.myIPsEx.map ipString)

/-- `isInNet(ipaddr, pattern, maskstr)` on strings -/
def isInNet (env : Env) (ipaddr pattern maskstr : Bytes) : Bool :=
  if !isValidIpAddress pattern || !isValidIpAddress maskstr then false
  else
    let ip? := if isValidIpAddress ipaddr then some ipaddr else dnsResolveStr env ipaddr
    match ip? with
    | none => false
    | some ip => maskedEq (convertAddr ip) (convertAddr pattern) (convertAddr maskstr)

/-! ### `sortIpAddressList` -/

/-- `bytes.Compare(a, b) < 0` -/
def bytesLt : List Nat → List Nat → Bool
  | [], [] => false
  | [], _ :: _ => true
  | _ :: _, [] => false
  | a :: as, b :: bs => if a < b then true else if b < a then false else bytesLt as bs

/-- the `less` closure given to `sort.Slice` -/
def ipLess (a b : IP × Bytes) : Bool :=
  if isV4 a.1 == isV4 b.1 then bytesLt a.1 b.1 else !isV4 a.1

/-- `a` may stay before `b` -/
def ipLe (a b : IP × Bytes) : Bool := !ipLess b a

/-- one insertion step: `a` goes before the first element it may precede -/
def insertIp (a : IP × Bytes) : List (IP × Bytes) → List (IP × Bytes)
  | [] => [a]
  | b :: l => if ipLe a b then a :: b :: l else b :: insertIp a l

/-- `sort.Slice(ips, less)`: for up to 12 elements Go runs an insertion sort, which is stable; this
    is the stable answer (beyond 12 elements `sort.Slice` may order *equal* addresses differently,
    which the harness accounts for). -/
def sortIps (l : List (IP × Bytes)) : List (IP × Bytes) := l.foldr insertIp []

/-- `asSlice(s, ";", parse)`: split, trim, skip empties, parse each -/
def parseIpList (s : Bytes) : Option (List (IP × Bytes)) :=
  (((splitOn 59 s).map trimSpace).filter (fun v => !v.isEmpty)).mapM
    (fun v => (parseIP v).map (fun ip => (ip, v)))

/-- body of the Go handler on a string: `none` = JavaScript `false` -/
def sortIpAddressListStr (s : Bytes) : Option Bytes :=
  match parseIpList s with
  | none => none
  | some [] => none
  | some ips => some (semicolonJoin ((sortIps ips).map (·.2)))

/-! ## 6. Helper calls on JavaScript values -/

inductive Helper where
  | isPlainHostName | dnsDomainIs | localHostOrDomainIs | dnsDomainLevels | shExpMatch | isInNet
  | isResolvable | dnsResolve | myIpAddress
  | isResolvableEx | isInNetEx | dnsResolveEx | myIpAddressEx | sortIpAddressList | getClientVersion
  deriving DecidableEq, Repr

def argAt (args : List Val) (i : Nat) : Val := args.getD i .undef

def optStr : Option Bytes → Val
  | none => .null
  | some s => .str s

/-- a helper applied to JavaScript values, as goja runs it: the string cases are the functions
    above; the other cases follow the coercions of the JavaScript source resp. the explicit
    argument checks of the Go handlers. -/
def callHelper (env : Env) (h : Helper) (args : List Val) : Res :=
  if args.contains .obj then .unmodelled else
  let a0 := argAt args 0
  let a1 := argAt args 1
  let a2 := argAt args 2
  match h with
  | .isPlainHostName =>
    match a0 with
    | .str s => .ok (.bool (isPlainHostName s))
    | _ => .throw                                   -- `host.search` of null / not a function
  | .dnsDomainLevels =>
    match a0 with
    | .str s => .ok (.num (dnsDomainLevels s))
    | _ => .throw
  | .dnsDomainIs =>
    if a0.isNullish || a1.isNullish then .throw       -- `.length` of null/undefined
    else match a0, a1 with
      | .str x, .str d => .ok (.bool (dnsDomainIs x d))
      | _, _ => .ok (.bool false)                    -- `undefined >= n` is false
  | .localHostOrDomainIs =>
    match a0, a1 with
    | .str x, .str d => .ok (.bool (localHostOrDomainIs x d))
    | .null, .null => .ok (.bool true)
    | .null, .undef => .ok (.bool true)
    | .undef, .null => .ok (.bool true)
    | .undef, .undef => .ok (.bool true)
    | .null, .str d => .ok (.bool ((sNull ++ [46]).isPrefixOf d))
    | .undef, .str d => .ok (.bool ((sUndefined ++ [46]).isPrefixOf d))
    | .str _, .null => .throw
    | .str _, .undef => .throw
    | _, _ => .unmodelled                            -- loose `==` between numbers and strings
  | .shExpMatch =>
    match a1 with
    | .str p =>
      match shExpMatch a0.toStr p with
      | some b => .ok (.bool b)
      | none => .unmodelled
    | _ => .throw                                   -- `pattern.replace` of null / not a function
  | .isInNet =>
    match a0, a1, a2 with
    | .str x, .str p, .str m => .ok (.bool (isInNet env x p m))
    | _, _, _ => .ok (.bool false)
  | .isResolvable =>
    match a0 with
    | .str x => .ok (.bool (dnsResolveStr env x).isSome)
    | _ => .ok (.bool false)                         -- `undefined != null` is false
  | .dnsResolve =>
    match a0 with
    | .str x => .ok (optStr (dnsResolveStr env x))
    | _ => .ok .undef
  | .myIpAddress => .ok (.str (myIpAddressStr env))
  | .isResolvableEx =>
    match a0 with
    | .str x => .ok (.bool (!(dnsResolveExStr env x).isEmpty))
    | _ => .ok (.bool true)                          -- "null" / "false" is not the empty string
  | .isInNetEx =>
    if a0.isNullish then .ok .null
    else match a0 with
      | .str x =>
        if a1.isNullish then .ok .null
        else match a1 with
          | .str c => .ok (.bool (isInNetEx x c))
          | _ => .ok (.bool false)
      | _ => .ok (.bool false)
  | .dnsResolveEx =>
    if a0.isNullish then .ok .null
    else match a0 with
      | .str x => .ok (.str (dnsResolveExStr env x))
      | _ => .ok (.bool false)
  | .myIpAddressEx => .ok (.str (myIpAddressExStr env))
  | .sortIpAddressList =>
    if a0.isNullish then .ok .null
    else match a0 with
      | .str x =>
        match sortIpAddressListStr x with
        | some r => .ok (.str r)
        | none => .ok (.bool false)
      | _ => .ok (.bool false)
  | .getClientVersion => .ok (.str sVersion)

/-! ## 7. The script language: decision trees over helper calls -/

/-- a piece of a string a script builds at run time (`"10." + host.split(".")[1] + ".0.0/16"`) -/
inductive Piece where
  | lit (s : Bytes)
  | url
  | host
  | label (i : Nat)                -- `host.split(".")[i]` (`undefined`, printed "undefined", past the last label)
  deriving DecidableEq, Repr

inductive Arg where
  | url
  | host
  | lit (v : Val)
  | cat (ps : List Piece)          -- `"" + p₁ + p₂ + …`: an argument built afresh from the request on every call
  deriving DecidableEq, Repr

structure Call where
  h : Helper
  args : List Arg
  deriving DecidableEq, Repr

inductive Cond where
  | truthy (c : Call)              -- `if (helper(args))`
  | eq (c : Call) (v : Val)        -- `if (helper(args) === literal)`
  | not (c : Cond)                 -- `if (!(…))`
  deriving Repr

inductive RetE where
  | lit (v : Val)                  -- `return literal`
  | call (c : Call)                -- `return helper(args)`
  | strOf (c : Call)               -- `return String(helper(args))`
  deriving Repr

inductive Tree where
  | ret (e : RetE)
  | ite (c : Cond) (t e : Tree)
  deriving Repr

def Piece.val (url host : Bytes) : Piece → Bytes
  | .lit s => s
  | .url => url
  | .host => host
  | .label i => ((splitOn 46 host)[i]?).getD sUndefined

/-- the string the concatenation yields -/
def catVal (url host : Bytes) : List Piece → Bytes
  | [] => []
  | p :: ps => p.val url host ++ catVal url host ps

def Arg.val (url host : Bytes) : Arg → Val
  | .url => .str url
  | .host => .str host
  | .lit v => v
  | .cat ps => .str (catVal url host ps)

/-- evaluation is parameterised by the helper semantics `hc` (the code's: `callHelper env`). -/
def evalCall (hc : Helper → List Val → Res) (url host : Bytes) (c : Call) : Res :=
  hc c.h (c.args.map (Arg.val url host))

def evalCond (hc : Helper → List Val → Res) (url host : Bytes) : Cond → Out Bool
  | .truthy c =>
    match evalCall hc url host c with
    | .ok v => .ok v.truthy
    | .throw => .throw
    | .unmodelled => .unmodelled
  | .eq c w =>
    match evalCall hc url host c with
    | .ok v => .ok (decide (v = w))
    | .throw => .throw
    | .unmodelled => .unmodelled
  | .not c =>
    match evalCond hc url host c with
    | .ok b => .ok (!b)
    | .throw => .throw
    | .unmodelled => .unmodelled

def evalRet (hc : Helper → List Val → Res) (url host : Bytes) : RetE → Res
  | .lit v => .ok v
  | .call c => evalCall hc url host c
  | .strOf c =>
    match evalCall hc url host c with
    | .ok v => .ok (.str v.toStr)
    | .throw => .throw
    | .unmodelled => .unmodelled

def evalTree (hc : Helper → List Val → Res) (url host : Bytes) : Tree → Res
  | .ret e => evalRet hc url host e
  | .ite c t e =>
    match evalCond hc url host c with
    | .ok true => evalTree hc url host t
    | .ok false => evalTree hc url host e
    | .throw => .throw
    | .unmodelled => .unmodelled

/-! ### Residual scripts: the request substituted into the dynamically built arguments -/

def Arg.residual (url host : Bytes) (a : Arg) : Arg := .lit (a.val url host)

def Call.residual (url host : Bytes) (c : Call) : Call := { c with args := c.args.map (Arg.residual url host) }

def Cond.residual (url host : Bytes) : Cond → Cond
  | .truthy c => .truthy (c.residual url host)
  | .eq c v => .eq (c.residual url host) v
  | .not c => .not (c.residual url host)

def RetE.residual (url host : Bytes) : RetE → RetE
  | .lit v => .lit v
  | .call c => .call (c.residual url host)
  | .strOf c => .strOf (c.residual url host)

def Tree.residual (url host : Bytes) : Tree → Tree
  | .ret e => .ret (e.residual url host)
  | .ite c t e => .ite (c.residual url host) (t.residual url host) (e.residual url host)

/-! ### Entry points and result checks (`pac.go`) -/

inductive Entry where
  | absent                 -- the global is not defined
  | notFunction            -- defined, but `goja.AssertFunction` fails (`var FindProxyForURL = 5`)
  | fn (t : Tree)
  deriving Repr

/-- where running a declaration leaves the name it declares (ECMAScript global environment record:
    a declarative part for `let` / `const` / `class`, and the global object for everything else) -/
inductive Binding where
  | lexical                -- global lexical binding: script code sees it, the global object has no such property
  | property               -- property of the global object
  | none                   -- local to a block, a function or an eval: no global binding at all
  deriving DecidableEq, Repr

/-- the ways a script declares an entry point (`N` = the name, `F` = a function expression
    `function (url, host) {…}`, `A` = an arrow function `(url, host) => {…}`) -/
inductive DeclForm where
  | funDecl                -- `function N(url, host) {…}`
  | varFun                 -- `var N = F;`
  | varNamedFun            -- `var N = function impl(url, host) {…};`
  | varArrow               -- `var N = A;`
  | assign                 -- `N = F;`            (undeclared name, sloppy mode)
  | thisAssign             -- `this.N = F;`       (`this` = the global object at top level)
  | defineProp             -- `Object.defineProperty(this, "N", {value: F, …});`
  | blockVar               -- `{ var N = F; }`    (`var` is hoisted out of the block)
  | blockAssign            -- `{ N = F; }`
  | iifeAssign             -- `(function () { N = F; })();`
  | iifeThis               -- `(function () { this.N = F; })();`   (plain call, sloppy mode: `this` = global object)
  | iifeGlobalArg          -- `(function (g) { g.N = F; })(this);`
  | evalVar                -- `eval("var N = F;");`               (direct eval at top level, sloppy mode)
  | constFun               -- `const N = F;`
  | letFun                 -- `let N = F;`
  | constArrow             -- `const N = A;`
  | letArrow               -- `let N = A;`
  | letLater               -- `let N; N = F;`
  | blockLet               -- `{ let N = F; }`
  | blockConst             -- `{ const N = F; }`
  | iifeLocalFun           -- `(function () { function N(url, host) {…} })();`
  | iifeLocalVar           -- `(function () { var N = F; })();`
  | evalLet                -- `eval("let N = F;");`               (eval code has a lexical environment of its own)
  deriving DecidableEq, Repr

def DeclForm.binding : DeclForm → Binding
  | .funDecl | .varFun | .varNamedFun | .varArrow | .assign | .thisAssign | .defineProp | .blockVar
  | .blockAssign | .iifeAssign | .iifeThis | .iifeGlobalArg | .evalVar => .property
  | .constFun | .letFun | .constArrow | .letArrow | .letLater => .lexical
  | .blockLet | .blockConst | .iifeLocalFun | .iifeLocalVar | .evalLet => .none

/-- `definesGlobal form`: running a declaration of this form leaves a global binding of the name —
    one that script code resolves by that name, wherever the engine keeps it. -/
def definesGlobal (f : DeclForm) : Bool := f.binding != .none

def DeclForm.all : List DeclForm :=
  [.funDecl, .varFun, .varNamedFun, .varArrow, .assign, .thisAssign, .defineProp, .blockVar, .blockAssign,
   .iifeAssign, .iifeThis, .iifeGlobalArg, .evalVar, .constFun, .letFun, .constArrow, .letArrow, .letLater,
   .blockLet, .blockConst, .iifeLocalFun, .iifeLocalVar, .evalLet]

/-- the two names `NewProxyResolver` looks for -/
inductive EName where
  | find                   -- `FindProxyForURL`
  | findEx                 -- `FindProxyForURLEx`
  deriving DecidableEq, Repr

structure Script where
  fn : Entry               -- `FindProxyForURL`
  fnEx : Entry             -- `FindProxyForURLEx`
  fnForm : DeclForm := .funDecl
  fnExForm : DeclForm := .funDecl
  deriving Repr

def Script.entry (s : Script) : EName → Entry
  | .find => s.fn
  | .findEx => s.fnEx

def Script.form (s : Script) : EName → DeclForm
  | .find => s.fnForm
  | .findEx => s.fnExForm

/-- what the script specifies under a name: the value its declaration gives the name if that
    declaration defines a global, nothing otherwise -/
def Script.global (s : Script) (n : EName) : Entry :=
  if definesGlobal (s.form n) then s.entry n else .absent

/-- the global scope of a VM after the script ran -/
structure Scope where
  lex : List (EName × Entry)           -- global lexical bindings
  props : List (EName × Entry)         -- properties of the global object
  deriving Repr

def declare (sc : Scope) (b : Binding) (n : EName) : Entry → Scope
  | .absent => sc
  | e =>
    match b with
    | .lexical => { sc with lex := (n, e) :: sc.lex }
    | .property => { sc with props := (n, e) :: sc.props }
    | .none => sc

def Script.scope (s : Script) : Scope :=
  declare (declare ⟨[], []⟩ s.fnForm.binding .find s.fn) s.fnExForm.binding .findEx s.fnEx

/-- `goja.Runtime.Get(name)`: the name as script code resolves it — a global lexical binding if
    there is one, else the property of the global object -/
def vmGet (sc : Scope) (n : EName) : Entry :=
  match sc.lex.lookup n with
  | some e => e
  | none => (sc.props.lookup n).getD .absent

/-- `Runtime.GlobalObject().Get(name)`: properties of the global object only (NOT what the code
    uses; kept for `c14_entry_property_lookup_witness`) -/
def objGet (sc : Scope) (n : EName) : Entry := (sc.props.lookup n).getD .absent

inductive LoadErr where
  | missing | ambiguous
  deriving DecidableEq, Repr

def Entry.tree? : Entry → Option Tree
  | .fn t => some t
  | _ => none

/-- `NewProxyResolver` with `get` as the lookup of `entryPoint()`: exactly one of the two names must
    be a function -/
def loadWith (get : Scope → EName → Entry) (s : Script) : Except LoadErr Tree :=
  match (get s.scope .findEx).tree?, (get s.scope .find).tree? with
  | none, none => .error .missing
  | some _, some _ => .error .ambiguous
  | some t, none => .ok t
  | none, some t => .ok t

/-- `NewProxyResolver`: `entryPoint()` uses `vm.Get` -/
def load (s : Script) : Except LoadErr Tree := loadWith vmGet s

inductive Answer where
  | ok (s : Bytes)
  | errType                -- "unexpected return type"
  | errNonAscii            -- "non-ASCII characters in the return value"
  | errThrow               -- the script threw
  | unmodelled
  deriving DecidableEq, Repr

/-- the checks of `FindProxyForURL` on what the entry point returned -/
def checkResult : Res → Answer
  | .ok (.str s) => if isAscii s then .ok s else .errNonAscii
  | .ok _ => .errType
  | .throw => .errThrow
  | .unmodelled => .unmodelled

structure Req where
  url : Bytes              -- `u.String()`
  hostArg : Bytes          -- the `hostname` argument ("" = take it from the URL)
  urlHost : Bytes          -- `u.Hostname()`
  deriving DecidableEq, Repr

def Req.host (r : Req) : Bytes := if r.hostArg.isEmpty then r.urlHost else r.hostArg

/-- `(*ProxyResolver).FindProxyForURL` for a loaded script -/
def findProxyWith (hc : Helper → List Val → Res) (t : Tree) (r : Req) : Answer :=
  checkResult (evalTree hc r.url r.host t)

def findProxy (env : Env) (t : Tree) (r : Req) : Answer := findProxyWith (callHelper env) t r

/-! ## 8. Result lists (`proxy.go`) -/

inductive Mode where
  | DIRECT | PROXY | HTTP | HTTPS | SOCKS | SOCKS4 | SOCKS5
  deriving DecidableEq, Repr

structure Proxy where
  mode : Mode
  host : Bytes
  port : Bytes
  deriving DecidableEq, Repr

def noProxy : Proxy := ⟨.DIRECT, [], []⟩

def parseMode (s : Bytes) : Mode :=
  if s == kDIRECT then .DIRECT
  else if s == kPROXY then .PROXY
  else if s == kHTTP then .HTTP
  else if s == kHTTPS then .HTTPS
  else if s == kSOCKS then .SOCKS
  else if s == kSOCKS4 then .SOCKS4
  else if s == kSOCKS5 then .SOCKS5
  else .DIRECT

/-- `net.SplitHostPort` (`none` = any of its errors) -/
def splitHostPort (hp : Bytes) : Option (Bytes × Bytes) :=
  match lastIndexOf 58 hp with
  | none => none                                            -- missing port
  | some i =>
    if hp.head? == some 91 then
      match indexOf 93 hp with
      | none => none                                        -- missing ']'
      | some e =>
        if e + 1 == hp.length then none                     -- missing port
        else if e + 1 == i then
          if (hp.drop 1).contains 91 then none              -- unexpected '['
          else if (hp.drop (e + 1)).contains 93 then none   -- unexpected ']'
          else some ((hp.take e).drop 1, hp.drop (i + 1))
        else none                                           -- too many colons / missing port
    else
      if (hp.take i).contains 58 then none                  -- too many colons
      else if hp.contains 91 then none
      else if hp.contains 93 then none
      else some (hp.take i, hp.drop (i + 1))

/-- the digit loop of `strconv.ParseUint(s, 10, 16)` after its empty-string test, `n` = value so far
    (`none` = `ErrSyntax` or `ErrRange`).  With `base = 10` given explicitly there is no sign, no
    prefix and no `_`; a byte that is not `0`…`9` is a syntax error (letters map to digits ≥ 10 =
    base); `maxVal = 1<<16 - 1`, and as soon as `n*10 + d > maxVal` the loop returns `ErrRange`,
    however many digits follow.  The other range test, `n >= cutoff` with `cutoff = 2^64/10 + 1`,
    can never fire: `n ≤ 65535` on every entry of the loop body. -/
def parseUint16Loop : Bytes → Nat → Option Nat
  | [], n => some n
  | c :: rest, n =>
    if isDigit c then
      let n1 := n * 10 + (c.toNat - 48)
      if n1 > 65535 then none else parseUint16Loop rest n1
    else none

/-- `strconv.ParseUint(s, 10, 16)`: `none` = an error was returned -/
def parseUint16 (s : Bytes) : Option Nat :=
  if s.isEmpty then none else parseUint16Loop s 0

/-- `host == "" || strings.ContainsAny(host, " \t")` negated: the host check of `parseProxy` -/
def hostOk (h : Bytes) : Bool := !h.isEmpty && !h.contains 32 && !h.contains 9

/-- `parseProxy` (`none` = error) -/
def parseProxy (s : Bytes) : Option Proxy :=
  let s := trimSpace s
  if s.isEmpty then some noProxy
  else if s == kDIRECT then some ⟨.DIRECT, [], []⟩
  else match cutAt 32 s with
    | none => none                                          -- missing host:port
    | some (mode, hp) =>
      match splitHostPort hp with
      | none => none
      | some (h, p) =>
        if !hostOk h then none                              -- invalid host
        else if (parseUint16 p).isNone then none            -- invalid port
        else some ⟨parseMode mode, h, p⟩

/-- `Proxies.First` -/
def proxiesFirst (s : Bytes) : Option Proxy :=
  if s.isEmpty then some noProxy
  else
    let spec := match cutAt 59 s with
      | some (a, _) => a
      | none => s
    parseProxy spec

/-- `Proxies.All` -/
def proxiesAll (s : Bytes) : Option (List Proxy) :=
  if s.isEmpty then some [] else (splitOn 59 s).mapM parseProxy

/-- `strings.ToLower(m.String())` with PROXY folded to HTTP; `none` for DIRECT -/
def Mode.scheme : Mode → Option Bytes
  | .DIRECT => none
  | .PROXY => some [104, 116, 116, 112]
  | .HTTP => some [104, 116, 116, 112]
  | .HTTPS => some [104, 116, 116, 112, 115]
  | .SOCKS => some [115, 111, 99, 107, 115]
  | .SOCKS4 => some [115, 111, 99, 107, 115, 52]
  | .SOCKS5 => some [115, 111, 99, 107, 115, 53]

/-- `net.JoinHostPort` -/
def joinHostPort (h p : Bytes) : Bytes :=
  if h.contains 58 then [91] ++ h ++ [93, 58] ++ p else h ++ [58] ++ p

/-- `Proxy.URL`: (scheme, host field); `none` = nil URL (DIRECT) -/
def Proxy.url (p : Proxy) : Option (Bytes × Bytes) :=
  p.mode.scheme.map (fun s => (s, joinHostPort p.host p.port))

/-! ## 9. The resolver pool (`pool.go`): exclusive VMs, acquire / evaluate / release

  A VM (goja runtime) is not safe for concurrent use: an evaluation first writes the call's
  arguments into the VM (`beginEval`) and later reads them back to compute the answer (`finish`).
  `sync.Pool` hands a caller either an idle VM (removing it from the pool) or a fresh one; `Put`
  makes it idle again; the garbage collector may drop idle VMs at any time. -/

inductive Phase (α : Type) where
  | idle
  | acquired (v : Nat)
  | begun (v : Nat)
  | finished (v : Nat) (a : Option α)
  | released (a : Option α)

structure PState (ρ α : Type) where
  free : List Nat                 -- idle VMs
  next : Nat                      -- VMs `0 … next-1` have been created
  reg : Nat → Option ρ            -- per VM: the request it is currently evaluating
  phase : Nat → Phase α           -- per caller

inductive POp where
  | acquire (c : Nat) (choice : Option Nat)   -- `pool.Get()`: idle VM number `choice`, or a new one
  | beginEval (c : Nat)                       -- arguments written into the VM
  | finish (c : Nat)                          -- the VM computes the answer from what it holds
  | release (c : Nat)                         -- `pool.Put(vm)`
  | gc (i : Nat)                              -- the runtime drops an idle VM
  deriving DecidableEq, Repr

def PState.init {ρ α : Type} : PState ρ α :=
  { free := [], next := 0, reg := fun _ => none, phase := fun _ => .idle }

def setPhase {α : Type} (ph : Nat → Phase α) (c : Nat) (p : Phase α) : Nat → Phase α :=
  fun x => if x = c then p else ph x

def setReg {ρ : Type} (rg : Nat → Option ρ) (v : Nat) (r : Option ρ) : Nat → Option ρ :=
  fun x => if x = v then r else rg x

/-- one step of the pool machine; `f` = evaluation of the loaded script (a pure function of the
    request in the model), `req c` = the request of caller `c`.  Steps whose precondition fails
    leave the state unchanged. -/
def pstep {ρ α : Type} (f : ρ → α) (req : Nat → ρ) (s : PState ρ α) : POp → PState ρ α
  | .acquire c choice =>
    match s.phase c with
    | .idle =>
      match choice.bind (fun i => s.free[i]?) with
      | some v => { s with free := s.free.erase v, phase := setPhase s.phase c (.acquired v) }
      | none => { s with next := s.next + 1, phase := setPhase s.phase c (.acquired s.next) }
    | _ => s
  | .beginEval c =>
    match s.phase c with
    | .acquired v => { s with reg := setReg s.reg v (some (req c)), phase := setPhase s.phase c (.begun v) }
    | _ => s
  | .finish c =>
    match s.phase c with
    | .begun v => { s with phase := setPhase s.phase c (.finished v ((s.reg v).map f)) }
    | _ => s
  | .release c =>
    match s.phase c with
    | .finished v a => { s with free := v :: s.free, phase := setPhase s.phase c (.released a) }
    | _ => s
  | .gc i => { s with free := s.free.eraseIdx i }

def prun {ρ α : Type} (f : ρ → α) (req : Nat → ρ) (ops : List POp) : PState ρ α :=
  ops.foldl (pstep f req) PState.init

/-- the VM a caller holds -/
def Phase.vm? {α : Type} : Phase α → Option Nat
  | .acquired v => some v
  | .begun v => some v
  | .finished v _ => some v
  | _ => none

/-- the answer a caller got -/
def Phase.answer? {α : Type} : Phase α → Option (Option α)
  | .finished _ a => some a
  | .released a => some a
  | _ => none

/-- a broken pool for comparison: every `acquire` hands out VM 0 without removing it. -/
def pstepShared {ρ α : Type} (f : ρ → α) (req : Nat → ρ) (s : PState ρ α) : POp → PState ρ α
  | .acquire c _ =>
    match s.phase c with
    | .idle => { s with next := max s.next 1, phase := setPhase s.phase c (.acquired 0) }
    | _ => s
  | op => pstep f req s op

/-! ## 10. Decorated scripts: sloppy-mode globals, loops, shadowed helpers, per-VM state

  PAC files in the wild are sloppy-mode ES5: they assign to names they never declared (`proxy = …`,
  `for (i = 0; …)`), which creates properties of the global object that live as long as the VM does.
  The decision trees of §7 are wrapped in such statements: a *prelude* run once when the script is
  loaded, a *body* run at the start of every call, leaves that return through a global, and
  top-level functions that replace a predefined helper.  A VM now has a state (`Globals`), so the
  evaluation function of §9 becomes `σ → ρ → α × σ` and the pool machine carries one state per VM.

  Forms whose meaning does not depend on that state (`with`, duplicate parameter names,
  `arguments.callee`, aliasing of `arguments[i]`, `this` = global object in a plain call, legacy
  octal literals, `FindProxyForURL.length`) are spellings of the constructs below on the JavaScript
  side (harness/c14/deco.go); the model gives them the meaning of the construct they spell. -/

abbrev Name := Nat                       -- the global `g<n>`
abbrev Globals := List (Name × Val)      -- own properties of the global object the script created

def gget (g : Globals) (x : Name) : Option Val := g.lookup x

def gset (g : Globals) (x : Name) (v : Val) : Globals := (x, v) :: g.filter (fun p => p.1 != x)

inductive GExpr where
  | lit (v : Val)
  | glob (x : Name)                      -- `gx` (a ReferenceError when it was never assigned)
  | plus (x : Name) (k : Int)            -- `gx + k`
  | call (c : Call)                      -- a helper call on url / host / literals
  deriving Repr

inductive Stmt where
  | assign (x : Name) (e : GExpr)                     -- `gx = e;` (no `var`: creates or overwrites a global)
  | initOnce (x : Name) (v : Val)                     -- `if (typeof gx === "undefined") gx = v;`
  | loop (i : Name) (n : Nat) (x : Name) (e : GExpr)   -- `for (gi = 0; gi < n; gi++) { gx = e; }`
  deriving Repr

def Piece.usesReq : Piece → Bool
  | .lit _ => false
  | _ => true

def Call.usesReq (c : Call) : Bool :=
  c.args.any (fun a => match a with | .lit _ => false | .cat ps => ps.any Piece.usesReq | _ => true)

/-- `ctx` = the parameters `(url, host)` in scope; `none` at top level, where naming them is a
    ReferenceError. -/
def evalGExpr (hc : Helper → List Val → Res) (ctx : Option (Bytes × Bytes)) (g : Globals) : GExpr → Res
  | .lit v => .ok v
  | .glob x =>
    match gget g x with
    | some v => .ok v
    | none => .throw
  | .plus x k =>
    match gget g x with
    | some (.num n) => .ok (.num (n + k))
    | some (.str s) => .ok (.str (s ++ intDec k))
    | some _ => .unmodelled                           -- `+` on the other types is outside the fragment
    | none => .throw
  | .call c =>
    match ctx with
    | some (u, h) => evalCall hc u h c
    | none => if c.usesReq then .throw else evalCall hc [] [] c

/-- the globals after a statement (or at the point where it threw), and how it ended -/
abbrev Exec := Globals × Out Unit

/-- the loop as a bounded fold: `fuel` iterations left, counter value `k`; on exit the counter
    holds the bound. -/
def loopRun (hc : Helper → List Val → Res) (ctx : Option (Bytes × Bytes)) (i x : Name) (e : GExpr) :
    Nat → Nat → Globals → Exec
  | 0, k, g => (gset g i (.num (Int.ofNat k)), .ok ())
  | fuel + 1, k, g =>
    let g1 := gset g i (.num (Int.ofNat k))
    match evalGExpr hc ctx g1 e with
    | .ok v => loopRun hc ctx i x e fuel (k + 1) (gset g1 x v)
    | .throw => (g1, .throw)
    | .unmodelled => (g1, .unmodelled)

def execStmt (hc : Helper → List Val → Res) (ctx : Option (Bytes × Bytes)) (g : Globals) : Stmt → Exec
  | .assign x e =>
    match evalGExpr hc ctx g e with
    | .ok v => (gset g x v, .ok ())
    | .throw => (g, .throw)
    | .unmodelled => (g, .unmodelled)
  | .initOnce x v =>
    match gget g x with
    | none => (gset g x v, .ok ())
    | some .undef => (gset g x v, .ok ())
    | some _ => (g, .ok ())
  | .loop i n x e => if i = x then (g, .unmodelled) else loopRun hc ctx i x e n 0 g

def execStmts (hc : Helper → List Val → Res) (ctx : Option (Bytes × Bytes)) : Globals → List Stmt → Exec
  | g, [] => (g, .ok ())
  | g, s :: rest =>
    match execStmt hc ctx g s with
    | (g', .ok ()) => execStmts hc ctx g' rest
    | r => r

inductive DTree where
  | ret (e : RetE)
  | retVia (x : Name) (e : RetE)          -- `gx = e; return gx;`
  | retGlob (x : Name) (asStr : Bool)     -- `return gx;` / `return String(gx);`
  | ite (c : Cond) (t e : DTree)
  deriving Repr

def evalDTree (hc : Helper → List Val → Res) (url host : Bytes) (g : Globals) : DTree → Res × Globals
  | .ret e => (evalRet hc url host e, g)
  | .retVia x e =>
    match evalRet hc url host e with
    | .ok v => (.ok v, gset g x v)
    | r => (r, g)
  | .retGlob x asStr =>
    match gget g x with
    | none => (.throw, g)
    | some v => (.ok (if asStr then .str v.toStr else v), g)
  | .ite c t e =>
    match evalCond hc url host c with
    | .ok true => evalDTree hc url host g t
    | .ok false => evalDTree hc url host g e
    | .throw => (.throw, g)
    | .unmodelled => (.unmodelled, g)

/-- a plain tree as a decorated one … -/
def Tree.toD : Tree → DTree
  | .ret e => .ret e
  | .ite c t e => .ite c t.toD e.toD

/-- … and with every leaf returning through the scratch global `gx` (`proxy = …; return proxy;`). -/
def Tree.via (x : Name) : Tree → DTree
  | .ret e => .retVia x e
  | .ite c t e => .ite c (t.via x) (e.via x)

structure DScript where
  ex : Bool                               -- the entry point is called `FindProxyForURLEx`
  shadow : List (Helper × Val)            -- `function <helper>() { return <v>; }` at top level
  prelude : List Stmt                     -- top-level statements (run once per VM)
  body : List Stmt                        -- first statements of the entry point (run on every call)
  tree : DTree
  deriving Repr

/-- the script's own top-level function replaces the predefined helper of that name (one global
    scope); `isInNet` and `isResolvable` call `dnsResolve` by name, so replacing that one changes
    them too, which is outside the fragment. -/
def shadowHc (sh : List (Helper × Val)) (hc : Helper → List Val → Res) : Helper → List Val → Res :=
  fun h args =>
    match sh.lookup h with
    | some v => .ok v
    | none =>
      if (h == .isInNet || h == .isResolvable) && (sh.lookup Helper.dnsResolve).isSome then .unmodelled
      else hc h args

/-- loading: the prelude runs on a fresh global object -/
def loadD (hc : Helper → List Val → Res) (s : DScript) : Exec :=
  execStmts (shadowHc s.shadow hc) none [] s.prelude

/-- one call on a VM whose globals are `g`: the answer and the globals it leaves behind -/
def callD (hc : Helper → List Val → Res) (s : DScript) (g : Globals) (r : Req) : Answer × Globals :=
  match execStmts (shadowHc s.shadow hc) (some (r.url, r.host)) g s.body with
  | (g1, .ok ()) =>
    let p := evalDTree (shadowHc s.shadow hc) r.url r.host g1 s.tree
    (checkResult p.1, p.2)
  | (g1, .throw) => (.errThrow, g1)
  | (g1, .unmodelled) => (.unmodelled, g1)

/-! ### A single resolver asked one request at a time, and the pool over VMs with state -/

section Stateful
variable {ρ α σ : Type}

/-- state of one VM after the calls `rs`, in that order -/
def seqState (f : σ → ρ → α × σ) (s0 : σ) (rs : List ρ) : σ := rs.foldl (fun st r => (f st r).2) s0

/-- the answers a single resolver gives to `rs` asked one at a time -/
def seqAnswers (f : σ → ρ → α × σ) : σ → List ρ → List α
  | _, [] => []
  | st, r :: rs => (f st r).1 :: seqAnswers f (f st r).2 rs

/-- the answer to `q` of a single resolver that was asked `h` before -/
def answerAfter (f : σ → ρ → α × σ) (s0 : σ) (h : List ρ) (q : ρ) : α := (f (seqState f s0 h) q).1

def subseqs : List ρ → List (List ρ)
  | [] => [[]]
  | x :: xs => subseqs xs ++ (subseqs xs).map (x :: ·)

/-- the answers to `q` that "a single resolver on some serialisation of earlier requests" can give:
    the decidable form of the conclusion of `c14_pool_equals_single`. -/
def possibleAnswers (f : σ → ρ → α × σ) (s0 : σ) (log : List ρ) (q : ρ) : List α :=
  (subseqs log).map (fun h => answerAfter f s0 h q)

/-- the pool machine of §9 over VMs with state: `vmst v` = state of VM `v` (a fresh VM is in the
    state the script's prelude leaves), `hist v` = the requests it evaluated, `log` = all
    evaluations in the order they happened (ghost). -/
structure SState (ρ α σ : Type) where
  base : PState ρ α
  vmst : Nat → σ
  hist : Nat → List ρ
  log : List ρ

def setAt {β : Type} (m : Nat → β) (v : Nat) (b : β) : Nat → β := fun x => if x = v then b else m x

def SState.init (s0 : σ) : SState ρ α σ :=
  { base := PState.init, vmst := fun _ => s0, hist := fun _ => [], log := [] }

def sstep (f : σ → ρ → α × σ) (req : Nat → ρ) (s : SState ρ α σ) : POp → SState ρ α σ
  | .finish c =>
    match s.base.phase c with
    | .begun v =>
      match s.base.reg v with
      | some r =>
        { base := { s.base with phase := setPhase s.base.phase c (.finished v (some (f (s.vmst v) r).1)) }
          vmst := setAt s.vmst v (f (s.vmst v) r).2
          hist := setAt s.hist v (s.hist v ++ [r])
          log := s.log ++ [r] }
      | none => { s with base := { s.base with phase := setPhase s.base.phase c (.finished v none) } }
    | _ => s
  | .acquire c choice => { s with base := pstep (fun r => (f (s.vmst 0) r).1) req s.base (.acquire c choice) }
  | .beginEval c => { s with base := pstep (fun r => (f (s.vmst 0) r).1) req s.base (.beginEval c) }
  | .release c => { s with base := pstep (fun r => (f (s.vmst 0) r).1) req s.base (.release c) }
  | .gc i => { s with base := pstep (fun r => (f (s.vmst 0) r).1) req s.base (.gc i) }

def srun (f : σ → ρ → α × σ) (s0 : σ) (req : Nat → ρ) (ops : List POp) : SState ρ α σ :=
  ops.foldl (sstep f req) (SState.init s0)

end Stateful

/-! ## 11. Helpers keep no state: what earlier evaluations left behind cannot change a value

  `callHelper env h args` has no state argument: in the model a helper is a function of its
  arguments (and the injected resolver table).  The Go helpers are methods of one resolver, but
  nothing stops them from keeping *process-wide* state that all pooled VMs share (a parse cache, a
  DNS cache).  `HMemo` is such state in its most general admissible form: a table of the values of
  earlier helper calls — anybody's — that is consulted before computing.  Steps are atomic here (a
  cache behind a lock); an unsynchronised cache is a data race, which no interleaving of atomic
  steps exhibits: that is left to the pool scenario of the harness. -/

abbrev HKey := Helper × List Val
abbrev HMemo := List (HKey × Res)

def memoGet : HMemo → HKey → Option Res
  | [], _ => none
  | (k', v) :: rest, k => if k' = k then some v else memoGet rest k

/-- a helper call that consults and fills the shared table -/
def callHelperMemo (env : Env) (m : HMemo) (h : Helper) (args : List Val) : Res × HMemo :=
  match memoGet m (h, args) with
  | some v => (v, m)
  | none => (callHelper env h args, ((h, args), callHelper env h args) :: m)

/-- every entry is the value of the call it stands for -/
def HMemo.sound (env : Env) (m : HMemo) : Prop :=
  ∀ k v, memoGet m k = some v → callHelper env k.1 k.2 = v

/-- the table after the calls `ks` (by any callers, in the order they happened) -/
def memoAfter (env : Env) (ks : List HKey) : HMemo :=
  ks.foldl (fun m k => (callHelperMemo env m k.1 k.2).2) []

/-! ## 12. First use: a `New` that hands a kept VM out through an unsynchronised variable

  For comparison only (never the code's): the pool keeps the VM it built to validate the script
  (VM 0) in a variable `first`, and `sync.Pool`'s `New` — run by every caller whose `Get` finds the
  pool empty, on the caller's own goroutine, under no lock — is
  `if p := first; p != nil { first = nil; return p }`: a load and a store, two steps of the
  caller, with the other callers' steps free to fall between them.  The remaining steps are the
  pool machine's (`sstep`). -/

inductive FOp where
  | load (c : Nat)            -- `p := first`
  | take (c : Nat)            -- `first = nil; return p` — or a new VM when the load saw nil
  | op (o : POp)              -- beginEval / finish / release / gc / acquire of an idle VM
  deriving DecidableEq, Repr

structure FState (ρ α σ : Type) where
  s : SState ρ α σ
  first : Option Nat                   -- the variable
  seen : Nat → Option (Option Nat)     -- per caller: what its load saw, until it takes

section FirstUse
variable {ρ α σ : Type}

/-- VM 0 exists (built with the pool) and sits in `first` -/
def FState.init (s0 : σ) : FState ρ α σ :=
  { s := { (SState.init s0 : SState ρ α σ) with base := { (PState.init : PState ρ α) with next := 1 } }
    first := some 0
    seen := fun _ => none }

def fstep (f : σ → ρ → α × σ) (req : Nat → ρ) (st : FState ρ α σ) : FOp → FState ρ α σ
  | .load c =>
    match st.s.base.phase c, st.seen c with
    | .idle, none => { st with seen := setAt st.seen c (some st.first) }
    | _, _ => st
  | .take c =>
    match st.seen c with
    | some (some v) =>
      { s := { st.s with base := { st.s.base with phase := setPhase st.s.base.phase c (.acquired v) } }
        first := none
        seen := setAt st.seen c none }
    | some none => { st with s := sstep f req st.s (.acquire c none), seen := setAt st.seen c none }
    | none => st
  | .op o => { st with s := sstep f req st.s o }

def frun (f : σ → ρ → α × σ) (s0 : σ) (req : Nat → ρ) (ops : List FOp) : FState ρ α σ :=
  ops.foldl (fstep f req) (FState.init s0)

end FirstUse

end C14
end FwdVerif
