/-
  C18 — loop detection through the Via field (`internal/martian/header/via_modifier.go`,
  wired in by `httpspec.NewStack` ← `HTTPProxy.middlewareStack`).

  The executable part of the model is `Req.viaStep` inside `Req.processRequest` (Model/Req.lean).
  This file adds the vocabulary the property is stated in:

    * the Via chain as a list of elements (`viaElements`: every Via field line, joined with ", "
      and split at commas — what the code reads too: `strings.Join(Header.Values("Via"), ", ")`),
    * the element an instance emits (`ownElement` = `<proto> <tag>`), the tag shape
      (`tagShape` = name ++ "-" ++ 20 lower-case hex digits),
    * the decomposition of `processRequest` around the Via modifier (`preVia` / `postVia`),
    * the composition of instances into a forwarding loop (`reinject`, `runLoop`),
    * the decidable form of the property's conclusion (`holdsSpec`) used by the `holds` verb,
    * CONNECT requests (`Req.processConnect`): the head an upstream HTTP(S) proxy receives
      (`connectHead`), its delivery to the next instance (`reinjectConnect`, `runConnectLoop`), the
      upstream scheme as a parameter (`httpsify`) and the variant that forgets the header for `https`,
    * instance identity `id : ι → Tag` (`instCfg`).

  Core-only.
-/
import FwdVerif.Model.Req

namespace FwdVerif
namespace C18

open Ascii Req
open C16 (HMap goDel goSet goAdd Rule applyRules prefixFold)

/-! ### the Via chain -/

def viaName : Bytes := bs "Via"

/-- the Via field lines of a message in wire order (field names are case-insensitive) -/
def viaLines (fs : List (Bytes × Bytes)) : List Bytes :=
  (fs.filter fun f => eqFold f.1 viaName).map (·.2)

/-- the first Via field line, "" when there is none (what `Header.Get("Via")` would yield; the
    modifier reads all lines, `viaChain (viaLines fs)`) -/
def firstVia (fs : List (Bytes × Bytes)) : Bytes := (viaLines fs).headD []

/-- RFC 7230 §3.2.2: several field lines of a list-valued field = one line joined with ", " -/
def viaChain (lines : List Bytes) : Bytes := joinWith (bs ", ") lines

/-- elements of one comma-separated value: split at commas, OWS-trimmed, empty elements dropped
    (RFC 7230 §7 allows and ignores them).  Commas inside comments are not treated specially. -/
def elementsOf (v : Bytes) : List Bytes :=
  ((splitComma v).map trimOWS).filter fun e => !e.isEmpty

/-- the chain of Via elements of a message: ALL field lines count -/
def viaElements (lines : List Bytes) : List Bytes := elementsOf (viaChain lines)

/-- the element this instance emits: `1.0 <tag>` / `1.1 <tag>` as the client spoke -/
def ownElement (tag : Bytes) (minor : Nat) : Bytes := protoText minor ++ [32] ++ tag

/-- an element this instance may have emitted earlier (either protocol version) -/
def isOwnElement (tag e : Bytes) : Bool := e == ownElement tag 0 || e == ownElement tag 1

def isLowerHex (c : UInt8) : Bool := isDigit c || (97 ≤ c && c ≤ 102)

/-- `NewViaModifier`: tag = configured name ++ "-" ++ hex of 10 random bytes -/
def tagShape (name tag : Bytes) : Bool :=
  name.isPrefixOf tag &&
    (match tag.drop name.length with
     | 45 :: sfx => sfx.length == 20 && sfx.all isLowerHex
     | _ => false)

/-! ### hypotheses about the configuration and the request (decidable) -/

/-- no `--header` rule addresses the Via field: no rule named `via` (any case) and no `-prefix*`
    rule whose prefix matches it -/
def ruleAvoidsVia : Rule → Bool
  | .removePrefix p => !prefixFold p viaName
  | r => lower r.name != lower viaName

def rulesAvoidVia (rs : List Rule) : Bool := rs.all ruleAvoidsVia

/-- the request nominates Via as hop-by-hop (`Connection: via`): `removeHopByHop` then deletes it
    before the Via modifier runs -/
def viaNominated (fs : List (Bytes × Bytes)) : Bool :=
  (hget (toHeader fs) (bs "Connection")).any fun vs =>
    (splitComma vs).any fun v => canonicalKey (trimSpace v) == viaName

/-! ### `processRequest` cut around the Via modifier -/

structure PreVia where
  g : GoReq                 -- the request after URL-host / scheme fix-up (header as read)
  upType : Bytes
  h3 : HMap                 -- the header map the Via modifier receives
  deriving Repr

/-- everything `processRequest` does before `ViaModifier.ModifyRequest`; `.error o` = the request
    ended with outcome `o` (unreadable / security refusal / bad framing) before reaching it -/
def preVia (cfg : Cfg) (ctx : Ctx) (r : Request) : Except Outcome PreVia :=
  match readRequest r with
  | .error _ => .error .unreadable
  | .ok g0 =>
    let urlHost := if g0.urlHost.isEmpty then g0.host else g0.urlHost
    let scheme :=
      if g0.scheme.isEmpty then
        let p := goGet g0.header (bs "X-Forwarded-Proto")
        if !p.isEmpty then p else if ctx.secure then bs "https" else bs "http"
      else g0.scheme
    let g := { g0 with urlHost := urlHost, scheme := scheme }
    match securityCheck cfg g with
    | some why => .error (.refused why.status why)
    | none =>
      let h1 := removeHopByHop g.header
      let h2 := forwarded ctx { g with header := h1 }
      match badFraming h2 with
      | none => .error .badRequest
      | some h3 => .ok { g := g, upType := upgradeType g.header, h3 := h3 }

/-- header map handed to the transport, given what the Via modifier produced -/
def finalHeader (cfg : Cfg) (upType : Bytes) (h4 : HMap) : HMap :=
  let h5 := applyRules cfg.rules h4
  let h6 := match cfg.siteCred with
    | some a => if (goGet h5 (bs "Authorization")).isEmpty then goSet h5 (bs "Authorization") a else h5
    | none => h5
  let h7 := if (HMap.get h6 (bs "User-Agent")).isNone then goSet h6 (bs "User-Agent") [] else h6
  if upType.isEmpty then h7
  else goSet (goSet h7 (bs "Connection") (bs "Upgrade")) (bs "Upgrade") upType

/-- everything `processRequest` does after the Via modifier let the request pass -/
def postVia (cfg : Cfg) (p : PreVia) (h4 : HMap) : Outcome :=
  let gOut := { p.g with header := finalHeader cfg p.upType h4 }
  match cfg.upstream with
  | .none => .forwarded (.direct p.g.urlHost) (writeRequest (.direct p.g.urlHost) none gOut)
  | .http hp auth =>
    if p.g.scheme == bs "http" then .forwarded (.proxy hp) (writeRequest (.proxy hp) auth gOut)
    else .forwarded (.direct p.g.urlHost) (writeRequest (.direct p.g.urlHost) none gOut)
  | .https hp auth =>
    if p.g.scheme == bs "http" then .forwarded (.tlsProxy hp) (writeRequest (.tlsProxy hp) auth gOut)
    else .forwarded (.direct p.g.urlHost) (writeRequest (.direct p.g.urlHost) none gOut)
  | .socks5 hp _ => .forwarded (.socks hp) (writeRequest (.socks hp) none gOut)
  | .other sc hp auth =>
    if p.g.scheme == bs "http" then .forwarded (.otherProxy sc hp) (writeRequest (.otherProxy sc hp) auth gOut)
    else .forwarded (.direct p.g.urlHost) (writeRequest (.direct p.g.urlHost) none gOut)
  | .failed => .routeError

/-- "no other refusal": the request reaches the Via modifier -/
def reachesVia (cfg : Cfg) (ctx : Ctx) (r : Request) : Bool :=
  match preVia cfg ctx r with
  | .ok _ => true
  | .error _ => false

/-! ### outcomes, observed from outside -/

def isForwarded : Outcome → Bool
  | .forwarded _ _ => true
  | _ => false

def isLoopRefusal : Outcome → Bool
  | .refused 400 .loop => true
  | _ => false

/-- values of the field `name` (lower-case) in a message as the next hop receives it -/
def outValues (o : OutMsg) (name : Bytes) : List Bytes :=
  (o.fields.filter fun e => e.1 == name).flatMap (·.2)

/-- Via field lines the next hop receives -/
def outVia (o : OutMsg) : List Bytes := outValues o (lower viaName)

/-! ### composing instances: the message one instance sends is the request the next one reads -/

/-- split at the first `?` -/
def splitQuery (s : Bytes) : Bytes × Option Bytes :=
  let p := s.takeWhile (fun c => c != 63)
  if p.length < s.length then (p, some (s.drop (p.length + 1))) else (p, none)

/-- `scheme://authority/path…` → (scheme, authority, rest) -/
def splitAbsolute (t : Bytes) : Option (Bytes × Bytes × Bytes) :=
  let scheme := t.takeWhile (fun c => c != 58)
  match t.drop scheme.length with
  | 58 :: 47 :: 47 :: rest =>
    let auth := rest.takeWhile (fun c => c != 47 && c != 63)
    some (scheme, auth, rest.drop auth.length)
  | _ => none

/-- The request an instance reads when the message `o` (as written by the previous instance's
    transport, always HTTP/1.1) is delivered to its listener: origin-form stays origin-form,
    the absolute-form written to an upstream proxy stays absolute-form; every value is one field
    line. -/
def reinject (o : OutMsg) : Request :=
  let fields := o.fields.flatMap fun e => e.2.map fun v => (e.1, v)
  match o.target with
  | 47 :: _ =>
    let (p, q) := splitQuery o.target
    { method := o.method, minor := 1, target := .origin, path := p, query := q, fields := fields }
  | _ =>
    match splitAbsolute o.target with
    | some (s, a, rest) =>
      let (p, q) := splitQuery rest
      { method := o.method, minor := 1, target := .absolute s a,
        path := if p.isEmpty then [47] else p, query := q, fields := fields }
    | none =>
      { method := o.method, minor := 1, target := .origin, path := o.target, query := none, fields := fields }

/-- A forwarding loop: instance `i mod n` of `insts` processes the request; when it forwards, the
    message is delivered to the next instance.  Returns the outcome of every hop (at most `fuel`). -/
def runLoop (insts : List (Cfg × Ctx)) : Nat → Nat → Request → List Outcome
  | 0, _, _ => []
  | fuel + 1, i, r =>
    match insts[i % insts.length]? with
    | none => []
    | some (cfg, ctx) =>
      match processRequest cfg ctx r with
      | .forwarded hop out => .forwarded hop out :: runLoop insts fuel (i + 1) (reinject out)
      | o => [o]

/-! ### the property's conclusion, evaluated on what an implementation did (`holds` verb) -/

inductive Observed where
  | refused (status : Nat)              -- answered by the proxy itself, nothing sent upstream
  | forwarded (via : List Bytes)        -- Via field lines received by the next hop
  deriving Repr, DecidableEq

/-- what an outside observer sees of an outcome (`none`: not an observation C18 speaks about) -/
def observe : Outcome → Option Observed
  | .forwarded _ out => some (.forwarded (outVia out))
  | .refused st _ => some (.refused st)
  | _ => none

inductive Verdict where
  | ok
  | loopNotRefused        -- own element in the chain, but the request was forwarded / other status
  | foreignRefused        -- no element contains the tag, yet 400
  | notAppended           -- forwarded, but the chain is not `old elements ++ [proto tag]`
  deriving Repr, DecidableEq

/-- where a chain stands with respect to an instance: it holds an element the instance emitted
    (`own`), only an element that embeds the tag (`embeds`), or nothing with the tag (`clean`) -/
inductive ChainClass where
  | own | embeds | clean
  deriving Repr, DecidableEq

def chainClass (tag : Bytes) (lines : List Bytes) : ChainClass :=
  let els := viaElements lines
  if els.any (isOwnElement tag) then .own
  else if els.any (isInfix tag) then .embeds
  else .clean

/-- SPEC (full strength, every Via line counts): a chain that contains an element emitted by this
    instance ⇒ 400 and nothing upstream; a chain in which no element contains the tag ⇒ forwarded
    with exactly one element `proto tag` appended after the existing ones.  An element that merely
    embeds the tag (comment, longer pseudonym) may be answered either way (see `c18_substring_iff_element`). -/
def holdsSpec (tag : Bytes) (minor : Nat) (linesIn : List Bytes) (obs : Observed) : Verdict :=
  let els := viaElements linesIn
  let own := els.any (isOwnElement tag)
  let embeds := els.any (isInfix tag)
  match obs with
  | .refused st =>
    if own then (if st == 400 then .ok else .loopNotRefused)
    else if embeds then .ok
    else if st == 400 then .foreignRefused else .ok      -- other refusals are not C18's business
  | .forwarded out =>
    if own then .loopNotRefused
    else if viaElements out == els ++ [ownElement tag minor] then .ok
    else .notAppended

/-! ### CONNECT: the head an upstream proxy receives, and loops of CONNECT requests

  `Req.processConnect` is the executable model of `proxyConn.handleConnectRequest`; a CONNECT that is
  forwarded to an upstream HTTP or HTTPS proxy goes out as ONE message head (`dialviaConnectHead`:
  the clone of the modified client header — `d.ProxyConnectHeader = req.Header.Clone()` in
  `connectHTTP`, for BOTH proxy schemes); a direct dial and a SOCKS5 upstream send no HTTP message
  at all (the SOCKS request names the authority only — no header can travel there). -/

/-- the CONNECT head put on the connection to the upstream proxy, if the CONNECT was forwarded as an
    HTTP message (`none`: refused, intercepted, direct dial, SOCKS5, route error) -/
def connectHead : ConnectOutcome → Option OutMsg
  | .tunnel a => a.sent.head?.map (·.msg)
  | _ => none

/-- an upstream connection is opened on behalf of the CONNECT -/
def isTunnel : ConnectOutcome → Bool
  | .tunnel _ => true
  | _ => false

/-- the CONNECT passed the modifier stack: a tunnel is opened or the connection is intercepted -/
def connectPassed : ConnectOutcome → Bool
  | .tunnel _ | .mitm => true
  | _ => false

def isConnectLoopRefusal : ConnectOutcome → Bool
  | .refused 400 .loop => true
  | _ => false

/-- header of a CONNECT as the Via modifier receives it; `.error o`: the request ended with `o`
    before reaching the modifier -/
def preViaConnect (cfg : Cfg) (c : ConnectReq) : Except ConnectOutcome (GoReq × HMap) :=
  match readRequest c.asRequest with
  | .error _ => .error .unreadable
  | .ok g0 =>
    let g := { g0 with header := goDel g0.header (bs "X-Martian-Terminate-Tls") }
    match securityCheck cfg g with
    | some why => .error (.refused why.status why)
    | none =>
      match badFraming (removeHopByHop g.header) with
      | none => .error .badRequest
      | some h2 => .ok (g, h2)

/-- "no other refusal": the CONNECT reaches the Via modifier -/
def connectReachesVia (cfg : Cfg) (c : ConnectReq) : Bool :=
  match preViaConnect cfg c with
  | .ok _ => true
  | .error _ => false

/-- the header handed to `martian.Proxy.connect`, given what the Via modifier produced -/
def connectFinalHeader (cfg : Cfg) (h3 : HMap) : HMap :=
  let h4 := applyRules cfg.connectRules h3
  if (HMap.get h4 (bs "User-Agent")).isNone then goSet h4 (bs "User-Agent") [] else h4

/-- The CONNECT request the next proxy reads when the head `o` is delivered to its listener (the
    dialer always writes HTTP/1.1; every value is one field line). -/
def reinjectConnect (o : OutMsg) : ConnectReq :=
  { authority := o.target, minor := 1, fields := o.fields.flatMap fun e => e.2.map fun v => (e.1, v) }

/-- A loop of CONNECT requests over upstream-proxy links: instance `i mod n` handles the CONNECT;
    when it forwards a head to its upstream proxy, that head is delivered to the next instance.
    `proc` is the CONNECT handler (the code: `processConnect`). A tunnel without a head (direct
    dial, SOCKS5) ends the sequence of CONNECT messages. -/
def runConnectLoopWith (proc : Cfg → Ctx → ConnectReq → ConnectOutcome) (insts : List (Cfg × Ctx)) :
    Nat → Nat → ConnectReq → List ConnectOutcome
  | 0, _, _ => []
  | fuel + 1, i, c =>
    match insts[i % insts.length]? with
    | none => []
    | some (cfg, ctx) =>
      let o := proc cfg ctx c
      match connectHead o with
      | some head => o :: runConnectLoopWith proc insts fuel (i + 1) (reinjectConnect head)
      | none => [o]

def runConnectLoop (insts : List (Cfg × Ctx)) : Nat → Nat → ConnectReq → List ConnectOutcome :=
  runConnectLoopWith processConnect insts

/-- NOT the code — the variant in which the dialer for an `https` upstream proxy is not handed the
    client's header (`ProxyConnectHeader` set in the plain-`http` branch only): the head sent to an
    HTTPS proxy then consists of the dialer's own fields and `GetProxyConnectHeader` alone. -/
def connectDispatchNoHdrHttps (cfg : Cfg) (authority : Bytes) (h : HMap) : ConnectOutcome :=
  match cfg.mitm, cfg.upstream with
  | false, .https hp auth =>
    .tunnel { via := .https, hopAddr := hp,
              sent := [⟨.proxy, true, dialviaConnectHead authority auth [] (connectExtra cfg)⟩] }
  | _, _ => connectDispatch cfg authority h

def processConnectNoHdrHttps (cfg : Cfg) (_ctx : Ctx) (c : ConnectReq) : ConnectOutcome :=
  match readRequest c.asRequest with
  | .error _ => .unreadable
  | .ok g0 =>
    let g := { g0 with header := goDel g0.header (bs "X-Martian-Terminate-Tls") }
    match connectModified cfg g with
    | .error o => o
    | .ok h => connectDispatchNoHdrHttps cfg c.authority h

/-! ### the upstream scheme as a parameter -/

/-- the same configuration with every `http` upstream proxy reached over TLS instead -/
def httpsify (cfg : Cfg) : Cfg :=
  match cfg.upstream with
  | .http hp auth => { cfg with upstream := .https hp auth }
  | _ => cfg

/-- an outcome with the hop (where the message is sent) forgotten: what is sent stays -/
def eraseHop : Outcome → Outcome
  | .forwarded _ out => .forwarded (.direct []) out
  | o => o

/-- a CONNECT outcome with the dialled connection forgotten, the head (if any) kept -/
inductive ConnectView where
  | refused (status : Nat) (why : Refusal)
  | badRequest | unreadable | mitm | routeError
  | tunnelHead (head : OutMsg)
  | tunnelRaw
  deriving Repr

def connectView : ConnectOutcome → ConnectView
  | .refused st why => .refused st why
  | .badRequest => .badRequest
  | .unreadable => .unreadable
  | .mitm => .mitm
  | .routeError => .routeError
  | .tunnel a => match a.sent.head? with
    | some s => .tunnelHead s.msg
    | none => .tunnelRaw

/-! ### instance identity

  The element an instance emits is `proto ++ " " ++ id i` where `id : Instance → Tag` is fixed when the
  instance is constructed (`header.NewViaModifier` draws 10 random bytes per modifier, i.e. per
  `NewHTTPProxy` call).  What the code must guarantee is that `id` is INJECTIVE over the instances
  constructed in one process (up to the 2⁻⁸⁰ collision chance of the random suffix): the theorems of
  section H take it as a hypothesis, and `c18_config_derived_tag_witness` shows that an identifier
  that is a function of the configuration value (two instances built from one config share it)
  refuses a legitimate chain. -/

/-- the request pipeline configuration of instance `i` of a fleet: the shared settings `base` with
    the instance's own identifier -/
def instCfg {ι : Type} (id : ι → Bytes) (base : ι → Cfg) (i : ι) : Cfg := { base i with tag := id i }

end C18
end FwdVerif
