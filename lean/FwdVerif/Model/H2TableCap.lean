/-
  C10 — which dynamic table size updates the relay's HPACK decoders accept (relay.go `newRelay`,
  `updateTableSize`, `decodeFull`; x/net `hpack.Decoder.parseDynamicTableSizeUpdate`).  Core-only.

  HPACK stays opaque.  What is modelled is the one comparison that can refuse a well-formed block: a
  header block may begin with dynamic table size updates (RFC 7541 §4.2, §6.3); the decoder refuses an
  update above its `allowedMaxSize` ("dynamic table size update too large"), `decodeFull` returns the
  error, `processFrame` returns it and the direction stops — the block is never delivered.  The sender
  X of a direction X→Y may signal any size up to the SETTINGS_HEADER_TABLE_SIZE of Y that is in force
  *for X*: the last one X has acknowledged.  The relay applies a SETTINGS frame of Y the moment it reads
  it, X acknowledges later; blocks X encoded in between are governed by an older value.  So the
  decoder has to accept every update that is ≤ *any* value X was ever allowed — `Dir.decoderCap` is
  `math.MaxUint32` in the unchanged tree (`newRelay` lifts it, nothing lowers it).

  `capFollows = true` is the variant in which `updateTableSize` also sets the limit to each relayed
  value and `newRelay` leaves it at the decoder's default (4096).
-/
import FwdVerif.Model.H2Relay

namespace FwdVerif
namespace H2

variable {α : Type}

/-- `size > uint64(d.dynTab.allowedMaxSize)` ⇒ "dynamic table size update too large" -/
def Dir.acceptsUpdate (d : Dir α) (u : Nat) : Bool := decide (u ≤ d.decoderCap)

/-- every size update a block begins with passes -/
def Dir.acceptsBlock (d : Dir α) (us : List Nat) : Bool := us.all d.acceptsUpdate

/-- the frame completes a header block: `decodeFull` runs -/
def Op.completesBlock : Op α → Bool
  | .headers _ _ eh _ _ _ => eh
  | .continuation _ eh _ _ => eh
  | .pushPromise _ _ eh _ _ => eh
  | _ => false

/-- the SETTINGS_HEADER_TABLE_SIZE values of a frame, in order -/
def tableSizesOf : Op α → List Nat
  | .settings kvs => (kvs.filter fun kv => kv.1 == settingHeaderTableSize).map (·.2)
  | _ => []

/-- the variant's `updateTableSize`: the limit becomes each relayed value in turn (the last one stays) -/
def Dir.capAfter (o : Dir α) (capFollows : Bool) (op : Op α) : Dir α :=
  if capFollows then
    match (tableSizesOf op).getLast? with
    | some v => { o with decoderCap := v }
    | none => o
  else o

/-- one iteration of the `relayFrames` loop with the size updates `us` the completed block begins
    with (`[]` for every other frame): a refused update is an error of `processFrame` — nothing is
    queued or written, the direction stops.  Otherwise `H2.step`. -/
def stepSized (capFollows : Bool) (d o : Dir α) (ord : Nat → List Nat) (op : Op α) (us : List Nat) :
    Dir α × Dir α × Out α :=
  if !d.dead && orderOk d op && op.completesBlock && !d.acceptsBlock us then
    ({ d with dead := true }, o, { fatal := true })
  else
    let x := step d o ord op
    (x.1, if d.dead || !orderOk d op then x.2.1 else x.2.1.capAfter capFollows op, x.2.2)

/-- a scheduled frame with the size updates its block begins with -/
structure EvS (α : Type) where
  ev : Ev α
  updates : List Nat := []

def Relay.stepSized (capFollows : Bool) (r : Relay α) (e : EvS α) : Relay α × Out α :=
  match e.ev.side with
  | .client => let x := H2.stepSized capFollows r.cs r.sc e.ev.ord e.ev.op e.updates; ({ cs := x.1, sc := x.2.1 }, x.2.2)
  | .server => let x := H2.stepSized capFollows r.sc r.cs e.ev.ord e.ev.op e.updates; ({ cs := x.2.1, sc := x.1 }, x.2.2)

def Relay.runSized (capFollows : Bool) (r : Relay α) : List (EvS α) → Relay α × List (Side × Op α × Out α)
  | [] => (r, [])
  | e :: es =>
    let x := r.stepSized capFollows e
    let y := Relay.runSized capFollows x.1 es
    (y.1, (e.ev.side, e.ev.op, x.2) :: y.2)

/-- the variant's start: `hpack.NewDecoder(4096)` with the limit not lifted -/
def Relay.startCap (capFollows : Bool) (fixCredit fixEndStream : Bool) : Relay α :=
  if capFollows then
    { cs := { fixCredit := fixCredit, fixEndStream := fixEndStream, decoderCap := 4096 },
      sc := { fixCredit := fixCredit, fixEndStream := fixEndStream, decoderCap := 4096 } }
  else Relay.start fixCredit fixEndStream

/-- every table size the sender on `side` was ever allowed: the protocol default and every
    SETTINGS_HEADER_TABLE_SIZE value the other endpoint has sent so far -/
def allowedEver (side : Side) : List (EvS α) → List Nat
  | [] => [4096]
  | e :: es => (if e.ev.side ≠ side then tableSizesOf e.ev.op else []) ++ allowedEver side es

/-- setting values are 32-bit on the wire (RFC 7540 §6.5.1) -/
def wireSettings (hist : List (EvS α)) : Prop :=
  ∀ e ∈ hist, ∀ v ∈ tableSizesOf e.ev.op, v < 4294967296

end H2
end FwdVerif
