/-
  C04 — access control: the pieces that are specific to this property and not already part of the
  request pipeline (`Model/Req.lean`: `securityCheck`, `isLocalhost`, `parseBasicAuth`,
  `errorHeadersBuilt/Received`, `processRequest`, `processConnect`, `processConnection`).

  Mirrors ruleset/timeframe.go (`TimeFrameEntry.Match`), middleware/time_frame_allow.go
  (`TimeFrameAllows`) and the way `middlewareStack` installs the four controls.
  Core-only.
-/
import FwdVerif.Model.Req

namespace FwdVerif
namespace C04

open Req

/-- `ruleset.TimeFrameEntry`: weekday 0-6 (Sunday = 0), hours in the 24 h system -/
structure TimeFrame where
  weekday : Nat
  hourStart : Nat
  hourEnd : Nat
  deriving Repr, DecidableEq

/-- `TimeFrameEntry.Match` on the local time's weekday and hour -/
def TimeFrame.matches (t : TimeFrame) (weekday hour : Nat) : Bool :=
  weekday == t.weekday && t.hourStart ≤ hour && hour < t.hourEnd

/-- the time-frame control as `middlewareStack` installs it: absent when no entry is configured,
    otherwise `TimeFrameAllows` -/
def timeAllowed (entries : List TimeFrame) (weekday hour : Nat) : Bool :=
  entries.isEmpty || entries.any fun t => t.matches weekday hour

/-! ### the local wall clock

`TimeFrameAllows` hands `time.Now()` to `Match`; `Now()` carries `time.Local`, and `Weekday()` /
`Hour()` of a `time.Time` are those of the instant's wall clock *in the location the value carries*.
An instant is `unix` seconds since 1970-01-01T00:00:00Z (negative before), the zone is `offset`
seconds east of UTC at that instant (any integer: whole hours, :30/:45 zones, historical LMT). -/

/-- `Time.Weekday()`: day number of the local wall clock, Sunday = 0 (1970-01-01 was a Thursday) -/
def localWeekday (unix offset : Int) : Nat := (((unix + offset) / 86400 + 4) % 7).toNat

/-- `Time.Hour()`: hour of the local wall clock, 0-23 -/
def localHour (unix offset : Int) : Nat := (((unix + offset) % 86400) / 3600).toNat

/-- `TimeFrameEntry.Match(t)` for `t` = instant `unix` carried in a zone `offset` seconds east -/
def TimeFrame.matchesAt (t : TimeFrame) (unix offset : Int) : Bool :=
  t.matches (localWeekday unix offset) (localHour unix offset)

/-- the time-frame control at instant `unix` on a machine whose local zone is `offset` seconds east -/
def timeAllowedAt (entries : List TimeFrame) (unix offset : Int) : Bool :=
  timeAllowed entries (localWeekday unix offset) (localHour unix offset)

/-! ### what a `Proxy-Authorization` value says (RFC 7617), independent of `parseBasicAuth` -/

/-- the credentials string carried by a field value: scheme `Basic` in any case, one space, the
    rest strict standard base64 -/
def basicPayload (v : Bytes) : Option Bytes :=
  if v.length < 6 || !Ascii.eqFold (v.take 6) (bs "Basic ") then none else b64Decode (v.drop 6)

/-- user-id and password of a credentials string: everything before / after the FIRST colon -/
def splitFirstColon : Bytes → Option (Bytes × Bytes)
  | [] => none
  | c :: cs => if c == 58 then some ([], cs) else (splitFirstColon cs).map fun up => (c :: up.1, up.2)

/-- the four controls in the order `middlewareStack` adds them to `topg` -/
inductive Control where
  | timeFrame | basicAuth | localhost | denyDomains
  deriving Repr, DecidableEq

def Control.refusal : Control → Refusal
  | .timeFrame => .timeFrame | .basicAuth => .auth | .localhost => .localhost | .denyDomains => .denied

def order : List Control := [.timeFrame, .basicAuth, .localhost, .denyDomains]

/-- credentials check of the basic-auth control on the value `Header.Get("Proxy-Authorization")`
    returns (the first field line's value; "" when absent) -/
def authenticated (user pass : Bytes) (firstValue : Bytes) : Bool :=
  match parseBasicAuth firstValue with
  | some (u, p) => !firstValue.isEmpty && u == user && p == pass
  | none => false

/-- does an enabled control reject a request whose URL host name is `hn` and whose first
    Proxy-Authorization value is `pa`? (`false` for a control that is not enabled) -/
def Control.fails (cfg : Cfg) (hn pa : Bytes) : Control → Bool
  | .timeFrame => !cfg.timeAllowed
  | .basicAuth => match cfg.basicAuth with
    | none => false
    | some (u, p) => !authenticated u p pa
  | .localhost => cfg.denyLocalhost && isLocalhost cfg hn
  | .denyDomains => cfg.denyExact.contains hn || domMatch cfg.denyRules hn

/-- the first control, in the fixed order, that rejects -/
def firstFailing (cfg : Cfg) (hn pa : Bytes) : Option Control :=
  order.find? (Control.fails cfg hn pa)

/-- what the controls look at in a non-CONNECT request: the URL host name (the authority of an
    absolute-form target, else the Host field; port and brackets stripped) and the value
    `Header.Get("Proxy-Authorization")` returns (first field line, any spelling of the name) -/
def requestView (r : Request) : Option (Bytes × Bytes) :=
  match readRequest r with
  | .error _ => none
  | .ok g0 =>
    some (hostname (if g0.urlHost.isEmpty then g0.host else g0.urlHost), goGet g0.header (bs "Proxy-Authorization"))

/-- the same for a CONNECT request (host name = request-target authority without port) -/
def connectView (c : ConnectReq) : Option (Bytes × Bytes) :=
  match readRequest c.asRequest with
  | .error _ => none
  | .ok g0 =>
    some (hostname g0.urlHost, goGet (C16.goDel g0.header (bs "X-Martian-Terminate-Tls")) (bs "Proxy-Authorization"))

def itemView : ConnItem → Option (Bytes × Bytes)
  | .req r => requestView r
  | .connect c => connectView c

/-! ### the localhost names of one proxy instance (`NewHTTPProxy`, `hostsfile.LocalhostAliases`)

`newHTTPProxy` starts `hp.localhost` with three built-in names; `NewHTTPProxy` appends the names the
machine's hosts file gives to loopback addresses, each lower-cased; `isLocalhost` lower-cases the host
and looks it up in that list (a linear scan: the list is in no particular order and may hold a name
several times). The hosts file is part of the process environment: it is a parameter here. -/

/-- one line of the hosts file: the address as written and the names that follow it -/
structure HostsRecord where
  ip : Bytes
  names : List Bytes
  deriving Repr, DecidableEq

/-- `hostsfile.LocalhostAliases`: the names of the records whose address `IsLoopback()`, as the file
    spells them (the function also sorts and de-duplicates them, which nothing below depends on) -/
def localhostAliases (recs : List HostsRecord) : List Bytes :=
  (recs.filter fun r => isLoopbackLiteral r.ip).flatMap fun r => r.names

/-- `hp.localhost` as `newHTTPProxy` initialises it -/
def builtinLocalhost : List Bytes := [bs "localhost", bs "0.0.0.0", bs "::"]

/-- `hp.localhost` after `NewHTTPProxy`: the built-in names, then the aliases lower-cased -/
def hpLocalhost (aliases : List Bytes) : List Bytes := builtinLocalhost ++ aliases.map Ascii.lower

/-- `HTTPProxy.isLocalhost` of an instance constructed on a machine whose hosts file has the loopback
    aliases `aliases` (as spelt there) -/
def isLocalhostOf (aliases : List Bytes) (host : Bytes) : Bool := isLocalhostNames (hpLocalhost aliases) host

/-! ### reading the hosts file: all or nothing

`hostsfile.LocalhostAliases` opens the file `github.com/kevinburke/hostsfile/lib.Location` names and hands
it to that library's `Decode`: a `bufio.Scanner` over the lines (a line of 64 KiB or more ends the scan
with `ErrTooLong`), each line `strings.TrimSpace`d; empty lines and lines starting with `#` carry no
record; every other line is `strings.Fields`: fewer than two fields is an error (`invalid hostsfile
entry`: an address without a name, a lone name), the first field goes through `net.ResolveIPAddr` (an IP
literal of `netip.ParseAddr`, an IPv6 one possibly with a `%zone`; anything else is looked up as a host
name, which the model does not follow: such lines are outside its domain), the other fields up to the first
one starting with `#` are the names. **On the first line it cannot read `Decode` returns an EMPTY
`Hostsfile` and the error** — wherever the line is, whatever was read before it. `LocalhostAliases`
returns that error and `NewHTTPProxy` fails with it: a proxy instance exists only for a hosts file that
was read completely. The white space is the ASCII part of `unicode.IsSpace` (the generator writes no other
space characters); a byte order mark is not white space, so it is part of the first field. -/

/-- where the hosts file comes from -/
inductive HostsSource where
  /-- `os.Open` fails (no such file, no permission) -/
  | missing
  /-- the file opens and reading it fails (a directory, an I/O error) -/
  | unreadable
  | text (t : Bytes)
  deriving Repr, DecidableEq

/-- why `hostsfile.LocalhostAliases` fails -/
inductive HostsError where
  | cannotOpen | cannotRead
  /-- `bufio.Scanner: token too long` -/
  | tooLong
  /-- `invalid hostsfile entry`: fewer than two fields -/
  | entry
  /-- the first field is not an address -/
  | address
  deriving Repr, DecidableEq

def HostsError.name : HostsError → String
  | .cannotOpen => "open" | .cannotRead => "read" | .tooLong => "too-long" | .entry => "entry" | .address => "address"

/-- `bufio.MaxScanTokenSize`: a line (without its `\n`, with its `\r`) of this many bytes ends the scan -/
def hostsMaxToken : Nat := 65536

/-- `unicode.IsSpace`, ASCII part -/
def isHostsSpace (c : UInt8) : Bool := c == 9 || c == 10 || c == 11 || c == 12 || c == 13 || c == 32

def hostsFieldsGo (cur : Bytes) (acc : List Bytes) : Bytes → List Bytes
  | [] => (if cur.isEmpty then acc else cur.reverse :: acc).reverse
  | c :: cs =>
    if isHostsSpace c then hostsFieldsGo [] (if cur.isEmpty then acc else cur.reverse :: acc) cs
    else hostsFieldsGo (c :: cur) acc cs

/-- `strings.Fields` -/
def hostsFields (s : Bytes) : List Bytes := hostsFieldsGo [] [] s

/-- the lines of the text (split at `\n`; the piece after the last `\n` is a line as well — when it is
    empty the scanner does not deliver it, and an empty line carries nothing) -/
def hostsLines : Bytes → List Bytes
  | [] => [[]]
  | c :: cs =>
    if c == 10 then [] :: hostsLines cs
    else match hostsLines cs with
      | l :: ls => (c :: l) :: ls
      | [] => [[c]]

/-- the first field as an address: an IP literal (`netip.ParseAddr`), an IPv6 one possibly followed by
    `%` and a non-empty zone; the address without the zone (`IsLoopback` does not look at the zone) -/
def hostsAddr (a : Bytes) : Option Bytes :=
  match a.find? (fun c => c == 46 || c == 58 || c == 37) with
  | some 58 =>
    let ip := a.takeWhile (· != 37)
    if a.contains 37 && ((a.dropWhile (· != 37)).drop 1).isEmpty then none
    else if (parseIP ip).isSome then some ip else none
  | _ => if (parseIP a).isSome then some a else none

/-- one line of the file: an error, nothing (blank, comment) or a record -/
def readHostsLine (maxTok : Nat) (raw : Bytes) : Except HostsError (Option HostsRecord) :=
  if raw.length ≥ maxTok then .error .tooLong else
  match trimSpace raw with
  | [] => .ok none
  | c :: rest =>
    if c == 35 then .ok none else
    match hostsFields (c :: rest) with
    | a :: n :: ns =>
      match hostsAddr a with
      | some ip => .ok (some { ip := ip, names := (n :: ns).takeWhile fun x => x.head? != some 35 })
      | none => .error .address
    | _ => .error .entry

/-- `Decode` over the lines: the first line that cannot be read ends it, and nothing is kept -/
def decodeHostsLines (maxTok : Nat) : List Bytes → Except HostsError (List HostsRecord)
  | [] => .ok []
  | l :: ls =>
    match readHostsLine maxTok l with
    | .error e => .error e
    | .ok r? =>
      match decodeHostsLines maxTok ls with
      | .error e => .error e
      | .ok rs => .ok (match r? with | some r => r :: rs | none => rs)

def decodeHostsWith (maxTok : Nat) (t : Bytes) : Except HostsError (List HostsRecord) :=
  decodeHostsLines maxTok (hostsLines t)

/-- `hostsfile.Decode` on the text of the file -/
def decodeHosts (t : Bytes) : Except HostsError (List HostsRecord) := decodeHostsWith hostsMaxToken t

/-- the records a reader that goes line by line and skips what it cannot read would see (what the
    machine's resolver makes of the file): the yardstick for "every loopback alias of the file" -/
def looseRecords (maxTok : Nat) (lines : List Bytes) : List HostsRecord :=
  lines.filterMap fun l =>
    match readHostsLine maxTok l with
    | .ok (some r) => some r
    | _ => none

def hpLocalhostOfWith (maxTok : Nat) : HostsSource → Except HostsError (List Bytes)
  | .missing => .error .cannotOpen
  | .unreadable => .error .cannotRead
  | .text t =>
    match decodeHostsWith maxTok t with
    | .error e => .error e
    | .ok recs => .ok (hpLocalhost (localhostAliases recs))

/-- the outcome of `NewHTTPProxy` as far as the hosts file goes: it fails, or the instance's `hp.localhost` -/
def hpLocalhostOf (src : HostsSource) : Except HostsError (List Bytes) := hpLocalhostOfWith hostsMaxToken src

/-- the counter-model: a constructor that tolerates the decode error and goes on with "the aliases that
    could be read" — which is what `Decode` hands back with the error: nothing -/
def hpLocalhostTolerating (maxTok : Nat) : HostsSource → List Bytes
  | .text t =>
    match decodeHostsWith maxTok t with
    | .ok recs => hpLocalhost (localhostAliases recs)
    | .error _ => hpLocalhost (localhostAliases [])
  | _ => hpLocalhost []

/-- a lookup that relies on the list being sorted (`slices.BinarySearch` on the byte order): the
    counter-model — it agrees with the linear scan only on lists that ARE sorted, and `hp.localhost`
    is not (built-in names first; a list sorted as spelt is no longer sorted once lower-cased) -/
def bytesLt : Bytes → Bytes → Bool
  | [], [] => false
  | [], _ :: _ => true
  | _ :: _, [] => false
  | a :: as, b :: bs => a < b || (a == b && bytesLt as bs)

def sortedLookup (fuel : Nat) (xs : List Bytes) (x : Bytes) : Bool :=
  match fuel with
  | 0 => false
  | fuel + 1 =>
    if xs.isEmpty then false else
    let mid := xs.length / 2
    match xs[mid]? with
    | none => false
    | some m =>
      if m == x then true
      else if bytesLt m x then sortedLookup fuel (xs.drop (mid + 1)) x
      else sortedLookup fuel (xs.take mid) x

/-- the outcome is a refusal with this reason -/
def ItemOutcome.refusedWith : ItemOutcome → Refusal → Bool
  | .req (.refused st w), why => w == why && st == why.status
  | .connect (.refused st w), why => w == why && st == why.status
  | _, _ => false

/-! ### the two serving paths of the proxy (`HTTPProxy.Run`) and the URL host the controls see

`HTTPProxy.Run` serves either through martian's own connection loop (`proxyConn.readRequest` + `handle`,
the default) or — `TestingHTTPHandler`, `NewHTTPProxyHandler` — through `proxyHandler.ServeHTTP` under
net/http's server. The request modifiers (so the four controls) and the round trip are the same code on both
paths; what differs is the `req.URL.Host` they are handed for an ORIGIN-FORM request (`GET /path` + `Host`):
`proxyConn.readRequest` completes an empty URL host from `req.Host` when it READS the request, net/http's
server hands the handler the request as sent and `proxyHandler.handleRequest` leaves the URL as it is, so the
modifiers see an empty host and `http.Transport.RoundTrip` then refuses the URL (`http: no Host in request
URL`): the client gets the proxy's own error response, nothing is dialled. The place where the URL host is
completed is a parameter (`Completion`), so that "completed after the controls ran" is expressible. -/

inductive ServerVariant where
  | connLoop                          -- martian's connection loop
  | handler                           -- martian as `http.Handler` under net/http's server
  deriving Repr, DecidableEq

/-- when `req.URL.Host` of a request that carries its authority in the Host field only is completed -/
inductive Completion where
  | atRead                            -- `proxyConn.readRequest`: before the request modifiers
  | never                             -- `proxyHandler`: not at all
  | beforeRoundTrip                   -- (counter-model) after the request modifiers, right before `rt.RoundTrip`
  deriving Repr, DecidableEq

def ServerVariant.completion : ServerVariant → Completion
  | .connLoop => .atRead
  | .handler => .never

/-- the EFFECTIVE target of a read request: the URL host, else the Host field -/
def effectiveHost (g0 : GoReq) : Bytes := if g0.urlHost.isEmpty then g0.host else g0.urlHost

/-- `req.URL.Host` while the request modifiers run -/
def Completion.seenHost : Completion → GoReq → Bytes
  | .atRead, g0 => effectiveHost g0
  | .never, g0 => g0.urlHost
  | .beforeRoundTrip, g0 => g0.urlHost

/-- `req.URL.Host` when `rt.RoundTrip` is called -/
def Completion.tripHost : Completion → GoReq → Bytes
  | .atRead, g0 => effectiveHost g0
  | .never, g0 => g0.urlHost
  | .beforeRoundTrip, g0 => effectiveHost g0

/-- the configuration as the part of the stack BEHIND the four controls uses it (none of the host lists is
    read there): `processRequest (pastControls cfg)` is the rest of the pipeline of a request whose time-frame
    and credentials checks passed -/
def pastControls (cfg : Cfg) : Cfg := { cfg with denyLocalhost := false, denyExact := [], denyRules := [] }

/-- outcome of a non-CONNECT request on a serving path -/
inductive VOutcome where
  | served (o : Outcome)              -- as `Req.Outcome` (for the handler path the forwarded head's `Via` version is not claimed: the handler sets HTTP/1.1)
  | serverRefused                     -- net/http's server answers `400` itself, the handler does not run
  | noHost                            -- the modifiers passed, `http.Transport` refuses the URL without host: the proxy's own error response (500), nothing dialled
  deriving Repr

/-- the request pipeline with the URL host completed at `k` -/
def processRequestAt (k : Completion) (cfg : Cfg) (ctx : Ctx) (r : Request) : VOutcome :=
  match readRequest r with
  | .error _ => .served .unreadable
  | .ok g0 =>
    match securityCheck cfg { g0 with urlHost := k.seenHost g0 } with
    | some why => .served (.refused why.status why)
    | none =>
      let rest := processRequest (pastControls cfg) ctx r
      if (k.tripHost g0).isEmpty then
        match rest with
        | .forwarded _ _ => .noHost
        | .routeError => .noHost
        | o => .served o
      else .served rest

/-- net/http's server refuses an HTTP/1.1 request without a Host field line before the handler runs
    (`missing required Host header`; CONNECT is exempt) -/
def serverRejects (v : ServerVariant) (r : Request) : Bool :=
  v == .handler && decide (r.minor ≥ 1) && (hget (toHeader r.fields) (bs "Host")).isEmpty

def processRequestV (v : ServerVariant) (cfg : Cfg) (ctx : Ctx) (r : Request) : VOutcome :=
  if serverRejects v r then .serverRefused else processRequestAt v.completion cfg ctx r

/-- upstream activity on behalf of a non-CONNECT request with the URL host completed at `k` -/
def requestActionsAt (k : Completion) (cfg : Cfg) (ctx : Ctx) (r : Request) : List Action :=
  match processRequestAt k cfg ctx r with
  | .served (.forwarded _ _) => requestActions (pastControls cfg) ctx r
  | _ => []

def requestActionsV (v : ServerVariant) (cfg : Cfg) (ctx : Ctx) (r : Request) : List Action :=
  if serverRejects v r then [] else requestActionsAt v.completion cfg ctx r

/-- CONNECT carries its authority in the request-target on both paths (`req.URL.Host`); the handler path does
    not intercept (`proxyHandler.handleConnectRequest` goes straight to `Proxy.Connect`) -/
def connectCfg (v : ServerVariant) (cfg : Cfg) : Cfg :=
  match v with
  | .connLoop => cfg
  | .handler => { cfg with mitm := false }

def processConnectV (v : ServerVariant) (cfg : Cfg) (ctx : Ctx) (c : ConnectReq) : ConnectOutcome :=
  processConnect (connectCfg v cfg) ctx c

def connectActionsV (v : ServerVariant) (cfg : Cfg) (ctx : Ctx) (c : ConnectReq) : List Action :=
  connectActions (connectCfg v cfg) ctx c

def itemActionsV (v : ServerVariant) (cfg : Cfg) (ctx : Ctx) : ConnItem → List Action
  | .req r => requestActionsV v cfg ctx r
  | .connect c => connectActionsV v cfg ctx c

/-- the URL host the controls are evaluated on / the URL host the round trip (the dial) would use, per item -/
def itemSeenHost (k : Completion) : ConnItem → Option Bytes
  | .req r => match readRequest r with | .ok g0 => some (k.seenHost g0) | .error _ => none
  | .connect c => match readRequest c.asRequest with | .ok g0 => some g0.urlHost | .error _ => none

def itemTripHost (k : Completion) : ConnItem → Option Bytes
  | .req r => match readRequest r with | .ok g0 => some (k.tripHost g0) | .error _ => none
  | .connect c => match readRequest c.asRequest with | .ok g0 => some g0.urlHost | .error _ => none

/-- the outcome opens no upstream connection by itself -/
def VOutcome.silent : VOutcome → Bool
  | .served (.forwarded _ _) => false
  | _ => true

/-- the outcome is a refusal or an error response of the proxy (never a forwarded request) -/
def VOutcome.refusedOrError : VOutcome → Bool
  | .served (.refused _ _) => true
  | .served .badRequest => true
  | .serverRefused => true
  | .noHost => true
  | _ => false

end C04
end FwdVerif
