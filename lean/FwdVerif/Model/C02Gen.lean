/-
  GENERATED — do not edit.  Written by harness/srcgen (the Prepare step of every `bin/check`
  of the property) from internal/martian/header/hopbyhop_modifier.go of $VERIF_REPO.  Core-only.
-/
namespace FwdVerif
namespace C02Gen

def hopByHopHeaders : List String := ["Connection", "Keep-Alive", "Proxy-Authenticate", "Proxy-Authorization", "Proxy-Connection", "Te", "Trailer", "Transfer-Encoding", "Upgrade"]

end C02Gen
end FwdVerif
