/-
  C11 — graceful shutdown.  Transition system of `martian.Proxy`'s `Serve` / `handleLoop` /
  `handle` / `Shutdown` / `Close` (internal/martian/proxy.go, proxy_conn.go) and of the goroutine
  of `HTTPProxy.run` that drives them (http_proxy.go).  Core-only.

  Every `Action` is one atomic action of the code (mutex acquire / release, `close(closeCh)`,
  `connsWg.Add`, map insert / delete, one `closing()` read at each of the places it is read,
  one load of the counter in Shutdown's polling loop) or one action of the environment (client
  connects / sends / vanishes, origin answers, context expires, Shutdown / Close are called).

  Facts of the code the model keeps:
  * `Shutdown` takes `connsMu` and keeps it until it returns (`defer Unlock`), i.e. for the
    whole wait; handlers need `connsMu` to register (`conns[conn]`, `connsWg.Add(1)`) and to
    unregister (`delete(conns, conn)`), but NOT for `connsWg.Add(-1)`.
  * `handleLoop` pushes three defers — unregister (`connsMu`, `delete`), `connsWg.Add(-1)`, `conn.Close()` — which
    run LAST-pushed first: `conn.Close()` is called (`closeStart`) and RETURNS (`closeDone`: a TLS connection
    sends `close_notify` first and waits up to 5 s for a peer that does not read; a wrapped connection may take
    any time) BEFORE the counter is decremented, and the map entry goes last.  So the counter `Shutdown` polls
    still counts a connection whose `Close` is under way (`closingSock`).
  * `Proxy.Close` calls `conn.Close()` on every connection of the map — also on one whose handler is inside its own
    `conn.Close()`.  A connection serialises its Close calls: the second caller returns at once with an error
    (crypto/tls `net.ErrClosed`, internal/poll `errClosing`) and closes nothing (`sweepClose`); that socket is closed
    only at the handler's `closeDone`, so it can OUTLIVE `Proxy.Close` (known finding F53: on a TLS listener by up to
    the 5 s write deadline of `close_notify`).
  * `closing()` is read: by `Serve` before every `Accept`; by `handleLoop` right after the
    registration (`closingCheck0`); by `handle` AFTER the request was read (`closingCheck`);
    by `writeResponse` before the head is written.
  * `Shutdown` and `Close` may be called any number of times, one after the other or concurrently:
    every call is a goroutine of its own (`shuts k`, `closes k`, k = the call's number) with its own
    context.  `close(closeCh)` is under `closeOnce`: the first of them sets `closing`, the others
    find it set — and go on exactly as the first did (Shutdown polls the counter, Close walks the
    map).  A call waits in `connsMu.Lock()` while another call (or a handler) holds the mutex.
  * a context (`SCall`) is done for good once it is done, and for ONE reason: its deadline passed
    (`ctxExpire`, impossible for a context without deadline: `noLimit`) or it was cancelled
    (`ctxCancel`, possible only if somebody can cancel it: `cancellable`).  `ctx.Err()` names that
    reason (`Why`): DeadlineExceeded or Canceled.
  * the context `run` hands to `Shutdown` is built by `shutdownContext` (shutdown.go) from the
    configuration: a positive shutdown timeout gives a deadline, the timeout 0 ("no limit") none
    (`cfgNoLimit`); a non-empty `ShutdownSignals` subscribes it (`signal.NotifyContext`) to exactly
    the signals of that SET (`cfgSignals`, `SCall.sigs`) — one of THEM delivered to the process during
    the drain (a SECOND shutdown signal) cancels it; with an empty set `NotifyContext` is not called
    at all (called without signals it would subscribe to EVERY signal: `Variant.emptyMeansAll`).  Any
    signal may be delivered to the process at any time (`sig n k`: signal `n` reaches the relay of the
    context of call `k`); one the context is not subscribed to changes nothing.  Nobody else can
    cancel run's context (its cancel function is deferred to after the return).  Both are parameters
    of the initial state (`initCfg`); no action changes them.  Whatever the reason for which
    `Shutdown` returned an error, `run` goes on to `Close`.
  * a successful CONNECT is answered with the fixed bytes `HTTP/1.1 200 OK\r\n\r\n`
    (`writeConnectOKResponse`), which carry no `Connection` field, and keeps its connection
    (`writeResponse`: `res.Close = false` for the 2xx of a CONNECT, closing or not): `tunnel` goes on
    to copy.  The tunnel runs inside `handleLoop`, so the connection stays in `conns` and counted by
    `connsWg`: `Shutdown` waits for it, `Close` closes its socket.  It ends when the client leaves,
    when the target ends its side, or when the socket is closed under it.
-/
namespace FwdVerif
namespace C11

abbrev ConnId := Nat

/-- program counter of one accepted connection (its `handleLoop` goroutine) -/
inductive PC where
  | absent              -- no such connection
  | backlog             -- TCP connection established, not yet returned by `Accept`
  | reset               -- was in the backlog when the listener was closed (kernel resets it)
  | refused             -- connect attempt on a closed listener
  | accepted            -- `go p.handleLoop(conn)` started
  | waitingForLock      -- in `connsMu.Lock()` (registration)
  | lockedReg           -- holds connsMu, before `conns[conn] = …`
  | inserted            -- in `conns`, before `connsWg.Add(1)`
  | registered          -- counter added, before `connsMu.Unlock()`
  | closingCheck0       -- about to evaluate `if p.closing() { return }` right after registration
  | tlsHandshake        -- in `maybeHandshakeTLS`
  | idleRead            -- in `readRequest`: `Peek(1)` waiting for the first byte of a request
  | requestRead         -- first byte seen; in `http.ReadRequest`
  | closingCheck        -- request read; about to evaluate `if p.closing() { return errClose }`
  | roundTrip           -- passed the check; modifiers / dial / request on its way to the origin
  | awaitOrigin         -- the origin has the request
  | writeResponse       -- response at hand; about to evaluate `closing()` in `writeResponse`
  | writing             -- head written with the decided `Connection` option; body being written
  | tunnel              -- CONNECT tunnel copying
  | deferredClose       -- about to run `defer conn.Close()`
  | closingSock         -- inside `conn.Close()`: the call has begun and has not returned (a TLS `close_notify`
                        -- to a peer that does not read, a wrapped connection whose Close takes time)
  | counterDec          -- about to run `defer p.connsWg.Add(-1)`
  | waitingForLockUnreg -- in `connsMu.Lock()` of the deferred unregistration
  | lockedUnreg         -- holds connsMu, before `delete(conns, conn)`
  | deleted             -- removed from `conns`, before `Unlock`
  | unregistered        -- goroutine finished
  deriving DecidableEq, Repr, Inhabited, Hashable

/-- number of a call of `Shutdown` resp. of `Close` (each call is a goroutine of its own) -/
abbrev CallId := Nat

/-- who holds `connsMu` -/
inductive Holder where
  | none | shutdown (k : CallId) | closer (k : CallId) | conn (c : ConnId)
  deriving DecidableEq, Repr, Inhabited, Hashable

/-- a goroutine executing `Shutdown(ctx)` -/
inductive SPC where
  | idle | waitingForLock | locked | polling | selecting | retNil | retErr | doneNil | doneErr
  deriving DecidableEq, Repr, Inhabited, Hashable

/-- why a context is done: `ctx.Err()` = `DeadlineExceeded` resp. `Canceled` -/
inductive Why where
  | deadline | cancel
  deriving DecidableEq, Repr, Inhabited, Hashable

/-- a signal number (SIGUSR1 = 10, SIGUSR2 = 12, SIGURG = 23, SIGWINCH = 28, …) -/
abbrev Sig := Nat

/-- one call of `Shutdown(ctx)`: its goroutine and its context -/
structure SCall where
  pc : SPC := .idle
  noLimit : Bool := false       -- the context has no deadline: it never expires
  cancellable : Bool := false   -- the caller of `Shutdown` can cancel the context (it holds a cancel func and uses it)
  sigs : List Sig := []         -- `signal.NotifyContext`: the signals whose delivery to the process cancels the context
  done : Option Why := none     -- `ctx.Done()` is closed, and why
  -- ghost (never read by a guard)
  sawClosing : Bool := false    -- `closing` was already set when this call came to `closeOnce.Do`
  deriving DecidableEq, Repr, Inhabited, Hashable

/-- the goroutine executing `Close()` -/
inductive CPC where
  | idle | waitingForLock | locked | closedCh | closedConns | done
  deriving DecidableEq, Repr, Inhabited, Hashable

/-- `Serve`'s accept loop -/
inductive SrvPC where
  | checking | accepting | returned
  deriving DecidableEq, Repr, Inhabited, Hashable

/-- the goroutine of `HTTPProxy.run` waiting for `ctx.Done()` -/
inductive RPC where
  | idle | cancelled | listenersClosed | inShutdown | inClose | finished
  deriving DecidableEq, Repr, Inhabited, Hashable

/-- what matters of a request -/
structure Req where
  connect : Bool := false     -- CONNECT
  close : Bool := false       -- carries `Connection: close`
  auto : Bool := false        -- its origin answers without an action of the harness (a CONNECT target that just accepts)
  deriving DecidableEq, Repr, Inhabited, Hashable

structure Conn where
  pc : PC := .absent
  tls : Bool := false           -- accepted on a TLS listener
  helloSent : Bool := false     -- the client has started the TLS handshake
  sockClosed : Bool := false    -- the proxy closed the socket (`conn.Close()` by the handler or by `Close`)
  clientGone : Bool := false    -- the client vanished
  partialSent : Bool := false   -- the client sent the first bytes of a request head only
  pending : List Req := []      -- complete requests sent and not yet read
  cur : Req := {}               -- the request being handled
  answered : Bool := false      -- the origin released its answer to the current request
  fwdUnseen : Nat := 0          -- requests that reached the origin and that the harness has not yet noticed there
  originEnded : Bool := false   -- the origin closed its side (ends a tunnel)
  unseen : List Bool := []      -- responses written in full (their `Connection: close` flag), not yet seen by the client
  relayUnseen : Nat := 0        -- round trips relayed through the tunnel (client → target → client) that the client has not yet noticed
  -- ghost fields (never read by a guard)
  regClosing : Bool := false    -- value of `closing` when the counter was incremented for this connection
  readClosing : Bool := false   -- value of `closing` when the read of the current request completed
  respClosing : Bool := false   -- value `writeResponse` read from `closing()` for the last response
  lastClose : Bool := false     -- the last response head carried `Connection: close`
  reads : Nat := 0              -- requests read
  forwards : Nat := 0           -- requests that reached the origin
  deriving DecidableEq, Repr, Inhabited, Hashable

/-- connections "between register and counterDec": counted by `connsWg` -/
def counted : PC → Bool
  | .registered | .closingCheck0 | .tlsHandshake | .idleRead | .requestRead | .closingCheck
  | .roundTrip | .awaitOrigin | .writeResponse | .writing | .tunnel | .deferredClose
  | .closingSock | .counterDec => true
  | _ => false

/-- connections present in the `conns` map -/
def inMap : PC → Bool
  | .inserted | .waitingForLockUnreg | .lockedUnreg => true
  | p => counted p

/-- connections holding `connsMu` -/
def holdsLock : PC → Bool
  | .lockedReg | .inserted | .registered | .lockedUnreg | .deleted => true
  | _ => false

/-- before the counter increment -/
def preReg : PC → Bool
  | .absent | .backlog | .reset | .refused | .accepted | .waitingForLock | .lockedReg | .inserted => true
  | _ => false

/-- after the counter decrement -/
def pastDec : PC → Bool
  | .waitingForLockUnreg | .lockedUnreg | .deleted | .unregistered => true
  | _ => false

/-- nothing more will happen on this connection -/
def terminal : PC → Bool
  | .absent | .reset | .refused | .unregistered => true
  | _ => false

/-- effect of a connection step on the shared state -/
inductive Eff where
  | none | acq | rel | ins | add | dec | del
  deriving DecidableEq, Repr

/-- steps of a connection's goroutine -/
inductive CAct where
  | lockReq | lockAcq | insert | counterAdd | unlockReg | check0
  | tlsDone | tlsFail | firstByte | idleFail | readDone | readFail | check
  | forward | respReady | writeHead | writeHeadFail | writeDone | writeFail | relay | tunnelEnd
  | closeStart | closeDone | counterDec | lockAcqU | delete | unlockU
  deriving DecidableEq, Repr, Inhabited, Hashable

/-- One step of the goroutine of a connection, given the two things it reads of the shared
    state: `closing()` and whether `connsMu` is free. -/
def cstep (closing lockFree : Bool) (x : Conn) : CAct → Option (Conn × Eff)
  | .lockReq =>
    if x.pc = .accepted then some ({ x with pc := .waitingForLock }, .none) else none
  | .lockAcq =>
    if x.pc = .waitingForLock ∧ lockFree = true then some ({ x with pc := .lockedReg }, .acq) else none
  | .insert =>
    if x.pc = .lockedReg then some ({ x with pc := .inserted }, .ins) else none
  | .counterAdd =>
    if x.pc = .inserted then some ({ x with pc := .registered, regClosing := closing }, .add) else none
  | .unlockReg =>
    if x.pc = .registered then some ({ x with pc := .closingCheck0 }, .rel) else none
  | .check0 =>
    if x.pc = .closingCheck0 then
      some ({ x with pc := if closing then .deferredClose else if x.tls then .tlsHandshake else .idleRead }, .none)
    else none
  | .tlsDone =>
    if x.pc = .tlsHandshake ∧ x.helloSent = true ∧ x.sockClosed = false then
      some ({ x with pc := .idleRead }, .none) else none
  | .tlsFail =>
    if x.pc = .tlsHandshake ∧ (x.sockClosed = true ∨ x.clientGone = true) then
      some ({ x with pc := .deferredClose }, .none) else none
  | .firstByte =>
    if x.pc = .idleRead ∧ x.sockClosed = false ∧ (x.partialSent = true ∨ x.pending ≠ []) then
      some ({ x with pc := .requestRead }, .none) else none
  | .idleFail =>
    if x.pc = .idleRead ∧ (x.sockClosed = true ∨ (x.clientGone = true ∧ x.pending = [])) then
      some ({ x with pc := .deferredClose }, .none) else none
  | .readDone =>
    if x.pc = .requestRead ∧ x.sockClosed = false then
      match x.pending with
      | [] => none
      | r :: rest =>
        some ({ x with pc := .closingCheck, pending := rest, cur := r, answered := false,
                       readClosing := closing, reads := x.reads + 1 }, .none)
    else none
  | .readFail =>
    if x.pc = .requestRead ∧ (x.sockClosed = true ∨ (x.clientGone = true ∧ x.pending = [])) then
      some ({ x with pc := .deferredClose }, .none) else none
  | .check =>
    if x.pc = .closingCheck then
      some ({ x with pc := if closing then .deferredClose else .roundTrip }, .none) else none
  | .forward =>
    if x.pc = .roundTrip then
      some ({ x with pc := .awaitOrigin, forwards := x.forwards + 1, fwdUnseen := x.fwdUnseen + 1 }, .none)
    else none
  | .respReady =>
    if x.pc = .awaitOrigin ∧ (x.answered = true ∨ x.cur.auto = true) then
      some ({ x with pc := .writeResponse }, .none) else none
  | .writeHead =>
    if x.pc = .writeResponse ∧ x.sockClosed = false then
      if x.cur.connect then
        -- fixed bytes, no `Connection` field; a successful CONNECT keeps its connection, closing or
        -- not (`res.Close = false`): `tunnel` goes on to `bicopy`
        some ({ x with pc := .tunnel, respClosing := closing,
                       lastClose := false, unseen := x.unseen ++ [false] }, .none)
      else
        some ({ x with pc := .writing, respClosing := closing, lastClose := closing || x.cur.close }, .none)
    else none
  | .writeDone =>
    if x.pc = .writing ∧ x.sockClosed = false then
      some ({ x with pc := if x.lastClose then .deferredClose else .idleRead,
                     unseen := x.unseen ++ [x.lastClose] }, .none)
    else none
  | .writeHeadFail =>
    if x.pc = .writeResponse ∧ (x.sockClosed = true ∨ x.clientGone = true) then
      some ({ x with pc := .deferredClose }, .none) else none
  | .writeFail =>
    if x.pc = .writing ∧ (x.sockClosed = true ∨ x.clientGone = true) then
      some ({ x with pc := .deferredClose }, .none) else none
  | .relay =>
    -- `bicopy`: bytes of the client reach the target and the target's bytes reach the client
    if x.pc = .tunnel ∧ x.sockClosed = false then
      some ({ x with relayUnseen := x.relayUnseen + 1 }, .none) else none
  | .tunnelEnd =>
    if x.pc = .tunnel ∧ (x.sockClosed = true ∨ x.clientGone = true ∨ x.originEnded = true) then
      some ({ x with pc := .deferredClose }, .none) else none
  | .closeStart =>
    -- `defer conn.Close()` is the LAST defer pushed, so it runs first: the call begins …
    if x.pc = .deferredClose then some ({ x with pc := .closingSock }, .none) else none
  | .closeDone =>
    -- … and returns — any time later — with the socket closed; only then does `defer p.connsWg.Add(-1)` run
    if x.pc = .closingSock then some ({ x with pc := .counterDec, sockClosed := true }, .none) else none
  | .counterDec =>
    if x.pc = .counterDec then some ({ x with pc := .waitingForLockUnreg }, .dec) else none
  | .lockAcqU =>
    if x.pc = .waitingForLockUnreg ∧ lockFree = true then some ({ x with pc := .lockedUnreg }, .acq) else none
  | .delete =>
    if x.pc = .lockedUnreg then some ({ x with pc := .deleted }, .del) else none
  | .unlockU =>
    if x.pc = .deleted then some ({ x with pc := .unregistered }, .rel) else none

/-- the whole system -/
structure State where
  closing : Bool := false               -- `closeCh` is closed
  counter : Int := 0                    -- `connsWg`
  registered : List ConnId := []        -- keys of `conns`
  lock : Holder := .none                -- `connsMu`
  conns : ConnId → Conn := fun _ => {}
  ids : List ConnId := []               -- connections that exist (newest first)
  listenerOpen : Bool := true
  serve : SrvPC := .checking
  shuts : CallId → SCall := fun _ => {} -- the calls of `Shutdown`
  closes : CallId → CPC := fun _ => .idle -- the calls of `Close`
  runner : RPC := .idle
  runShut : CallId := 0                 -- the call of `Shutdown` made by `run`
  runClose : CallId := 0                -- the call of `Close` made by `run`
  cfgNoLimit : Bool := false            -- configuration: shutdown timeout 0, `shutdownContext` adds no deadline
  cfgSignals : List Sig := []           -- configuration: `ShutdownSignals`, the SET of signals whose second delivery cancels the drain
  sweepLeft : List ConnId := []         -- `Close` (the one holding the mutex): connections of its `range p.conns` not yet closed
  -- ghost (never read by a guard of the code; `api` only separates the two ways of driving the proxy)
  api : Bool := false                   -- `Shutdown` / `Close` were called directly (not by `run`)
  everClosed : Bool := false            -- some `Close` has started its walk over the map

/-- the initial state of a proxy with the given shutdown configuration -/
def initCfg (noLimit : Bool) (signals : List Sig) : State := { cfgNoLimit := noLimit, cfgSignals := signals }

def init : State := {}

/-- the initial state of a proxy configured with shutdown timeout 0 = no limit (`shutdownContext`
    adds no deadline) and no shutdown signals: the context `run` hands to `Shutdown` is never done -/
def initNoLimit : State := { cfgNoLimit := true }

inductive Action where
  | conn (c : ConnId) (a : CAct)
  -- clients, origin
  | connect (c : ConnId) (tls : Bool)
  | connectRefused (c : ConnId)
  | hello (c : ConnId)
  | sendPartial (c : ConnId)
  | send (c : ConnId) (r : Req)
  | gone (c : ConnId)
  | originSeen (c : ConnId)
  | originAnswer (c : ConnId)
  | originEnd (c : ConnId)
  | respSeen (c : ConnId) (cl : Bool)
  | echoSeen (c : ConnId)
  | closedSeen (c : ConnId)
  -- callers of the API: call number `k` of `Shutdown` (with the kind of its context) / of `Close`;
  -- `shutdownRet k r`: the caller sees call `k` return `r` (`none` = nil, `some w` = the context's error)
  | listenerClose | shutdownCall (k : CallId) (noLimit cancellable : Bool) | shutdownRet (k : CallId) (r : Option Why)
  | closeCall (k : CallId) | closeRet (k : CallId)
  -- the context of call `k` of `Shutdown`
  | ctxExpire (k : CallId) | ctxCancel (k : CallId)
  -- signal `n` is delivered to the process and reaches the relay (`signal.NotifyContext`) of the context of call `k`
  | sig (n : Sig) (k : CallId)
  | cancel | runRet
  -- Serve
  | serveCheck | accept (c : ConnId)
  -- Shutdown, call `k`
  | shutLock (k : CallId) | shutCloseCh (k : CallId) | shutPoll (k : CallId) | shutTimer (k : CallId)
  | shutCtx (k : CallId) | shutUnlock (k : CallId)
  -- Close, call `k`
  | closeLock (k : CallId) | closeCloseCh (k : CallId) | closeConn (k : CallId) (c : ConnId) | closeAll (k : CallId)
  | closeUnlock (k : CallId)
  -- HTTPProxy.run (`k`: the numbers its calls of Shutdown / Close get)
  | runCloseListeners | runShutdown (k : CallId) | runAfterShutdown (k : CallId) | runAfterClose
  deriving DecidableEq, Repr, Inhabited

def setConn (s : State) (c : ConnId) (x : Conn) : State :=
  { s with conns := fun d => if d = c then x else s.conns d }

def setShut (s : State) (k : CallId) (x : SCall) : State :=
  { s with shuts := fun j => if j = k then x else s.shuts j }

def setClose (s : State) (k : CallId) (x : CPC) : State :=
  { s with closes := fun j => if j = k then x else s.closes j }

/-- a context becomes done for the first reason that occurs -/
def ctxDone (x : SCall) (w : Why) : SCall :=
  { x with done := match x.done with | none => some w | some w' => some w' }

def applyEff (s : State) (c : ConnId) : Eff → State
  | .none => s
  | .acq => { s with lock := .conn c }
  | .rel => { s with lock := .none }
  | .ins => { s with registered := c :: s.registered }
  | .add => { s with counter := s.counter + 1 }
  | .dec => { s with counter := s.counter - 1 }
  | .del => { s with registered := s.registered.erase c }

/-- closing a listener: pending connections of the backlog are reset, `Accept` fails -/
def closeListener (s : State) : State :=
  { s with listenerOpen := false, serve := .returned,
           conns := fun d => if (s.conns d).pc = .backlog then { s.conns d with pc := .reset } else s.conns d }

def lockFree (s : State) : Bool := s.lock == .none

/-- `conn.Close()` as `Proxy.Close` calls it on a connection of the map.  Close calls on ONE connection are
    serialised by the connection, not by the proxy: while the handler of the connection is inside its own
    `conn.Close()` (`closingSock`), a second call does NOT wait for the first and does NOT close the socket — it returns
    an error at once (crypto/tls `Conn.Close`: the `activeCall` bit is set, `return net.ErrClosed`; internal/poll
    `FD.Close`: `increfAndClose` fails, `errClosing`).  The socket is then closed only when the FIRST call gets there:
    at the handler's `closeDone`.  (On a plain TCP socket the first call is a non-blocking system call; on a TLS
    connection it first writes `close_notify` under a write deadline of 5 s of its own and stays there for as long as
    the peer does not read.)  In every other state the socket is closed by this call. -/
def sweepClose (x : Conn) : Conn :=
  { x with sockClosed := x.sockClosed || x.pc != .closingSock }

def step (s : State) : Action → Option State
  | .conn c a =>
    match cstep s.closing (lockFree s) (s.conns c) a with
    | some (x, e) => some (applyEff (setConn s c x) c e)
    | none => none
  | .connect c tls =>
    if c ∉ s.ids ∧ s.listenerOpen = true then
      some { setConn s c { pc := .backlog, tls := tls } with ids := c :: s.ids } else none
  | .connectRefused c =>
    if c ∉ s.ids ∧ s.listenerOpen = false then
      some { setConn s c { pc := .refused } with ids := c :: s.ids } else none
  | .hello c =>
    if c ∈ s.ids then some (setConn s c { s.conns c with helloSent := true }) else none
  | .sendPartial c =>
    if c ∈ s.ids then some (setConn s c { s.conns c with partialSent := true }) else none
  | .send c r =>
    if c ∈ s.ids then
      some (setConn s c { s.conns c with partialSent := false, pending := (s.conns c).pending ++ [r] })
    else none
  | .gone c =>
    if c ∈ s.ids then some (setConn s c { s.conns c with clientGone := true }) else none
  | .originSeen c =>
    if (s.conns c).fwdUnseen ≠ 0 then
      some (setConn s c { s.conns c with fwdUnseen := (s.conns c).fwdUnseen - 1 }) else none
  | .originAnswer c =>
    if (s.conns c).pc = .awaitOrigin then some (setConn s c { s.conns c with answered := true }) else none
  | .originEnd c =>
    if c ∈ s.ids then some (setConn s c { s.conns c with originEnded := true }) else none
  | .respSeen c cl =>
    match (s.conns c).unseen with
    | f :: rest => if f = cl then some (setConn s c { s.conns c with unseen := rest }) else none
    | [] => none
  | .echoSeen c =>
    -- the client got back through the tunnel what it had sent into it
    if (s.conns c).relayUnseen ≠ 0 then
      some (setConn s c { s.conns c with relayUnseen := (s.conns c).relayUnseen - 1 }) else none
  | .closedSeen c =>
    if (s.conns c).sockClosed = true ∨ (s.conns c).pc = .reset then some s else none
  | .listenerClose => some (if s.listenerOpen then closeListener s else s)
  | .shutdownCall k nl cb =>
    if (s.shuts k).pc = .idle ∧ s.runner = .idle then
      some { setShut s k { pc := .waitingForLock, noLimit := nl, cancellable := cb } with api := true }
    else none
  | .shutdownRet k r =>
    match r with
    | none => if (s.shuts k).pc = .doneNil then some s else none
    | some w => if (s.shuts k).pc = .doneErr ∧ (s.shuts k).done = some w then some s else none
  | .closeCall k =>
    if s.closes k = .idle ∧ s.runner = .idle then some { setClose s k .waitingForLock with api := true } else none
  | .closeRet k => if s.closes k = .done then some s else none
  | .ctxExpire k =>
    -- the context exists from the call on; one without deadline never expires
    if (s.shuts k).pc ≠ .idle ∧ (s.shuts k).noLimit = false then some (setShut s k (ctxDone (s.shuts k) .deadline))
    else none
  | .ctxCancel k =>
    -- … and only a context its caller can cancel is ever cancelled by its caller
    if (s.shuts k).pc ≠ .idle ∧ (s.shuts k).cancellable = true then some (setShut s k (ctxDone (s.shuts k) .cancel))
    else none
  | .sig n k =>
    -- any signal can be delivered at any time; it cancels the context only if the context exists and
    -- is subscribed to THAT signal — otherwise nothing changes
    if (s.shuts k).pc ≠ .idle ∧ n ∈ (s.shuts k).sigs then some (setShut s k (ctxDone (s.shuts k) .cancel))
    else some s
  | .cancel => if s.runner = .idle ∧ s.api = false then some { s with runner := .cancelled } else none
  | .runRet => if s.runner = .finished then some s else none
  | .serveCheck =>
    if s.serve = .checking then
      some (if s.closing then closeListener s else { s with serve := .accepting })
    else none
  | .accept c =>
    if s.serve = .accepting ∧ s.listenerOpen = true ∧ (s.conns c).pc = .backlog then
      some { setConn s c { s.conns c with pc := .accepted } with serve := .checking }
    else none
  | .shutLock k =>
    if (s.shuts k).pc = .waitingForLock ∧ s.lock = .none then
      some { setShut s k { s.shuts k with pc := .locked } with lock := .shutdown k } else none
  | .shutCloseCh k =>
    -- `closeOnce.Do(close(closeCh))`: whether or not this call is the one that closes the channel, it goes
    -- on to poll the counter
    if (s.shuts k).pc = .locked then
      some { setShut s k { s.shuts k with pc := .polling, sawClosing := s.closing } with closing := true } else none
  | .shutPoll k =>
    if (s.shuts k).pc = .polling then
      some (setShut s k { s.shuts k with pc := if s.counter = 0 then .retNil else .selecting }) else none
  | .shutTimer k =>
    if (s.shuts k).pc = .selecting then some (setShut s k { s.shuts k with pc := .polling }) else none
  | .shutCtx k =>
    if (s.shuts k).pc = .selecting ∧ (s.shuts k).done.isSome = true then
      some (setShut s k { s.shuts k with pc := .retErr }) else none
  | .shutUnlock k =>
    if (s.shuts k).pc = .retNil then some { setShut s k { s.shuts k with pc := .doneNil } with lock := .none }
    else if (s.shuts k).pc = .retErr then some { setShut s k { s.shuts k with pc := .doneErr } with lock := .none }
    else none
  | .closeLock k =>
    if s.closes k = .waitingForLock ∧ s.lock = .none then some { setClose s k .locked with lock := .closer k } else none
  | .closeCloseCh k =>
    -- `for conn := range p.conns` starts: the loop will visit what is in the map now (the map cannot
    -- change while Close holds the mutex)
    if s.closes k = .locked then
      some { setClose s k .closedCh with closing := true, sweepLeft := s.registered, everClosed := true } else none
  | .closeConn k c =>
    -- one iteration of the loop (map order is arbitrary): `conn.Close()` — which closes the socket unless the
    -- handler's own `conn.Close()` is under way (`sweepClose`): then it returns at once and closes nothing
    if s.closes k = .closedCh ∧ c ∈ s.sweepLeft ∧ c ∈ s.ids then
      some { setConn s c (sweepClose (s.conns c)) with sweepLeft := s.sweepLeft.erase c }
    else none
  | .closeAll k =>
    -- the loop is over
    if s.closes k = .closedCh ∧ s.sweepLeft = [] then some (setClose s k .closedConns) else none
  | .closeUnlock k =>
    if s.closes k = .closedConns then some { setClose s k .done with lock := .none } else none
  | .runCloseListeners =>
    if s.runner = .cancelled then
      some { (if s.listenerOpen then closeListener s else s) with runner := .listenersClosed }
    else none
  | .runShutdown k =>
    -- `ctx, cancel := shutdownContext(cfg)`; `hp.proxy.Shutdown(ctx)`
    if s.runner = .listenersClosed ∧ (s.shuts k).pc = .idle then
      some { setShut s k { pc := .waitingForLock, noLimit := s.cfgNoLimit, cancellable := false,
                           sigs := s.cfgSignals } with
             runner := .inShutdown, runShut := k }
    else none
  | .runAfterShutdown k =>
    -- `if err := Shutdown(ctx); err != nil { Close() }`: for EVERY error
    if s.runner = .inShutdown ∧ (s.shuts s.runShut).pc = .doneNil then some { s with runner := .finished }
    else if s.runner = .inShutdown ∧ (s.shuts s.runShut).pc = .doneErr ∧ s.closes k = .idle then
      some { setClose s k .waitingForLock with runner := .inClose, runClose := k }
    else none
  | .runAfterClose =>
    if s.runner = .inClose ∧ s.closes s.runClose = .done then some { s with runner := .finished } else none

/-- run a sequence of actions; `none` when one of them is not enabled -/
def run (s : State) : List Action → Option State
  | [] => some s
  | a :: as =>
    match step s a with
    | some s' => run s' as
    | none => none

/-- reachable by some interleaving from an initial state (any shutdown configuration) -/
inductive Reachable : State → Prop where
  | start (noLimit : Bool) (signals : List Sig) : Reachable (initCfg noLimit signals)
  | step {s s' : State} (a : Action) : Reachable s → step s a = some s' → Reachable s'

theorem Reachable.init : Reachable init := Reachable.start false []

theorem Reachable.initNoLimit : Reachable initNoLimit := Reachable.start true []

/-! ## Variants that are NOT the code

  Plausible rewrites of `Shutdown`, of `run` and of `shutdownContext`, kept to show that the theorems tell them from the
  code (`Theorems/C11.lean`, witnesses). -/

structure Variant where
  /-- `Shutdown` made "idempotent": a call that finds `closing` already set returns nil at once,
      without looking at the counter -/
  earlyNil : Bool := false
  /-- `run` calls `Close` only when `Shutdown` returned `DeadlineExceeded` (not when the drain was
      ended by a second signal, `Canceled`) -/
  closeOnDeadlineOnly : Bool := false
  /-- `shutdownContext` "simplified": `signal.NotifyContext(ctx, cfg.ShutdownSignals...)` is called
      unconditionally — with an EMPTY set that subscribes run's context to EVERY signal -/
  emptyMeansAll : Bool := false
  /-- `handleLoop`'s three stacked defers merged into ONE deferred func that does the bookkeeping first:
      `connsWg.Add(-1)`, THEN `conn.Close()`, then the map entry ("a TLS close may take seconds and must not
      delay the bookkeeping") -/
  decBeforeClose : Bool := false
  deriving DecidableEq, Repr

def stepV (v : Variant) (s : State) : Action → Option State
  | .shutCloseCh k =>
    if v.earlyNil = true ∧ (s.shuts k).pc = .locked ∧ s.closing = true then
      some (setShut s k { s.shuts k with pc := .retNil, sawClosing := true })
    else step s (.shutCloseCh k)
  | .runAfterShutdown k =>
    if v.closeOnDeadlineOnly = true ∧ s.runner = .inShutdown ∧ (s.shuts s.runShut).pc = .doneErr ∧
        (s.shuts s.runShut).done = some .cancel then
      some { s with runner := .finished }
    else step s (.runAfterShutdown k)
  | .sig n k =>
    if v.emptyMeansAll = true ∧ (s.shuts k).pc ≠ .idle ∧ s.runner ≠ .idle ∧ k = s.runShut ∧
        (s.shuts k).sigs = [] then
      some (setShut s k (ctxDone (s.shuts k) .cancel))
    else step s (.sig n k)
  | .conn c .counterDec =>
    -- the decrement comes FIRST (from `deferredClose`), and `conn.Close()` begins right after it
    if v.decBeforeClose = true then
      if (s.conns c).pc = .deferredClose then
        some (applyEff (setConn s c { s.conns c with pc := .closingSock }) c .dec) else none
    else step s (.conn c .counterDec)
  | .conn c .closeStart =>
    if v.decBeforeClose = true then none else step s (.conn c .closeStart)
  | .conn c .closeDone =>
    -- `conn.Close()` returns: on to the unregistration, the counter was decremented long ago
    if v.decBeforeClose = true then
      if (s.conns c).pc = .closingSock then
        some (setConn s c { s.conns c with pc := .waitingForLockUnreg, sockClosed := true }) else none
    else step s (.conn c .closeDone)
  | a => step s a

def runV (v : Variant) (s : State) : List Action → Option State
  | [] => some s
  | a :: as =>
    match stepV v s a with
    | some s' => runV v s' as
    | none => none

/-- number of connections between register and counterDec -/
def cnt (f : ConnId → Conn) : List ConnId → Int
  | [] => 0
  | c :: cs => (if counted (f c).pc then 1 else 0) + cnt f cs

end C11
end FwdVerif
