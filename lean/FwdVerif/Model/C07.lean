/-
  C07 — MITM: which certificate a handshake inside an intercepted CONNECT gets, whether a CONNECT
  is intercepted at all, and how a request read from the intercepted session is sent on.

  Mirrors (unchanged tree):
    internal/martian/mitm/mitm.go   TLSForHost (GetCertificate callback), cert
    internal/martian/proxy.go       shouldMITM, fixRequestScheme
    http_proxy.go                   MITMFilter = MITMDomains.Match(req.URL.Hostname()), AllowHTTP = true
    ruleset/regexp.go               RegexpMatcher.match (exclude first, then include)
    tls.go / http_transport.go      TLSClientConfig.Insecure → InsecureSkipVerify
    internal/martian/proxy_connect.go  clientTLSConfig (a clone per CONNECT), connectHTTP
    dialvia/http.go                 HTTPSProxy (writes ServerName into the configuration it is given)
  and the library functions the code calls: net.SplitHostPort, net.ParseIP (netip.ParseAddr without
  zone), url.URL.Hostname (stripPort).

  Crypto is NOT modelled: x509 verification is an abstract predicate `Verifier`; what is assumed of
  it is stated as explicit hypotheses of the theorems (`FreshVerifies`).  Core-only.
-/
import FwdVerif.Lib.Ascii

namespace FwdVerif
namespace C07

open Ascii

/-! ## net.SplitHostPort -/

/-- split at the LAST ':' (`bytealg.LastIndexByteString`) -/
def splitLastColon : Bytes → Option (Bytes × Bytes)
  | [] => none
  | c :: cs =>
    match splitLastColon cs with
    | some (h, p) => some (c :: h, p)
    | none => if c == 58 then some ([], cs) else none

/-- the `hostport[0] == '['` branch; `rest` = the bytes after the '[' -/
def splitBracket (rest : Bytes) : Option (Bytes × Bytes) :=
  let inner := rest.takeWhile (· != 93)                 -- up to the first ']'
  match rest.drop inner.length with
  | [] => none                                          -- "missing ']' in address"
  | [_] => none                                         -- ']' is the last byte: missing port
  | _ :: c :: p =>
    if c == 58 && !p.contains 58 then                   -- ']' just before the last ':'
      if rest.contains 91 then none                     -- "unexpected '[' in address"
      else if p.contains 93 then none                   -- "unexpected ']' in address"
      else some (inner, p)
    else none                                           -- too many colons / missing port

/-- the branch for a host that does not start with '[' -/
def splitPlain (hp : Bytes) : Option (Bytes × Bytes) :=
  match splitLastColon hp with
  | none => none
  | some (h, port) =>
    if h.contains 58 then none                          -- "too many colons in address"
    else if hp.contains 91 then none
    else if hp.contains 93 then none
    else some (h, port)

/-- `net.SplitHostPort`: `some (host, port)` or `none` for every error return. -/
def splitHostPort (hp : Bytes) : Option (Bytes × Bytes) :=
  if !hp.contains 58 then none                          -- "missing port in address"
  else match hp with
    | 91 :: rest => splitBracket rest
    | _ => splitPlain hp

/-- `url.URL.Hostname()` (`net/url.splitHostPort`): cut a `:digits*` suffix after the last colon,
    then remove one pair of enclosing brackets. -/
def urlHostname (hp : Bytes) : Bytes :=
  let host :=
    match splitLastColon hp with
    | some (h, p) => if p.all isDigit then h else hp
    | none => hp
  if host.head? == some 91 && host.getLast? == some 93 then (host.drop 1).dropLast else host

/-! ## net.ParseIP (acceptance only) -/

/-- `parseIPv4Fields` over the whole slice: `first` = at index 0, `prevDot` = previous byte was '.' -/
def v4Loop : Bytes → (val pos digLen : Nat) → (first prevDot : Bool) → Bool
  | [], _, pos, _, _, _ => pos == 3
  | c :: cs, val, pos, digLen, first, prevDot =>
    if isDigit c then
      if digLen == 1 && val == 0 then false               -- leading zero
      else
        let val' := val * 10 + (c.toNat - 48)
        if val' > 255 then false else v4Loop cs val' pos (digLen + 1) false false
    else if c == 46 then
      if first || cs.isEmpty || prevDot then false        -- ".1.2.3" "1.2.3." "1..2.3"
      else if pos == 3 then false                         -- too long
      else v4Loop cs 0 (pos + 1) 0 false true
    else false

def parseIPv4 (s : Bytes) : Bool := v4Loop s 0 0 0 true false

def isHex (c : UInt8) : Bool := isDigit c || (97 ≤ c && c ≤ 102) || (65 ≤ c && c ≤ 70)

/-- the `for i < 16` loop of `parseIPv6`; returns what is left of the string, `i` and whether an
    ellipsis was seen, or `none` for an error return.  `fuel` bounds the iterations (every
    iteration consumes at least one byte). -/
def v6Loop : Nat → Bytes → Nat → Bool → Option (Bytes × Nat × Bool)
  | 0, _, _, _ => none
  | fuel + 1, s, i, ell =>
    if i ≥ 16 then some (s, i, ell) else
    let digits := s.takeWhile isHex
    let off := digits.length
    if off > 4 then none                                  -- more than 4 digits in a group
    else if off == 0 then none                            -- no digit
    else
      let rest := s.drop off
      if rest.head? == some 46 then                       -- embedded IPv4
        if !ell && i != 12 then none
        else if i + 4 > 16 then none
        else if parseIPv4 s then some ([], i + 4, ell) else none
      else
        let i := i + 2
        match rest with
        | [] => some ([], i, ell)
        | c :: r =>
          if c != 58 then none                            -- want colon
          else match r with
            | [] => none                                  -- colon must be followed by more
            | c2 :: r2 =>
              if c2 == 58 then
                if ell then none                          -- multiple ::
                else match r2 with
                  | [] => some ([], i, true)              -- ellipsis at the end
                  | _ => v6Loop fuel r2 i true
              else v6Loop fuel r i ell

/-- `parseIPv6` on a string without zone -/
def parseIPv6 (s : Bytes) : Bool :=
  let (s, ell, done) : Bytes × Bool × Bool :=
    match s with
    | 58 :: 58 :: r => (r, true, r.isEmpty)
    | _ => (s, false, false)
  if done then true else
  match v6Loop (s.length + 1) s 0 ell with
  | none => false
  | some (rest, i, ell) =>
    if !rest.isEmpty then false                           -- trailing garbage
    else if i < 16 then ell                               -- too short unless an ellipsis expands
    else !ell                                             -- the :: must expand to at least one group

/-- `netip.ParseAddr` dispatch on the first of '.', ':', '%' -/
def parseAddrFrom (whole : Bytes) : Bytes → Bool
  | [] => false
  | c :: cs =>
    if c == 46 then parseIPv4 whole
    else if c == 58 then parseIPv6 whole
    else if c == 37 then false
    else parseAddrFrom whole cs

/-- `net.ParseIP(s) != nil`: `netip.ParseAddr` succeeds and the address has no zone. -/
def isIP (s : Bytes) : Bool :=
  if s.contains 37 then false else parseAddrFrom s s

/-! ## Name and SAN of the certificate -/

/-- the name `TLSForHost(hostname)`'s GetCertificate callback hands to `cert` and `cert` keeps after
    "remove the port if it exists": SNI if non-empty else the CONNECT `req.Host`; then
    `net.SplitHostPort` and, when that succeeds, the host part. -/
def certName (sni connectHost : Bytes) : Bytes :=
  let h := if sni.isEmpty then connectHost else sni
  match splitHostPort h with
  | some (host, _) => host
  | none => h

inductive SanKind where
  | ip | dns
  deriving DecidableEq, Repr

/-- `if ip := net.ParseIP(hostname); ip != nil { IPAddresses } else { DNSNames }` -/
def san (name : Bytes) : SanKind := if isIP name then .ip else .dns

/-! ## Certificates, validity window, cache -/

/-- nanoseconds -/
def sec : Int := 1000000000

/-- ASN.1 UTCTime/GeneralizedTime keep whole seconds -/
def truncSec (t : Int) : Int := t - t % sec

/-- what the properties need to know of a certificate -/
structure Cert where
  cn : Bytes
  kind : SanKind
  sanVal : Bytes
  notBefore : Int
  notAfter : Int
  byCA : Bool            -- signed by the configured CA
  deriving DecidableEq, Repr

/-- the template `cert` fills in on a miss: CN = SAN = hostname, window `now ± validity` -/
def fresh (validity : Int) (name : Bytes) (now : Int) : Cert :=
  { cn := name, kind := san name, sanVal := name,
    notBefore := truncSec (now - validity), notAfter := truncSec (now + validity), byCA := true }

/-- x509 verification of `cert` for `name` at a time — abstract -/
abbrev Verifier := Cert → Bytes → Int → Bool

/-- the cache is ANY partial map (any eviction, any TTL state, any content) -/
abbrev Cache := Bytes → Option Cert

/-- `Config.cert` after the port was removed: a hit is re-validated
    (`tlsc.Leaf.Verify(DNSName: hostname, Roots)` at the current time), otherwise a new leaf -/
def certFor (vf : Verifier) (validity : Int) (cache : Cache) (name : Bytes) (now : Int) : Cert :=
  match cache name with
  | some c => if vf c name now then c else fresh validity name now
  | none => fresh validity name now

/-- whether the handshake stores a new entry (`c.certs.Add(hostname, tlsc)`) -/
def cacheAfter (vf : Verifier) (validity : Int) (cache : Cache) (name : Bytes) (now : Int) : Cache :=
  match cache name with
  | some c =>
    if vf c name now then cache
    else fun k => if k = name then some (fresh validity name now) else cache k
  | none => fun k => if k = name then some (fresh validity name now) else cache k

/-- certificate presented for a handshake with the given SNI inside `CONNECT connectHost` -/
def handshakeCert (vf : Verifier) (validity : Int) (cache : Cache) (sni connectHost : Bytes)
    (now : Int) : Cert :=
  certFor vf validity cache (certName sni connectHost) now

/-- histories: handshakes interleaved with anything that can happen to the cache -/
inductive Op where
  | handshake (sni connectHost : Bytes) (now : Int)
  | evict (name : Bytes)                    -- LRU eviction / TTL expiry of one entry
  | put (name : Bytes) (c : Cert)           -- any other writer, any content
  | clear
  deriving Repr

/-- one observed handshake: requested name, time, certificate served -/
structure Served where
  name : Bytes
  now : Int
  cert : Cert

def step (vf : Verifier) (validity : Int) (cache : Cache) : Op → Cache × Option Served
  | .handshake sni h now =>
    let n := certName sni h
    (cacheAfter vf validity cache n now, some ⟨n, now, certFor vf validity cache n now⟩)
  | .evict n => (fun k => if k = n then none else cache k, none)
  | .put n c => (fun k => if k = n then some c else cache k, none)
  | .clear => (fun _ => none, none)

def run (vf : Verifier) (validity : Int) : Cache → List Op → List Served
  | _, [] => []
  | cache, op :: ops =>
    let r := step vf validity cache op
    match r.2 with
    | some s => s :: run vf validity r.1 ops
    | none => run vf validity r.1 ops

/-- a concrete verifier of the shape of `x509.Certificate.Verify` + `VerifyHostname` (chain to the
    CA, time inside the window, SAN of the right kind equal to the name up to ASCII case); used to
    show that the hypotheses made of the abstract verifier are satisfiable -/
def x509ish : Verifier := fun c name t =>
  c.byCA && decide (c.notBefore ≤ t) && decide (t ≤ c.notAfter) &&
    (c.kind == san name) && eqFold c.sanVal name

/-! ## The name between the cache lookup and the template: every length

  `cert` keeps the requested name in ONE variable, `hostname`, from the lookup `c.certs.Get(hostname)`
  through `Subject.CommonName`, the SAN decision and `DNSNames`/`IPAddresses` to
  `c.certs.Add(hostname, tlsc)`: lookup key, common name, SAN and storage key are the requested name
  itself, whatever its length (crypto/x509 enforces neither RFC 5280's ub-common-name of 64 nor the
  253 / 63 limits of DNS; DNS names run to 253 characters).  `NameHandling.verbatim` is the tree;
  `NameHandling.cutAt k` is the variant that shortens the variable to `k` bytes between the lookup
  and the template (`if len(hostname) > k { hostname = hostname[:k] }`) — it exists for the witness
  theorems only. -/

inductive NameHandling where
  | verbatim
  | cutAt (limit : Nat)
  deriving DecidableEq, Repr

/-- the value of `hostname` when the template is filled in and the leaf is stored -/
def issuedName : NameHandling → Bytes → Bytes
  | .verbatim, n => n
  | .cutAt k, n => if n.length > k then n.take k else n

/-- the key of `c.certs.Add` for a leaf issued on behalf of `name` -/
def cacheKey (h : NameHandling) (name : Bytes) : Bytes := issuedName h name

/-- `Config.cert` with the handling of the name explicit: looked up under the requested name, a hit
    re-validated for it, a new leaf filled in from `issuedName` -/
def certForH (h : NameHandling) (vf : Verifier) (validity : Int) (cache : Cache) (name : Bytes)
    (now : Int) : Cert :=
  match cache name with
  | some c => if vf c name now then c else fresh validity (issuedName h name) now
  | none => fresh validity (issuedName h name) now

/-- … and where the new leaf is stored -/
def cacheAfterH (h : NameHandling) (vf : Verifier) (validity : Int) (cache : Cache) (name : Bytes)
    (now : Int) : Cache :=
  match cache name with
  | some c =>
    if vf c name now then cache
    else fun k => if k = cacheKey h name then some (fresh validity (issuedName h name) now) else cache k
  | none => fun k => if k = cacheKey h name then some (fresh validity (issuedName h name) now) else cache k

/-- the DNS/IP names a leaf is good for, as `VerifyHostname` reads them: its single SAN -/
def leafNames (c : Cert) : List Bytes := [c.sanVal]

/-! ## Interception decision -/

/-- `RegexpMatcher.match`: exclude first, then include -/
def domainsMatch (incl excl : Bytes → Bool) (h : Bytes) : Bool :=
  if excl h then false else incl h

inductive Path where
  | mitm | tunnel
  deriving DecidableEq, Repr

/-- `shouldMITM`: `MITMConfig != nil` and, when a filter is installed, the filter's verdict on
    `req.URL.Hostname()` -/
def shouldMITM (hasConfig : Bool) (filter : Option (Bytes → Bool)) (authority : Bytes) : Bool :=
  if !hasConfig then false
  else match filter with
    | some f => f (urlHostname authority)
    | none => true

def connectPath (hasConfig : Bool) (filter : Option (Bytes → Bool)) (authority : Bytes) : Path :=
  if shouldMITM hasConfig filter authority then .mitm else .tunnel

/-- a mitm-domains list given extensionally: (subject, some include rule matches, some exclude rule
    matches) for finitely many subjects — the harness computes the verdicts of the configured
    regular expressions (their semantics belong to C17) for the host name alone AND for the
    `host:port` / bracketed spellings of the same CONNECT target; which of the subjects is looked up
    is the model's business.  A subject that is not listed matches no rule. -/
def tableFilter (tab : List (Bytes × Bool × Bool)) : Bytes → Bool :=
  domainsMatch
    (fun s => match tab.lookup s with | some v => v.1 | none => false)
    (fun s => match tab.lookup s with | some v => v.2 | none => false)

/-! ## Requests read from the intercepted session -/

def http : Bytes := [104, 116, 116, 112]
def https : Bytes := [104, 116, 116, 112, 115]

/-- `fixRequestScheme`: `urlScheme` = scheme of the request-target ("" for origin-form),
    `xfp` = `req.Header.Get("X-Forwarded-Proto")` ("" when absent), `tls` = `req.TLS != nil` -/
def fixScheme (urlScheme xfp : Bytes) (tls allowHTTP : Bool) : Bytes :=
  let s :=
    if urlScheme.isEmpty then
      if !xfp.isEmpty then xfp
      else if tls then https else http
    else urlScheme
  if s == http && tls && !allowHTTP then https else s

inductive Outcome where
  | deliverTLS          -- request written to the target over verified (or insecure) TLS
  | deliverPlain        -- request written to the target in clear text
  | refused502          -- error response 502, nothing delivered
  | unsupported         -- transport knows no such scheme: error response, nothing delivered
  deriving DecidableEq, Repr

def Outcome.delivered : Outcome → Bool
  | .deliverTLS | .deliverPlain => true
  | _ => false

/-- the transport: `https` handshakes with `InsecureSkipVerify = insecure`; a certificate that does
    not verify aborts the dial (no request is written) and surfaces as 502 -/
def forward (scheme : Bytes) (insecure originVerifies : Bool) : Outcome :=
  if scheme == https then
    if insecure || originVerifies then .deliverTLS else .refused502
  else if scheme == http then .deliverPlain
  else .unsupported

/-- an origin-form request read from the intercepted (TLS) session -/
def interceptedRequest (xfp : Bytes) (allowHTTP insecure originVerifies : Bool) : Outcome :=
  forward (fixScheme [] xfp true allowHTTP) insecure originVerifies

/-! ## Which name the origin's certificate is verified for

  `tls.go` `ConfigureTLSConfig`/`loadRootCAs`: `RootCAs` = system pool + `CACertFiles`,
  `InsecureSkipVerify = Insecure`, no `VerifyConnection`/`VerifyPeerCertificate` — so the default
  verifier of crypto/tls runs: `x509.VerifyOptions{DNSName: config.ServerName}`.  net/http sets
  `ServerName` to the host of the dial target with the port cut (`connectMethod.tlsHost`); that is
  the URL's host, for DNS names and IP literals alike.  SNI is NOT sent for IP literals
  (`hostnameInSNI`), the name check is made all the same: `VerifyHostname` removes the brackets of
  an IPv6 literal and compares IP literals with the certificate's IPAddresses only. -/

/-- the name the origin's certificate must be valid for; `authority` = `Host` of the request read
    from the intercepted session (with or without port) -/
def originVerifyName (authority : Bytes) : Bytes := urlHostname authority

def originVerifies (vf : Verifier) (c : Cert) (authority : Bytes) (now : Int) : Bool :=
  vf c (originVerifyName authority) now

/-- an origin-form request for `authority` read from the intercepted session, the origin presenting
    certificate `c` at time `now` -/
def interceptedTo (vf : Verifier) (xfp : Bytes) (allowHTTP insecure : Bool) (c : Cert)
    (authority : Bytes) (now : Int) : Outcome :=
  interceptedRequest xfp allowHTTP insecure (originVerifies vf c authority now)

/-! ## Histories on ONE proxy instance: the name an origin is verified for

  The name handed to the verifier is `tls.Config.ServerName` of the configuration the connection is
  made with.  net/http (`persistConn.addTLS(name)`, `name = cm.tlsHost()`):
      cfg := cloneTLSConfig(t.TLSClientConfig);  if cfg.ServerName == "" { cfg.ServerName = name }
  so the ORIGIN's host is filled in only while the transport's configured `ServerName` is empty
  (forwarder never configures one: `tls.go` `ConfigureTLSConfig`).  The only other user of the
  transport's TLS configuration is martian's own CONNECT path (`proxy_connect.go`): a CONNECT that is
  not intercepted and goes through an `https://` upstream proxy calls
  `dialvia.HTTPSProxy(dial, proxyURL, p.clientTLSConfig())`, which WRITES
  `tlsConfig.ServerName = proxyURL.Hostname()` into the configuration it is given.
  `clientTLSConfig()` returns `tr.TLSClientConfig.Clone()`: the TLS client configuration is per
  connection.  `ConfHandling.shared` is the variant in which it returns the transport's configuration
  itself; it exists for the witness theorem only (what goes wrong without the clone). -/

/-- how CONNECTs and the transport reach their targets (`--proxy`); the host is `proxyURL.Hostname()` -/
inductive Upstream where
  | direct
  | http (host : Bytes)
  | https (host : Bytes)
  | socks5 (host : Bytes)
  deriving DecidableEq, Repr

/-- what name verification reads of a `tls.Config`: `ServerName` (`[]` = unset) -/
structure TLSConf where
  serverName : Bytes
  deriving DecidableEq, Repr

/-- `Proxy.clientTLSConfig`: a clone of the transport's configuration (the tree) or that
    configuration itself -/
inductive ConfHandling where
  | cloned | shared
  deriving DecidableEq, Repr

/-- the state of a proxy instance that origin verification can depend on:
    `http.Transport.TLSClientConfig` -/
structure Inst where
  transportConf : TLSConf
  deriving DecidableEq, Repr

/-- a proxy just started: no `ServerName` configured -/
def Inst.fresh : Inst := ⟨⟨[]⟩⟩

/-- `dialvia.HTTPSProxy`: `tlsConfig.ServerName = proxyURL.Hostname()` on the configuration it is given -/
def httpsProxyDialerConf (proxyHost : Bytes) (_given : TLSConf) : TLSConf := ⟨proxyHost⟩

/-- a CONNECT that is not intercepted (`Proxy.connect`: direct dial, `connectHTTP`, `connectSOCKS5`).
    Only the `https` branch touches a TLS configuration — the one `clientTLSConfig` returned. -/
def tunnelStep (h : ConfHandling) (up : Upstream) (st : Inst) : Inst :=
  match up with
  | .https ph =>
    match h with
    | .cloned => st                        -- the write lands in a clone that dies with the dialer
    | .shared => { transportConf := httpsProxyDialerConf ph st.transportConf }
  | _ => st

/-- the name a NEW origin connection of the transport is verified for (`addTLS`) -/
def verifyName (st : Inst) (authority : Bytes) : Bytes :=
  if st.transportConf.serverName.isEmpty then originVerifyName authority
  else st.transportConf.serverName

/-- the forwarding outcome with the verification name explicit: request read from an intercepted
    session, origin presenting `c`, verified for `name` -/
def interceptedAs (vf : Verifier) (xfp : Bytes) (allowHTTP insecure : Bool) (c : Cert)
    (name : Bytes) (now : Int) : Outcome :=
  interceptedRequest xfp allowHTTP insecure (vf c name now)

/-- a plain `GET https://authority/…` (absolute-form, `req.TLS == nil`), verified for `name` -/
def absoluteAs (vf : Verifier) (allowHTTP insecure : Bool) (c : Cert) (name : Bytes) (now : Int) :
    Outcome :=
  forward (fixScheme https [] false allowHTTP) insecure (vf c name now)

/-- a request that makes the transport open a new TLS connection to an origin -/
structure OriginReq where
  authority : Bytes        -- `Host` / URL authority
  cert : Cert              -- what the origin presents
  now : Int
  deriving Repr

/-- what clients do to one proxy instance, as far as origin verification can tell -/
inductive Event where
  | tunnel (authority : Bytes)        -- CONNECT excluded by mitm-domains: tunnelled through `Upstream`
  | intercepted (r : OriginReq)       -- request read from an intercepted session, fresh origin connection
  | absolute (r : OriginReq)          -- plain `GET https://…`, fresh origin connection
  deriving Repr

inductive EvOut where
  | tunnelled
  | origin (verifiedFor : Bytes) (o : Outcome)
  deriving DecidableEq, Repr

def evStep (h : ConfHandling) (up : Upstream) (vf : Verifier) (allowHTTP insecure : Bool)
    (st : Inst) : Event → Inst × EvOut
  | .tunnel _ => (tunnelStep h up st, .tunnelled)
  | .intercepted r =>
    let n := verifyName st r.authority
    (st, .origin n (interceptedAs vf [] allowHTTP insecure r.cert n r.now))
  | .absolute r =>
    let n := verifyName st r.authority
    (st, .origin n (absoluteAs vf allowHTTP insecure r.cert n r.now))

/-- state after a history -/
def histState (h : ConfHandling) (up : Upstream) (vf : Verifier) (allowHTTP insecure : Bool) :
    Inst → List Event → Inst
  | st, [] => st
  | st, e :: es => histState h up vf allowHTTP insecure (evStep h up vf allowHTTP insecure st e).1 es

/-- what every event of a history gets, in order -/
def runHist (h : ConfHandling) (up : Upstream) (vf : Verifier) (allowHTTP insecure : Bool) :
    Inst → List Event → List EvOut
  | _, [] => []
  | st, e :: es =>
    let r := evStep h up vf allowHTTP insecure st e
    r.2 :: runHist h up vf allowHTTP insecure r.1 es

/-- the property's reading, history-free: every origin is verified for ITS OWN host -/
def specOut (vf : Verifier) (allowHTTP insecure : Bool) : Event → EvOut
  | .tunnel _ => .tunnelled
  | .intercepted r =>
    .origin (originVerifyName r.authority) (interceptedTo vf [] allowHTTP insecure r.cert r.authority r.now)
  | .absolute r =>
    .origin (originVerifyName r.authority)
      (absoluteAs vf allowHTTP insecure r.cert (originVerifyName r.authority) r.now)

/-! ## Which CAs an instance trusts: histories of instance construction in ONE process

  `tls.go` `TLSClientConfig.loadRootCAs`, called once per `NewHTTPTransport` (the proxy's transport,
  the PAC download transport, every further proxy an embedding program builds):
      if len(c.CACertFiles) == 0 { return nil }            // RootCAs stays nil: crypto/tls uses the system roots
      rootCAs, err := x509.SystemCertPool()                // a private COPY of the system pool per call
      … rootCAs.AppendCertsFromPEM(file) for every file …
      tlsCfg.RootCAs = rootCAs
  so the trust set of an instance is made of the system roots and ITS OWN `--cacert-file` list.
  `PoolHandling.shared` is the variant in which the system pool is loaded once per process and handed
  out by pointer, every instance appending to that one pool; it exists for the witness theorem only. -/

/-- a certificate authority, by name -/
abbrev CA := Nat

/-- what of a transport configuration decides whom it trusts -/
structure TrustCfg where
  extra : List CA          -- `CACertFiles`, in order
  insecure : Bool          -- `Insecure` → `InsecureSkipVerify`
  deriving DecidableEq, Repr

/-- the trust set of an instance: a function of its own configuration (and the system roots) -/
def trustOf (sys : List CA) (cfg : TrustCfg) : List CA :=
  if cfg.extra.isEmpty then sys else sys ++ cfg.extra

/-- the chain check of an origin certificate issued by `signer` (`Cert.byCA` of the verifier) -/
def trustsSigner (sys : List CA) (cfg : TrustCfg) (signer : CA) : Bool :=
  (trustOf sys cfg).contains signer

/-- `x509.SystemCertPool()` per call (the tree) or one pool per process -/
inductive PoolHandling where
  | copied | shared
  deriving DecidableEq, Repr

/-- `tls.Config.RootCAs` of a built transport -/
inductive Roots where
  | system                       -- nil: the system roots
  | own (pool : List CA)         -- a pool nobody else holds
  | processWide                  -- a pointer to the one pool of the process
  deriving DecidableEq, Repr

/-- a built transport / proxy instance, as far as chain verification can tell -/
structure Built where
  roots : Roots
  insecure : Bool
  deriving DecidableEq, Repr

/-- the process: the pool a `shared` loader hands out, and the instances in order of construction -/
structure Proc where
  sharedPool : List CA
  built : List Built
  deriving DecidableEq, Repr

/-- nothing built yet; the process-wide pool, once loaded, holds the system roots -/
def Proc.start (sys : List CA) : Proc := ⟨sys, []⟩

/-- what `loadRootCAs` leaves in `RootCAs` for a configuration, pool of its own -/
def mkBuilt (sys : List CA) (cfg : TrustCfg) : Built :=
  if cfg.extra.isEmpty then ⟨.system, cfg.insecure⟩ else ⟨.own (sys ++ cfg.extra), cfg.insecure⟩

/-- `NewHTTPTransport(cfg)` -/
def buildStep (h : PoolHandling) (sys : List CA) (p : Proc) (cfg : TrustCfg) : Proc :=
  match h with
  | .copied => { p with built := p.built ++ [mkBuilt sys cfg] }
  | .shared =>
    if cfg.extra.isEmpty then { p with built := p.built ++ [⟨.system, cfg.insecure⟩] }
    else { sharedPool := p.sharedPool ++ cfg.extra, built := p.built ++ [⟨.processWide, cfg.insecure⟩] }

/-- the pool `RootCAs` denotes NOW (a pointer is followed at verification time) -/
def poolOf (sys : List CA) (p : Proc) : Roots → List CA
  | .system => sys
  | .own l => l
  | .processWide => p.sharedPool

inductive PEvent where
  | build (cfg : TrustCfg)          -- a transport / proxy instance is constructed
  | probe (i : Nat) (signer : CA)   -- instance `i` (order of construction) opens a TLS connection to an
                                    -- origin whose certificate is good in every respect and chains to `signer`
  deriving DecidableEq, Repr

inductive POut where
  | built
  | accept            -- handshake completes, the request is written
  | refuse            -- handshake aborted (unknown authority): nothing written, 502 from a proxy
  | noInstance
  deriving DecidableEq, Repr

def probeOut (sys : List CA) (p : Proc) (i : Nat) (signer : CA) : POut :=
  match p.built[i]? with
  | none => .noInstance
  | some b => if b.insecure || (poolOf sys p b.roots).contains signer then .accept else .refuse

def pStep (h : PoolHandling) (sys : List CA) (p : Proc) : PEvent → Proc × POut
  | .build cfg => (buildStep h sys p cfg, .built)
  | .probe i s => (p, probeOut sys p i s)

/-- what every event of a process history gets, in order -/
def runProc (h : PoolHandling) (sys : List CA) : Proc → List PEvent → List POut
  | _, [] => []
  | p, e :: es =>
    let r := pStep h sys p e
    r.2 :: runProc h sys r.1 es

/-- the property's reading: an instance accepts what its OWN configuration trusts -/
def specProbe (sys : List CA) (cfgs : List TrustCfg) (i : Nat) (signer : CA) : POut :=
  match cfgs[i]? with
  | none => .noInstance
  | some cfg => if cfg.insecure || trustsSigner sys cfg signer then .accept else .refuse

/-- … over a history, remembering nothing but the configurations in order of construction -/
def specRun (sys : List CA) : List TrustCfg → List PEvent → List POut
  | _, [] => []
  | cfgs, .build cfg :: es => .built :: specRun sys (cfgs ++ [cfg]) es
  | cfgs, .probe i s :: es => specProbe sys cfgs i s :: specRun sys cfgs es

/-- the configurations of the instances a history constructs, in order -/
def buildsOf : List PEvent → List TrustCfg
  | [] => []
  | .build cfg :: es => cfg :: buildsOf es
  | .probe _ _ :: es => buildsOf es

end C07
end FwdVerif
