/-
  C02 — the request reader of a client connection (`proxyConn.handle` looped by `proxyConn.serve`;
  `/repo/internal/martian/proxy_conn.go`).

  One pass of `handle`:

      req := http.ReadRequest(p.brw.Reader)     -- `readHead`: request line, field lines, framing
      defer req.Body.Close()                    -- drains what the exchange leaves unread of the body
      if err := p.modifyRequest(req); err != nil {
          return p.writeErrorResponse(req, err) -- answered locally: 407 / 403 / 451 / 400, NO round trip
      }
      res := p.roundTrip(req)                   -- the round tripper reads (and closes) the body
      return p.writeResponse(res)

  Both ways out consume exactly the bytes the client framed as this request's body — the round tripper
  because it sends them on, the local answer because of the deferred `Close` (a `http.body` read with
  `ReadRequest` is drained to its end by `Close`).  What follows on the connection is the next request.

  * `readHead` / `readBody`: the reader (`http.ReadRequest` restricted to HTTP/1.x request lines; framing
    as `transferReader` decides it for a request: a single `Transfer-Encoding: chunked` on HTTP/1.1,
    else identical `Content-Length` values, else no body).  Field lines, chunked coding and trailers are
    read by the RFC 7230 reader of `Model/RespSpec.lean`.
  * `Disp`: what the modifier stack / the round trip made of a request head: answered locally with a
    status, or forwarded; and whether the response announces `Connection: close`.  The theorems
    quantify over every function `ReqHead → Disp`.
  * `serve`: the connection loop.  `Drain.always` is the code above.  `Drain.forwardedOnly` is the
    same loop WITHOUT the deferred `Close` (only a round trip consumes the body): it exists to state,
    kernel-checked, what goes wrong then (`Theorems/C02.lean`, `c02_unconsumed_refusal_witness`).
  * `frames`: the client's view — the sequence of requests it framed on the connection, read with no
    knowledge of what the proxy does with them.
  * `ClientReq.wire`: the writer side (a client that frames a request with Content-Length, chunked
    coding or no body), for the round-trip theorem.

  Core-only.
-/
import FwdVerif.Model.RespSpec

namespace FwdVerif
namespace ReqConn

open Ascii
open Resp (splitLine parseFields fieldValues parseDec decodeChunked crlf fieldLines encodeChunked digit
  normField LineWF)

/-! ### reader -/

structure ReqHead where
  method : Bytes
  target : Bytes
  minor : Nat
  fields : List (Bytes × Bytes)       -- lower-case name, OWS-trimmed value, wire order
  deriving DecidableEq, Repr

inductive Framing where
  | none
  | len (n : Nat)
  | chunked
  deriving DecidableEq, Repr

/-- `HTTP/1.` -/
def httpPrefix : Bytes := [72, 84, 84, 80, 47, 49, 46]

/-- `method SP request-target SP HTTP/1.<d>`: cut at the first space and at the next one
    (`parseRequestLine`); the method is a token, the target is not empty -/
def parseRequestLine (l : Bytes) : Option (Bytes × Bytes × Nat) :=
  let m := l.takeWhile (fun c => c != 32)
  if m.isEmpty || !m.all isTokenByte then none else
  match l.drop m.length with
  | [] => none
  | _ :: r =>
    let t := r.takeWhile (fun c => c != 32)
    if t.isEmpty then none else
    match r.drop t.length with
    | [] => none
    | _ :: v =>
      if v.take 7 != httpPrefix then none else
      match v.drop 7 with
      | [d] => if isDigit d then some (m, t, d.toNat - 48) else none
      | _ => none

/-- the framing of a request (`transferReader`: `parseTransferEncoding`, `fixLength`); `none` = the
    reader refuses the head (unsupported transfer coding, bad or contradictory Content-Length) -/
def framing (minor : Nat) (fs : List (Bytes × Bytes)) : Option Framing :=
  let tes := fieldValues fs Resp.Name.transferEncoding
  if minor != 0 && !tes.isEmpty then
    match tes with
    | [v] => if eqFold v Resp.Name.chunked then some .chunked else none
    | _ => none
  else
    match fieldValues fs Resp.Name.contentLength with
    | [] => some .none
    | c :: rest =>
      match parseDec c with
      | none => none
      | some n => if rest.all (fun x => x == c) then some (.len n) else none

inductive HeadRead where
  | eof                                             -- nothing left: the client is done
  | bad                                             -- no request head: closed without a response
  | ok (h : ReqHead) (fr : Framing) (rest : Bytes)
  deriving DecidableEq, Repr

def readHead (inp : Bytes) : HeadRead :=
  if inp.isEmpty then .eof else
  match splitLine inp with
  | none => .bad
  | some (l, r) =>
    match parseRequestLine l with
    | none => .bad
    | some (m, t, minor) =>
      match parseFields r with
      | none => .bad
      | some (fs, r) =>
        match framing minor fs with
        | none => .bad
        | some fr => .ok { method := m, target := t, minor := minor, fields := fs } fr r

abbrev BodyParts := Bytes × List (Bytes × Bytes)      -- decoded body, trailer fields

/-- the bytes one request body occupies on the connection: decoded body, trailers, what follows.
    `none`: the body never completes (the stream ends inside it, or the chunked coding is broken) -/
def readBody : Framing → Bytes → Option (Bytes × List (Bytes × Bytes) × Bytes)
  | .none, r => some ([], [], r)
  | .len n, r => if r.length < n then none else some (r.take n, [], r.drop n)
  | .chunked, r => decodeChunked r

/-! ### the proxy's connection loop -/

/-- what became of a request head -/
structure Disp where
  refused : Option Nat                -- `some status`: answered by the proxy itself, no round trip
  close : Bool                        -- the response announces `Connection: close`
  deriving DecidableEq, Repr

inductive Drain where
  | always                            -- `defer req.Body.Close()`: every exchange consumes its body
  | forwardedOnly                     -- only the round tripper does (no deferred Close)
  deriving DecidableEq, Repr

/-- the part of the connection's bytes an exchange consumes after the head -/
def consumed (m : Drain) (d : Disp) (fr : Framing) (r : Bytes) : Option (Bytes × List (Bytes × Bytes) × Bytes) :=
  match m, d.refused with
  | .forwardedOnly, some _ => some ([], [], r)
  | _, _ => readBody fr r

/-- one request the proxy acted on -/
structure Acted where
  head : ReqHead
  disp : Disp
  body : Option BodyParts             -- `none`: the body never completed
  deriving DecidableEq, Repr

/-- how the connection stands when nothing more can be read -/
inductive End where
  | idle                              -- every byte consumed, waiting for the next request
  | closed                            -- closed after a response that said so
  | bad                               -- closed without a response: the next bytes are no request head
  | stuck                             -- waiting for the rest of a body
  deriving DecidableEq, Repr

def serveAux (m : Drain) (d : ReqHead → Disp) : Nat → Bytes → List Acted × End
  | 0, _ => ([], .idle)
  | fuel + 1, inp =>
    match readHead inp with
    | .eof => ([], .idle)
    | .bad => ([], .bad)
    | .ok h fr r =>
      match consumed m (d h) fr r with
      | none => ([{ head := h, disp := d h, body := none }], .stuck)
      | some (b, tr, rest) =>
        if (d h).close then ([{ head := h, disp := d h, body := some (b, tr) }], .closed)
        else
          let p := serveAux m d fuel rest
          ({ head := h, disp := d h, body := some (b, tr) } :: p.1, p.2)

/-- every pass consumes at least the two bytes of a line end, so `length + 1` passes are enough -/
def serve (m : Drain) (d : ReqHead → Disp) (inp : Bytes) : List Acted × End :=
  serveAux m d (inp.length + 1) inp

/-! ### the client's view -/

/-- one request as the client framed it -/
structure Item where
  head : ReqHead
  body : Option BodyParts             -- `none`: not completed (then it is the last one)
  deriving DecidableEq, Repr

def framesAux : Nat → Bytes → List Item × End
  | 0, _ => ([], .idle)
  | fuel + 1, inp =>
    match readHead inp with
    | .eof => ([], .idle)
    | .bad => ([], .bad)
    | .ok h fr r =>
      match readBody fr r with
      | none => ([{ head := h, body := none }], .stuck)
      | some (b, tr, rest) =>
        let p := framesAux fuel rest
        ({ head := h, body := some (b, tr) } :: p.1, p.2)

def frames (inp : Bytes) : List Item × End := framesAux (inp.length + 1) inp

/-- what a proxy deciding by `d` is to act on: the client's requests in order, up to and including the
    first whose response closes the connection -/
def cut (d : ReqHead → Disp) : List Item → End → List Acted × End
  | [], e => ([], e)
  | i :: is, e =>
    match i.body with
    | none => ([{ head := i.head, disp := d i.head, body := none }], .stuck)
    | some b =>
      if (d i.head).close then ([{ head := i.head, disp := d i.head, body := some b }], .closed)
      else
        let p := cut d is e
        ({ head := i.head, disp := d i.head, body := some b } :: p.1, p.2)

def Acted.item (a : Acted) : Item := { head := a.head, body := a.body }

/-- the requests the next hop is sent -/
def forwarded (as : List Acted) : List Item :=
  (as.filter fun a => a.disp.refused.isNone).map Acted.item

/-- the k-th response on the connection, named by the request it answers and where it comes from -/
structure Answer where
  to : ReqHead
  status : Option Nat                 -- `some s`: the proxy's own answer; `none`: the next hop's
  deriving DecidableEq, Repr

def answers (as : List Acted) : List Answer := as.map fun a => { to := a.head, status := a.disp.refused }

/-! ### writer side (a client) -/

structure ClientReq where
  head : ReqHead                      -- field names as the client spells them
  framing : Framing
  chunks : List Bytes                 -- the body, cut into the pieces of the chunked coding
  trailers : List (Bytes × Bytes)
  deriving DecidableEq, Repr

def requestLine (h : ReqHead) : Bytes :=
  h.method ++ 32 :: (h.target ++ 32 :: (httpPrefix ++ [digit h.minor]))

def ClientReq.bodyWire (c : ClientReq) : Bytes :=
  match c.framing with
  | .none => []
  | .len _ => c.chunks.flatten
  | .chunked => encodeChunked c.chunks c.trailers

def ClientReq.wire (c : ClientReq) : Bytes :=
  requestLine c.head ++ crlf ++ fieldLines c.head.fields ++ crlf ++ c.bodyWire

/-- what a reader is expected to obtain -/
def ClientReq.expected (c : ClientReq) : Item :=
  { head := { c.head with fields := c.head.fields.map normField },
    body := some (match c.framing with
      | .none => ([], [])
      | .len _ => (c.chunks.flatten, [])
      | .chunked => (c.chunks.flatten, c.trailers.map normField)) }

structure ClientReq.WF (c : ClientReq) : Prop where
  method_ne : c.head.method ≠ []
  method_tok : c.head.method.all isTokenByte = true
  target_ne : c.head.target ≠ []
  target_nosp : (32 : UInt8) ∉ c.head.target
  target_nolf : (10 : UInt8) ∉ c.head.target
  minor_lt : c.head.minor < 10
  lines : ∀ f ∈ c.head.fields, LineWF f
  trailersWF : ∀ f ∈ c.trailers, LineWF f
  declared : ReqConn.framing c.head.minor (c.head.fields.map normField) = some c.framing
  fits : match c.framing with
    | .none => True
    | .len n => c.chunks.flatten.length = n
    | .chunked => ∀ x ∈ c.chunks, x ≠ []

/-! ### a concrete decision function: forwarder's security prefix (`middlewareStack`) and loop check -/

namespace Name
def connection : Bytes := Resp.Name.connection
def close : Bytes := Resp.Name.close
def keepAlive : Bytes := Resp.Name.keepAlive
def proxyAuthorization : Bytes := Resp.Name.proxyAuthorization
def host : Bytes := [104, 111, 115, 116]
def via : Bytes := [118, 105, 97]
end Name

/-- net/http `shouldClose` for a request -/
def reqClose (h : ReqHead) : Bool :=
  let conn := fieldValues h.fields Name.connection
  let hasClose := Req.valuesContainToken conn Name.close
  if h.minor == 0 then hasClose || !Req.valuesContainToken conn Name.keepAlive else hasClose

/-- `req.URL.Hostname()`: the authority of an absolute-form target, else the `Host` field -/
def hostOf (h : ReqHead) : Bytes :=
  let afterScheme : Option Bytes :=
    if h.target.take 7 == [104, 116, 116, 112, 58, 47, 47] then some (h.target.drop 7)
    else if h.target.take 8 == [104, 116, 116, 112, 115, 58, 47, 47] then some (h.target.drop 8)
    else none
  let authority := match afterScheme with
    | some r => r.takeWhile (fun c => c != 47 && c != 63)
    | none => (fieldValues h.fields Name.host).headD []
  lower (Req.hostname authority)

structure Policy where
  timeAllowed : Bool := true                          -- `TimeFrameAllows` now (451 otherwise)
  auth : Option (Bytes × Bytes) := none               -- proxy basic auth (407)
  denyHosts : List Bytes := []                        -- lower-case host names refused with 403
  viaTag : Bytes := []                                -- this instance's Via pseudonym (400 + close); [] = none
  deriving Repr

def Policy.refusal (p : Policy) (h : ReqHead) : Option (Nat × Bool) :=
  if !p.timeAllowed then some (451, false) else
  let authOK := match p.auth with
    | none => true
    | some (u, pw) =>
      let a := (fieldValues h.fields Name.proxyAuthorization).headD []
      if a.isEmpty then false else
      match Req.parseBasicAuth a with
      | some (u', pw') => u' == u && pw' == pw
      | none => false
  if !authOK then some (407, false) else
  if p.denyHosts.contains (hostOf h) then some (403, false) else
  let via := Req.joinWith [44, 32] (fieldValues h.fields Name.via)
  if !p.viaTag.isEmpty && !via.isEmpty && Req.isInfix p.viaTag via then some (400, true) else none

/-- `originCloses h`: the relayed response of a forwarded request announces `close` -/
def Policy.decide (p : Policy) (originCloses : ReqHead → Bool) (h : ReqHead) : Disp :=
  match p.refusal h with
  | some (s, c) => { refused := some s, close := c || reqClose h }
  | none => { refused := none, close := reqClose h || originCloses h }

end ReqConn
end FwdVerif
