/-
  C18, the CONNECT head on its way to an upstream HTTP(S) proxy (`connectHTTP`, proxy_connect.go) while
  OTHER CONNECT requests are on the same way.

  After the modifier stack has run (Via element appended or the request refused) `connectHTTP` hands the
  request's header set to a `dialvia.HTTPProxyDialer` (`d.ProxyConnectHeader = req.Header.Clone()`),
  which dials the upstream proxy and only THEN writes the CONNECT head with the header set it holds;
  the target is an argument of the dial call.  Three steps per request, any interleaving:

    assign   the header set is put where the dialer will look for it
    dial     TCP (and TLS) connection to the upstream proxy
    send     the head is written with the header set found there

  `connStep false` is the code: a dialer per CONNECT request (`own k`).  `connStep true` is the
  counter-model: ONE dialer kept per proxy URL, its `ProxyConnectHeader` (`shared`) assigned by every
  request.  `hdr k` = the header set the modifier stack produced for request `k` (a function of that
  request alone: `connectHead (processConnect cfg ctx (reqs k))`).
-/
import FwdVerif.Model.C18

namespace FwdVerif
namespace C18

/-- where one CONNECT request stands in `connectHTTP` -/
inductive ConnPc (α : Type) where
  | idle
  | assigned
  | dialled
  /-- the head went out with header set `h` -/
  | sent (h : α)

def ConnPc.sentOf {α : Type} : ConnPc α → Option α
  | .sent h => some h
  | _ => none

structure DialState (α : Type) where
  /-- `ProxyConnectHeader` of the dialer shared by all requests (counter-model only) -/
  shared : Option α
  /-- `ProxyConnectHeader` of request `k`'s own dialer (the code) -/
  own : Nat → Option α
  pcs : Nat → ConnPc α

def updAt {β : Type} (f : Nat → β) (k : Nat) (v : β) : Nat → β := fun i => if i = k then v else f i

def DialState.init (α : Type) : DialState α := { shared := none, own := fun _ => none, pcs := fun _ => .idle }

/-- request `k` takes its next step -/
def connStep {α : Type} (sharedDialer : Bool) (hdr : Nat → α) (s : DialState α) (k : Nat) : DialState α :=
  match s.pcs k with
  | .idle =>
    if sharedDialer then { s with shared := some (hdr k), pcs := updAt s.pcs k .assigned }
    else { s with own := updAt s.own k (some (hdr k)), pcs := updAt s.pcs k .assigned }
  | .assigned => { s with pcs := updAt s.pcs k .dialled }
  | .dialled =>
    match (if sharedDialer then s.shared else s.own k) with
    | some h => { s with pcs := updAt s.pcs k (.sent h) }
    | none => s
  | .sent _ => s

def connRun {α : Type} (sharedDialer : Bool) (hdr : Nat → α) (s : DialState α) (sched : List Nat) : DialState α :=
  sched.foldl (connStep sharedDialer hdr) s

/-- the header set request `k`'s head went out with, once it has -/
def sentHdr {α : Type} (s : DialState α) (k : Nat) : Option α := (s.pcs k).sentOf

end C18
end FwdVerif
