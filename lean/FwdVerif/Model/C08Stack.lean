/-
  C08, listener stacking: which layers the PROXY header read passes through.

  `forwarder.Listener` (net.go) builds every accepted connection out of layers, from the socket upwards:

    Listen:  ll = TCP listener
             if ProxyProtocolConfig != nil   { ll = &proxyproto.Listener{Listener: ll, …} }
             if ReadLimit > 0 || WriteLimit > 0 { ll = ratelimit.NewListener(ll, ReadLimit, WriteLimit) }
    Accept:  conn = conntrack.Builder{TrackTraffic: …}.Build(conn)        -- always
             if TLSConfig != nil { conn = tls.Server(conn, TLSConfig) }

  `proxyproto.Conn` reads the header from the connection it wraps, i.e. through every layer that is
  BELOW it in the stack.  `ratelimit.Conn.Read` hands its bytes on only after the listener-wide token
  bucket (`rate.Limiter`, one per listener and direction, shared by all its connections) has paid for
  them: a layer of that kind below the PROXY layer makes the header read wait for the debts other
  connections have run up, and those waits fall inside `ReadHeader`, i.e. count against the header
  timeout (`readTimed`, Model/C08.lean section "Time").  In the product's order nothing is below the
  PROXY layer (`Theorems/C08.lean`, section (h)).
-/
import FwdVerif.Model.C08

namespace FwdVerif
namespace C08

/-- the wrappers `forwarder.Listener` puts around an accepted socket -/
inductive Layer where
  | proxyproto    -- proxyproto.Listener / Conn
  | ratelimit     -- ratelimit.Listener / Conn (listener-wide rx and tx token buckets)
  | track         -- conntrack.Builder.Build
  | tls           -- tls.Server
  deriving DecidableEq, Repr

/-- the part of `ListenerConfig` (+ `TLSConfig`) that decides the stacking -/
structure StackCfg where
  proxy : Bool := true          -- ProxyProtocolConfig != nil
  readLimit : Nat := 0          -- bytes/s the peers may read  (tx bucket)
  writeLimit : Nat := 0         -- bytes/s the peers may write (rx bucket: the one reads wait in)
  trackTraffic : Bool := false
  tls : Bool := false
  deriving DecidableEq, Repr

def StackCfg.limited (c : StackCfg) : Bool := decide (0 < c.readLimit) || decide (0 < c.writeLimit)

/-- the stack `Listener.Listen` + `Listener.Accept` build, from the socket upwards -/
def productStack (c : StackCfg) : List Layer :=
  (if c.proxy then [Layer.proxyproto] else []) ++ ((if c.limited then [Layer.ratelimit] else []) ++
    (Layer.track :: (if c.tls then [Layer.tls] else [])))

/-- NOT the code: the limiter wrapped around the raw listener first, the PROXY layer on top of it
    ("limits apply to the raw connection").  Here to be refuted and to name that behaviour. -/
def limiterFirstStack (c : StackCfg) : List Layer :=
  (if c.limited then [Layer.ratelimit] else []) ++ ((if c.proxy then [Layer.proxyproto] else []) ++
    (Layer.track :: (if c.tls then [Layer.tls] else [])))

/-- the layers between the socket and the PROXY layer: what the header read passes through -/
def belowProxy : List Layer → List Layer
  | [] => []
  | .proxyproto :: _ => []
  | l :: ls => l :: belowProxy ls

/-- `rate.Limiter` as a clock: `zeroAt` = the time at which the bucket is (or was) back at zero tokens,
    so at time `t` it holds `(t - zeroAt) / cost` tokens, at most `burst`, and is in debt while
    `t < zeroAt`.  `cost` = time units per byte (1 / bandwidth). -/
structure Limiter where
  cost : Nat
  burst : Nat
  zeroAt : Nat
  deriving DecidableEq, Repr

/-- the debt at time `t`: how long until the reservations already made are paid -/
def Limiter.debtAt (l : Limiter) (t : Nat) : Nat := l.zeroAt - t

/-- `WaitN(n)` entered at time `t` (`ratelimit.Conn.Read` after a read of `n > 0` bytes): the
    reservation is queued behind the ones made before it - by any connection of the listener - and
    the call returns when it is paid. -/
def Limiter.take (l : Limiter) (t n : Nat) : Limiter × Nat :=
  if n = 0 then (l, t)
  else
    let z := max l.zeroAt (t - l.burst * l.cost) + n * l.cost
    ({ l with zeroAt := z }, max t z)

/-- the peer's arrivals as a reader above the limiter sees them (one reader, entering at `now`):
    each read returns when its bytes have arrived AND the bucket has paid for them -/
def throttle : Limiter → Nat → List Arr → List Arr
  | _, _, [] => []
  | l, now, a :: as =>
    let r := l.take (max now a.time) a.data.length
    ⟨r.2, a.data⟩ :: throttle r.1 r.2 as

/-- `bs` is `as` delayed: the same pieces of data, none of them earlier -/
def Later : List Arr → List Arr → Prop
  | [], [] => True
  | a :: as, b :: bs => b.data = a.data ∧ a.time ≤ b.time ∧ Later as bs
  | _, _ => False

/-- the least the limiter adds to a header read entered when the bucket's debt is `debt` -/
def headerReadDelay (s : List Layer) (debt : Nat) : Nat :=
  if Layer.ratelimit ∈ belowProxy s then debt else 0

/-- the header's arrivals as `proxyproto.Conn` sees them through the layers below it; `rx` = the
    listener's rx bucket (`none`: no write limit configured) -/
def headerSched (s : List Layer) (rx : Option Limiter) (start : Nat) (sched : List Arr) : List Arr :=
  match rx with
  | some l => if Layer.ratelimit ∈ belowProxy s then throttle l start sched else sched
  | none => sched

/-- the header read of a connection accepted from a listener stacked as `s`, first entered at `start` -/
def stackRead (s : List Layer) (rx : Option Limiter) (timeout start : Nat) (sched : List Arr) : TDone :=
  readTimed .total timeout start none (headerSched s rx start sched)

end C08
end FwdVerif
