/-
  C06 — credentials: the `--credentials` table, which credential goes to which hop.

  Mirrors
    credentials.go   NewCredentialsMatcher (four maps, duplicates rejected), MatchURL (default port by
                     scheme), Match (exact host:port, then *:port, then host:*, then *:*)
    http_proxy.go    upstreamProxyURL (URL userinfo wins, else table), pacProxy (table entry attached),
                     setBasicAuth (site credential unless the client sent Authorization)
  and composes configuration → `Req.Cfg` for one request (`resolve`), so that the request pipeline
  (`Req.processRequest`, `Req.processConnect`) yields the header set every hop receives; and one
  instance with a PAC script over a sequence of requests (`pacCredSeq`; counter-model `pacLookupMemo`).
  Core-only.
-/
import FwdVerif.Model.C05

namespace FwdVerif
namespace C06

open Ascii
open Req (bs hostname urlPort netSplitHostPort netJoinHostPort basicAuthValue Upstream)
open C05 (ProxyURL RouteCfg RouteError selectProxy toUpstream)

/-! ### the credentials table -/

abbrev Cred := Bytes × Bytes          -- user, password ("" when none was given)

/-- one `--credentials user:pass@host:port` entry; `host = "*"` and `port = "0"` are the wildcards
    (`ParseHostPortUser` turns a `*` port into `0`) -/
structure CredEntry where
  host : Bytes
  port : Bytes
  cred : Cred
  deriving Repr, DecidableEq

structure CredTable where
  hostport : List (Bytes × Cred) := []
  host : List (Bytes × Cred) := []
  port : List (Bytes × Cred) := []
  global : Option Cred := none
  deriving Repr

def star : Bytes := [42]
def zero : Bytes := [48]

/-- `HostPortUser.Validate` as far as it is modelled: host, port and user present -/
def CredEntry.valid (e : CredEntry) : Bool := !e.host.isEmpty && !e.port.isEmpty && !e.cred.1.isEmpty

/-- one step of the loop in `NewCredentialsMatcher`; `none` = configuration rejected -/
def addEntry (t : CredTable) (e : CredEntry) : Option CredTable :=
  if !e.valid then none
  else if e.host == star && e.port == zero then
    if t.global.isSome then none else some { t with global := some e.cred }
  else if e.host == star then
    if (t.port.lookup e.port).isSome then none else some { t with port := t.port ++ [(e.port, e.cred)] }
  else if e.port == zero then
    if (t.host.lookup e.host).isSome then none else some { t with host := t.host ++ [(e.host, e.cred)] }
  else
    let k := netJoinHostPort e.host e.port
    if (t.hostport.lookup k).isSome then none else some { t with hostport := t.hostport ++ [(k, e.cred)] }

/-- `NewCredentialsMatcher`: `none` = rejected, `some none` = nil matcher (no entries) -/
def buildTable (es : List CredEntry) : Option (Option CredTable) :=
  if es.isEmpty then some none
  else (es.foldlM addEntry {}).map some

/-- `CredentialsMatcher.Match` -/
def CredTable.matchHostport (t : CredTable) (hp : Bytes) : Option Cred :=
  match t.hostport.lookup hp with
  | some c => some c
  | none =>
    match netSplitHostPort hp with
    | none => none
    | some (host, port) =>
      match t.port.lookup port with
      | some c => some c
      | none =>
        match t.host.lookup host with
        | some c => some c
        | none => t.global

/-- `CredentialsMatcher.MatchURL` on (scheme, `URL.Host`) -/
def CredTable.matchURL (t : CredTable) (scheme urlHost : Bytes) : Option Cred :=
  if (urlPort urlHost).isEmpty then
    if scheme == bs "http" then t.matchHostport (urlHost ++ bs ":80")
    else if scheme == bs "https" then t.matchHostport (urlHost ++ bs ":443")
    else none
  else t.matchHostport urlHost

def matchURL (t : Option CredTable) (scheme urlHost : Bytes) : Option Cred :=
  match t with
  | none => none
  | some t => t.matchURL scheme urlHost

def matchHostport (t : Option CredTable) (hp : Bytes) : Option Cred :=
  match t with
  | none => none
  | some t => t.matchHostport hp

/-! ### which credential goes where -/

/-- `upstreamProxyURL`: userinfo of the configured URL wins, else the table entry for the proxy -/
def upstreamProxyURL (t : Option CredTable) (u : ProxyURL) : ProxyURL :=
  match u.user with
  | some _ => u
  | none => { u with user := matchURL t u.scheme u.host }

/-- `pacProxy`: the table entry for the PAC-selected proxy, if any -/
def pacAttach (t : Option CredTable) (u : ProxyURL) : ProxyURL :=
  match matchURL t u.scheme u.host with
  | some c => { u with user := some c }
  | none => u

/-- `setBasicAuth`'s lookup: the `Authorization` value for the request URL (scheme is empty for a
    CONNECT request, whose URL has only a host) -/
def siteCredFor (t : Option CredTable) (scheme urlHost : Bytes) : Option Bytes :=
  (matchURL t scheme urlHost).map fun c => basicAuthValue c.1 c.2

/-- `HTTPProxy.setBasicAuth` on a header map, given the table's answer for the request URL: the site
    credential is set only when `Header.Get("Authorization")` is empty -/
def setBasicAuth (site : Option Bytes) (h : C16.HMap) : C16.HMap :=
  match site with
  | some a => if (Req.goGet h (bs "Authorization")).isEmpty then C16.goSet h (bs "Authorization") a else h
  | none => h

/-- `setEmptyUserAgent` -/
def setEmptyUserAgent (h : C16.HMap) : C16.HMap :=
  if (C16.HMap.get h (bs "User-Agent")).isNone then C16.goSet h (bs "User-Agent") [] else h

/-- whole configuration of one proxy instance -/
structure FullCfg where
  base : Req.Cfg                      -- controls, rules, name/tag, mitm (its `upstream`/`siteCred` are ignored)
  route : RouteCfg := {}
  table : Option CredTable := none    -- result of `buildTable`
  deriving Repr

/-- the proxy selection with credentials attached the way `configureProxy` / `pacProxy` do -/
def selectWithCreds (fc : FullCfg) (host : Bytes) : Except RouteError (Option ProxyURL) :=
  let rc : RouteCfg := match fc.route.base with
    | .static u => { fc.route with base := .static (upstreamProxyURL fc.table u) }
    | _ => fc.route
  match selectProxy rc host, fc.route.base with
  | .ok (some u), .pac _ => .ok (some (pacAttach fc.table u))
  | r, _ => r

/-- configuration of the request pipeline for a request with this (scheme, URL host) -/
def resolve (fc : FullCfg) (scheme urlHost : Bytes) : Req.Cfg :=
  { fc.base with
    upstream := toUpstream (selectWithCreds fc (hostname urlHost))
    siteCred := siteCredFor fc.table scheme urlHost }

def processRequest (fc : FullCfg) (ctx : Req.Ctx) (r : Req.Request) : Req.Outcome :=
  match Req.reqTarget ctx r with
  | none => .unreadable
  | some (scheme, urlHost) => Req.processRequest (resolve fc scheme urlHost) ctx r

def requestActions (fc : FullCfg) (ctx : Req.Ctx) (r : Req.Request) : List Req.Action :=
  match Req.reqTarget ctx r with
  | none => []
  | some (scheme, urlHost) => Req.requestActions (resolve fc scheme urlHost) ctx r

def processConnect (fc : FullCfg) (ctx : Req.Ctx) (c : Req.ConnectReq) : Req.ConnectOutcome :=
  Req.processConnect (resolve fc [] c.authority) ctx c

def connectActions (fc : FullCfg) (ctx : Req.Ctx) (c : Req.ConnectReq) : List Req.Action :=
  Req.connectActions (resolve fc [] c.authority) ctx c

/-! ### one proxy instance with a PAC script serving a sequence of requests

`pacProxy` evaluates the script for every request, takes the first entry of the answer and then asks
the credentials table about *that* proxy URL (`hp.creds.MatchURL(proxyURL)`): the table is built
once and only read afterwards, nothing about an earlier lookup is kept.  The only thing that changes
between two requests is the resolver pool (`C05.InstState`). -/

/-- the lookup `pacProxy` makes for the proxy the script selected -/
def pacLookup (t : Option CredTable) (u : ProxyURL) : Option Cred := matchURL t u.scheme u.host

/-- `HTTPProxy.pacProxy` on the script's answer for one request: the selection with the table
    entry attached -/
def pacSelect (t : Option CredTable) (r : C05.PacResult) : Except RouteError (Option ProxyURL) :=
  match C05.pacAnswer r with
  | .ok (some u) => .ok (some (pacAttach t u))
  | x => x

/-- one request of the instance: a resolver is taken from the pool and put back, the table is read -/
def pacCredStep (t : Option CredTable) (st : C05.InstState) (r : C05.PacResult) :
    C05.InstState × Except RouteError (Option ProxyURL) :=
  (st.evaluate, pacSelect t r)

/-- the proxy URLs (with credentials) one instance hands to the transport / the CONNECT dialler for
    a list of requests, given the script's answer for each, in order -/
def pacCredSeq (t : Option CredTable) : C05.InstState → List C05.PacResult → List (Except RouteError (Option ProxyURL))
  | _, [] => []
  | st, r :: rs => (pacCredStep t st r).2 :: pacCredSeq t (pacCredStep t st r).1 rs

/-- the counter-model: an instance that remembers the table's answer per selected proxy under a key
    (every answer is kept, "no entry" as well) -/
def pacLookupMemo {κ : Type} [DecidableEq κ] (key : ProxyURL → κ) (t : Option CredTable) (us : List ProxyURL) :
    List (Option Cred) :=
  C05.memoRun key (fun _ => true) (pacLookup t) [] us

/-- what the selected HTTP(S) proxy is sent as Proxy-Authorization when the lookup answered `c` -/
def proxyAuthFor (u : ProxyURL) (c : Option Cred) : Option Bytes :=
  C05.authValue (match c with | some c => { u with user := some c } | none => u)

end C06
end FwdVerif
