/-
  C06 — credentials: the `--credentials` table, which credential goes to which hop.

  Mirrors
    credentials.go   NewCredentialsMatcher (four maps, duplicates rejected), MatchURL (default port by
                     scheme), Match (exact host:port, then *:port, then host:*, then *:*)
    http_proxy.go    upstreamProxyURL (URL userinfo wins, else table), pacProxy (table entry attached),
                     setBasicAuth (site credential unless the client sent Authorization)
  and composes configuration → `Req.Cfg` for one request (`resolve`), so that the request pipeline
  (`Req.processRequest`, `Req.processConnect`) yields the header set every hop receives; and one
  instance with a PAC script over a sequence of requests (`pacCredSeq`; counter-model `pacLookupMemo`).
  Core-only.
-/
import FwdVerif.Model.C05

namespace FwdVerif
namespace C06

open Ascii
open Req (bs hostname urlPort netSplitHostPort netJoinHostPort basicAuthValue Upstream)
open C05 (ProxyURL RouteCfg RouteError selectProxy toUpstream)

/-! ### the credentials table -/

abbrev Cred := Bytes × Bytes          -- user, password ("" when none was given)

/-- one `--credentials user:pass@host:port` entry; `host = "*"` and `port = "0"` are the wildcards
    (`ParseHostPortUser` turns a `*` port into `0`) -/
structure CredEntry where
  host : Bytes
  port : Bytes
  cred : Cred
  deriving Repr, DecidableEq

structure CredTable where
  hostport : List (Bytes × Cred) := []
  host : List (Bytes × Cred) := []
  port : List (Bytes × Cred) := []
  global : Option Cred := none
  deriving Repr

def star : Bytes := [42]
def zero : Bytes := [48]

/-- `HostPortUser.Validate` as far as it is modelled: host, port and user present -/
def CredEntry.valid (e : CredEntry) : Bool := !e.host.isEmpty && !e.port.isEmpty && !e.cred.1.isEmpty

/-- one step of the loop in `NewCredentialsMatcher`; `none` = configuration rejected -/
def addEntry (t : CredTable) (e : CredEntry) : Option CredTable :=
  if !e.valid then none
  else if e.host == star && e.port == zero then
    if t.global.isSome then none else some { t with global := some e.cred }
  else if e.host == star then
    if (t.port.lookup e.port).isSome then none else some { t with port := t.port ++ [(e.port, e.cred)] }
  else if e.port == zero then
    if (t.host.lookup e.host).isSome then none else some { t with host := t.host ++ [(e.host, e.cred)] }
  else
    let k := netJoinHostPort e.host e.port
    if (t.hostport.lookup k).isSome then none else some { t with hostport := t.hostport ++ [(k, e.cred)] }

/-- `NewCredentialsMatcher`: `none` = rejected, `some none` = nil matcher (no entries) -/
def buildTable (es : List CredEntry) : Option (Option CredTable) :=
  if es.isEmpty then some none
  else (es.foldlM addEntry {}).map some

/-- `CredentialsMatcher.Match` -/
def CredTable.matchHostport (t : CredTable) (hp : Bytes) : Option Cred :=
  match t.hostport.lookup hp with
  | some c => some c
  | none =>
    match netSplitHostPort hp with
    | none => none
    | some (host, port) =>
      match t.port.lookup port with
      | some c => some c
      | none =>
        match t.host.lookup host with
        | some c => some c
        | none => t.global

/-- `CredentialsMatcher.MatchURL` on (scheme, `URL.Host`) -/
def CredTable.matchURL (t : CredTable) (scheme urlHost : Bytes) : Option Cred :=
  if (urlPort urlHost).isEmpty then
    if scheme == bs "http" then t.matchHostport (urlHost ++ bs ":80")
    else if scheme == bs "https" then t.matchHostport (urlHost ++ bs ":443")
    else none
  else t.matchHostport urlHost

def matchURL (t : Option CredTable) (scheme urlHost : Bytes) : Option Cred :=
  match t with
  | none => none
  | some t => t.matchURL scheme urlHost

def matchHostport (t : Option CredTable) (hp : Bytes) : Option Cred :=
  match t with
  | none => none
  | some t => t.matchHostport hp

/-! ### which credential goes where -/

/-- `upstreamProxyURL`: userinfo of the configured URL wins, else the table entry for the proxy -/
def upstreamProxyURL (t : Option CredTable) (u : ProxyURL) : ProxyURL :=
  match u.user with
  | some _ => u
  | none => { u with user := matchURL t u.scheme u.host }

/-- `pacProxy`: the table entry for the PAC-selected proxy, if any -/
def pacAttach (t : Option CredTable) (u : ProxyURL) : ProxyURL :=
  match matchURL t u.scheme u.host with
  | some c => { u with user := some c }
  | none => u

/-- `setBasicAuth`'s lookup: the `Authorization` value for the request URL (scheme is empty for a
    CONNECT request, whose URL has only a host) -/
def siteCredFor (t : Option CredTable) (scheme urlHost : Bytes) : Option Bytes :=
  (matchURL t scheme urlHost).map fun c => basicAuthValue c.1 c.2

/-- `HTTPProxy.setBasicAuth` on a header map, given the table's answer for the request URL: the site
    credential is set only when `Header.Get("Authorization")` is empty -/
def setBasicAuth (site : Option Bytes) (h : C16.HMap) : C16.HMap :=
  match site with
  | some a => if (Req.goGet h (bs "Authorization")).isEmpty then C16.goSet h (bs "Authorization") a else h
  | none => h

/-- `setEmptyUserAgent` -/
def setEmptyUserAgent (h : C16.HMap) : C16.HMap :=
  if (C16.HMap.get h (bs "User-Agent")).isNone then C16.goSet h (bs "User-Agent") [] else h

/-- whole configuration of one proxy instance -/
structure FullCfg where
  base : Req.Cfg                      -- controls, rules, name/tag, mitm (its `upstream`/`siteCred` are ignored)
  route : RouteCfg := {}
  table : Option CredTable := none    -- result of `buildTable`
  deriving Repr

/-- the proxy selection with credentials attached the way `configureProxy` / `pacProxy` do -/
def selectWithCreds (fc : FullCfg) (host : Bytes) : Except RouteError (Option ProxyURL) :=
  let rc : RouteCfg := match fc.route.base with
    | .static u => { fc.route with base := .static (upstreamProxyURL fc.table u) }
    | _ => fc.route
  match selectProxy rc host, fc.route.base with
  | .ok (some u), .pac _ => .ok (some (pacAttach fc.table u))
  | r, _ => r

/-- configuration of the request pipeline for a request with this (scheme, URL host) -/
def resolve (fc : FullCfg) (scheme urlHost : Bytes) : Req.Cfg :=
  { fc.base with
    upstream := toUpstream (selectWithCreds fc (hostname urlHost))
    siteCred := siteCredFor fc.table scheme urlHost }

def processRequest (fc : FullCfg) (ctx : Req.Ctx) (r : Req.Request) : Req.Outcome :=
  match Req.reqTarget ctx r with
  | none => .unreadable
  | some (scheme, urlHost) => Req.processRequest (resolve fc scheme urlHost) ctx r

def requestActions (fc : FullCfg) (ctx : Req.Ctx) (r : Req.Request) : List Req.Action :=
  match Req.reqTarget ctx r with
  | none => []
  | some (scheme, urlHost) => Req.requestActions (resolve fc scheme urlHost) ctx r

def processConnect (fc : FullCfg) (ctx : Req.Ctx) (c : Req.ConnectReq) : Req.ConnectOutcome :=
  Req.processConnect (resolve fc [] c.authority) ctx c

def connectActions (fc : FullCfg) (ctx : Req.Ctx) (c : Req.ConnectReq) : List Req.Action :=
  Req.connectActions (resolve fc [] c.authority) ctx c

/-! ### one proxy instance with a PAC script serving a sequence of requests

`pacProxy` evaluates the script for every request, takes the first entry of the answer and then asks
the credentials table about *that* proxy URL (`hp.creds.MatchURL(proxyURL)`): the table is built
once and only read afterwards, nothing about an earlier lookup is kept.  The only thing that changes
between two requests is the resolver pool (`C05.InstState`). -/

/-- the lookup `pacProxy` makes for the proxy the script selected -/
def pacLookup (t : Option CredTable) (u : ProxyURL) : Option Cred := matchURL t u.scheme u.host

/-- `HTTPProxy.pacProxy` on the script's answer for one request: the selection with the table
    entry attached -/
def pacSelect (t : Option CredTable) (r : C05.PacResult) : Except RouteError (Option ProxyURL) :=
  match C05.pacAnswer r with
  | .ok (some u) => .ok (some (pacAttach t u))
  | x => x

/-- one request of the instance: a resolver is taken from the pool and put back, the table is read -/
def pacCredStep (t : Option CredTable) (st : C05.InstState) (r : C05.PacResult) :
    C05.InstState × Except RouteError (Option ProxyURL) :=
  (st.evaluate, pacSelect t r)

/-- the proxy URLs (with credentials) one instance hands to the transport / the CONNECT dialler for
    a list of requests, given the script's answer for each, in order -/
def pacCredSeq (t : Option CredTable) : C05.InstState → List C05.PacResult → List (Except RouteError (Option ProxyURL))
  | _, [] => []
  | st, r :: rs => (pacCredStep t st r).2 :: pacCredSeq t (pacCredStep t st r).1 rs

/-- the counter-model: an instance that remembers the table's answer per selected proxy under a key
    (every answer is kept, "no entry" as well) -/
def pacLookupMemo {κ : Type} [DecidableEq κ] (key : ProxyURL → κ) (t : Option CredTable) (us : List ProxyURL) :
    List (Option Cred) :=
  C05.memoRun key (fun _ => true) (pacLookup t) [] us

/-- what the selected HTTP(S) proxy is sent as Proxy-Authorization when the lookup answered `c` -/
def proxyAuthFor (u : ProxyURL) (c : Option Cred) : Option Bytes :=
  C05.authValue (match c with | some c => { u with user := some c } | none => u)

/-! ### lookups in flight at the same time

`CredentialsMatcher.Match` is called by every request (`setBasicAuth`: the request URL; `pacProxy`: the
selected proxy) on the one matcher of the instance, from as many goroutines as there are requests in flight.
The matcher is modelled as a machine: shared state, and the atomic steps one lookup is made of; a schedule
names, step by step, the lookup that moves next.  The code's matcher reads tables that nobody writes after
`NewCredentialsMatcher` (`tableMatcher`: one step, no state); `twoSlotCache` is the counter-model that
remembers the last lookup in two separately updated cells. -/

/-- where a lookup in flight stands -/
inductive LookupPc
  | start
  | hit                              -- (cache) the remembered key was equal, the remembered answer is read next
  | computed (c : Option Cred)       -- (cache) the tables were walked, the key is stored next
  | keyStored (c : Option Cred)      -- (cache) the key is stored, the answer is stored next
  | done (c : Option Cred)
  deriving Repr, DecidableEq

structure Lookup where
  hp : Bytes
  pc : LookupPc := .start
  deriving Repr, DecidableEq

/-- a matcher implementation: one atomic step of a lookup over the state all lookups share -/
structure MatcherImpl (σ : Type) where
  step : σ → Lookup → σ × Lookup

/-- the lookups in flight (by number) under a schedule: the named lookup makes its next step -/
def runSched {σ : Type} (m : MatcherImpl σ) : σ → (Nat → Lookup) → List Nat → σ × (Nat → Lookup)
  | s, ls, [] => (s, ls)
  | s, ls, i :: sched =>
    runSched m (m.step s (ls i)).1 (fun j => if j = i then (m.step s (ls i)).2 else ls j) sched

/-- `CredentialsMatcher.Match`: the four maps are only read -/
def tableMatcher (t : Option CredTable) : MatcherImpl Unit where
  step s l := match l.pc with
    | .done _ => (s, l)
    | _ => (s, { l with pc := .done (matchHostport t l.hp) })

/-- the two cells of the counter-model: host:port of the last lookup, and its answer -/
structure LastSlots where
  key : Option Bytes := none
  val : Option Cred := none
  deriving Repr, DecidableEq

/-- counter-model: `Match` with a one-entry "last lookup" memo kept in two cells, each loaded and stored
    atomically, the pair not: load key; equal → load answer; else walk the tables, store key, store answer -/
def twoSlotCache (t : Option CredTable) : MatcherImpl LastSlots where
  step s l := match l.pc with
    | .start => if s.key = some l.hp then (s, { l with pc := .hit }) else (s, { l with pc := .computed (matchHostport t l.hp) })
    | .hit => (s, { l with pc := .done s.val })
    | .computed c => ({ s with key := some l.hp }, { l with pc := .keyStored c })
    | .keyStored c => ({ s with val := c }, { l with pc := .done c })
    | .done _ => (s, l)

/-- `look` is what lookups get from implementation `m` started in state `s0`: every answer `look hp` is the
    answer of a finished lookup for `hp` under SOME schedule among SOME other lookups in flight -/
def ServedBy {σ : Type} (m : MatcherImpl σ) (s0 : σ) (look : Bytes → Option Cred) : Prop :=
  ∀ hp, ∃ (ls : Nat → Lookup) (sched : List Nat) (i : Nat),
    (∀ j, (ls j).pc = .start) ∧ (ls i).hp = hp ∧ i ∈ sched ∧ ((runSched m s0 ls sched).2 i).pc = .done (look hp)

/-- `MatchURL` over whatever `Match` answered -/
def matchURLWith (look : Bytes → Option Cred) (scheme urlHost : Bytes) : Option Cred :=
  if (urlPort urlHost).isEmpty then
    if scheme == bs "http" then look (urlHost ++ bs ":80")
    else if scheme == bs "https" then look (urlHost ++ bs ":443")
    else none
  else look urlHost

/-- `upstreamProxyURL` over whatever `Match` answered -/
def upstreamProxyURLWith (look : Bytes → Option Cred) (u : ProxyURL) : ProxyURL :=
  match u.user with
  | some _ => u
  | none => { u with user := matchURLWith look u.scheme u.host }

/-- `pacProxy`'s attach over whatever `Match` answered -/
def pacAttachWith (look : Bytes → Option Cred) (u : ProxyURL) : ProxyURL :=
  match matchURLWith look u.scheme u.host with
  | some c => { u with user := some c }
  | none => u

/-- `selectWithCreds` over whatever `Match` answered -/
def selectWithCredsWith (look : Bytes → Option Cred) (fc : FullCfg) (host : Bytes) : Except RouteError (Option ProxyURL) :=
  let rc : RouteCfg := match fc.route.base with
    | .static u => { fc.route with base := .static (upstreamProxyURLWith look u) }
    | _ => fc.route
  match selectProxy rc host, fc.route.base with
  | .ok (some u), .pac _ => .ok (some (pacAttachWith look u))
  | r, _ => r

/-- `resolve` over whatever `Match` answered to the lookups made for this request -/
def resolveWith (look : Bytes → Option Cred) (fc : FullCfg) (scheme urlHost : Bytes) : Req.Cfg :=
  { fc.base with
    upstream := toUpstream (selectWithCredsWith look fc (hostname urlHost))
    siteCred := (matchURLWith look scheme urlHost).map fun c => basicAuthValue c.1 c.2 }

def requestActionsWith (look : Bytes → Option Cred) (fc : FullCfg) (ctx : Req.Ctx) (r : Req.Request) : List Req.Action :=
  match Req.reqTarget ctx r with
  | none => []
  | some (scheme, urlHost) => Req.requestActions (resolveWith look fc scheme urlHost) ctx r

def connectActionsWith (look : Bytes → Option Cred) (fc : FullCfg) (ctx : Req.Ctx) (c : Req.ConnectReq) : List Req.Action :=
  Req.connectActions (resolveWith look fc [] c.authority) ctx c

/-- one lookup run to its end on its own (a caller that makes one lookup at a time) -/
def lookupAlone {σ : Type} (m : MatcherImpl σ) (s : σ) (hp : Bytes) : σ × Lookup :=
  let a := m.step s { hp := hp }
  let b := m.step a.1 a.2
  let c := m.step b.1 b.2
  m.step c.1 c.2

/-- lookups made one after the other, each finished before the next starts -/
def lookupsInTurn {σ : Type} (m : MatcherImpl σ) : σ → List Bytes → List LookupPc
  | _, [] => []
  | s, hp :: hps => (lookupAlone m s hp).2.pc :: lookupsInTurn m (lookupAlone m s hp).1 hps

/-! ### one process that constructs several proxies

`NewHTTPProxy(cfg, …)` is handed a `*HTTPProxyConfig`; `cfg.UpstreamProxy` is a `*url.URL`.  The caller
may use the same configuration (the same `*url.URL`) for several proxies, each with a credentials table of its
own, and derive further configurations from it by value copy (`u2 := *cfg.UpstreamProxy; u2.Host = …`: the
`User` pointer travels with the copy).  The caller's URLs are modelled as numbered cells; a constructor is a
function from (its table, the URL it is handed) to (the URL it leaves in the caller's cell, the URL the proxy
uses).  `upstreamProxyURL` completes a COPY: the code's constructor leaves the cell alone (`ctorCopy`);
`ctorInPlace` is the counter-model that completes the caller's URL. -/

inductive HistOp
  | build (cell : Nat) (t : Option CredTable)    -- NewHTTPProxy with the URL in this cell and this table
  | derive (src : Nat) (host : Bytes)            -- a new cell: value copy of cell `src`, pointed at `host`
  deriving Repr

abbrev Ctor := Option CredTable → ProxyURL → ProxyURL × ProxyURL

def ctorCopy : Ctor := fun t u => (u, upstreamProxyURL t u)
def ctorInPlace : Ctor := fun t u => (upstreamProxyURL t u, upstreamProxyURL t u)

/-- what the caller does to its cells, constructions aside -/
def callerStep (cells : List ProxyURL) : HistOp → List ProxyURL
  | .build _ _ => cells
  | .derive src host => match cells[src]? with
    | some u => cells ++ [{ u with host := host }]
    | none => cells

/-- the cells as the caller wrote them after a history (constructions write nothing) -/
def writtenCells (cells : List ProxyURL) (ops : List HistOp) : List ProxyURL := ops.foldl callerStep cells

/-- a history under a constructor: per operation the URL (with credentials) the proxy built by it presents
    itself to its upstream proxy with (`none` for an operation that builds nothing), and the cells afterwards -/
def runHist (ctor : Ctor) : List ProxyURL → List HistOp → List (Option ProxyURL) × List ProxyURL
  | cells, [] => ([], cells)
  | cells, .build c t :: ops =>
    match cells[c]? with
    | some u =>
      let r := runHist ctor (cells.set c (ctor t u).1) ops
      (some (ctor t u).2 :: r.1, r.2)
    | none => let r := runHist ctor cells ops; (none :: r.1, r.2)
  | cells, .derive src host :: ops =>
    let r := runHist ctor (callerStep cells (.derive src host)) ops
    (none :: r.1, r.2)

/-- the k-th operation judged on its own configuration: the URL in its cell as the caller wrote it, its table -/
def ownAnswer (cells : List ProxyURL) (ops : List HistOp) (k : Nat) : Option ProxyURL :=
  match ops[k]? with
  | some (.build c t) => (writtenCells cells (ops.take k))[c]?.map (upstreamProxyURL t)
  | _ => none

end C06
end FwdVerif
