/-
  C11 — the layer ABOVE `HTTPProxy.Run`: how `command/run` hosts the proxy (`runctx/runctx.go`, `command/run/run.go`).

    g := runctx.NewGroup(); g.Add(p.Run); g.Add(apiServer.Run) …; return g.Run()

  `Group.RunContext`:
  * `signal.NotifyContext(ctx, g.NotifySignals...)`: the FIRST signal of `NotifySignals` delivered to the process cancels
    the context every member runs with (`gstep (.signal n)` while the run context is not done = the action `cancel` of
    `Model/C11.lean`), and the group stops listening as soon as that context is done (`unregisterSignals`).  The
    grace-period context of the drain does not exist at that moment: `HTTPProxy.run` builds it (`shutdownContext`:
    `signal.NotifyContext(…, ShutdownSignals)` + timeout) only AFTER its own context is done — so the signal that
    REQUESTS the shutdown cannot end it; a later one of `ShutdownSignals` does (`Action.sig n runShut`).  One delivery
    reaches every relay that is registered at that instant, in one step.
  * the members run concurrently (`errgroup`); the companions of the proxy (API server, unix-socket server) return
    some time after the context is done (`memberRet i`: at once when they have nothing to drain, late when they have);
  * `eg.Wait()`: `RunContext` returns (`groupRet`) — and `forwarder run` leaves `main`, the process exits — only when
    EVERY member has returned: the proxy's `run` (`runner = finished`) and every companion.

  The proxy below is `Model/C11.lean`, unchanged; under this host it is driven by `run` only (no API calls of
  `Shutdown` / `Close`), and signals reach it through the host (`signal`), not directly.  Core-only.
-/
import FwdVerif.Model.C11

namespace FwdVerif
namespace C11

/-- number of a companion member of the group -/
abbrev MemberId := Nat

structure GState where
  base : State := {}                       -- the proxy
  gsigs : List Sig := []                   -- `Group.NotifySignals`
  members : Nat := 0                       -- how many companions the proxy has in the group
  mret : MemberId → Bool := fun _ => false -- companion `i` has returned
  groupRet : Bool := false                 -- `RunContext` has returned
  -- ghost (never read by a guard of the code)
  graceHits : Nat := 0                     -- deliveries that reached the relay of a live grace-period context
  delivered : List Sig := []               -- every signal delivered so far, newest first

/-- the initial state of a process that hosts the proxy in a group -/
def ginit (noLimit : Bool) (signals gsigs : List Sig) (members : Nat) : GState :=
  { base := initCfg noLimit signals, gsigs := gsigs, members := members }

inductive GAction where
  | base (a : Action)          -- an action of the proxy or of its environment
  | signal (n : Sig)           -- signal `n` is delivered to the process
  | memberRet (i : MemberId)   -- companion `i` returns
  | groupRet                   -- `RunContext` returns
  deriving DecidableEq, Repr, Inhabited

/-- actions of `Model/C11.lean` that the host owns: signals reach the proxy through the process (`signal`); a hosted
    proxy is not driven through the API -/
def hostOwned : Action → Bool
  | .sig _ _ | .shutdownCall _ _ _ | .closeCall _ => true
  | _ => false

/-- every companion has returned -/
def allMembersReturned (g : GState) : Bool := (List.range g.members).all fun i => g.mret i

/-- the relay of the group (`signal.NotifyContext(ctx, NotifySignals...)`, registered until the run context is done):
    the first signal of the set cancels the run context — the action `cancel` of the proxy's model -/
def groupRelay (g : GState) (n : Sig) : State :=
  if n ∈ g.gsigs then
    match step g.base .cancel with
    | some b => b
    | none => g.base
  else g.base

/-- a delivery reaches the relay of a live grace-period context subscribed to it -/
def hitsGrace (b : State) (n : Sig) : Bool :=
  decide ((b.shuts b.runShut).pc ≠ .idle ∧ n ∈ (b.shuts b.runShut).sigs)

def gstep (g : GState) : GAction → Option GState
  | .base a => if hostOwned a then none else (step g.base a).map fun b => { g with base := b }
  | .signal n =>
    -- one delivery, every registered relay: (1) the group's, (2) the grace-period context's, if `run` has built it
    let b1 := groupRelay g n
    match step b1 (.sig n b1.runShut) with
    | some b2 => some { g with base := b2, delivered := n :: g.delivered,
                               graceHits := g.graceHits + (if hitsGrace b1 n then 1 else 0) }
    | none => none
  | .memberRet i =>
    -- a companion returns `ctx.Err()` some time after the context is done
    if i < g.members ∧ g.mret i = false ∧ g.base.runner ≠ .idle then
      some { g with mret := fun j => if j = i then true else g.mret j }
    else none
  | .groupRet =>
    -- `eg.Wait()`: every member has returned
    if g.groupRet = false ∧ g.base.runner = .finished ∧ allMembersReturned g = true then
      some { g with groupRet := true }
    else none

def grun (g : GState) : List GAction → Option GState
  | [] => some g
  | a :: as =>
    match gstep g a with
    | some g' => grun g' as
    | none => none

inductive GReachable : GState → Prop where
  | start (noLimit : Bool) (signals gsigs : List Sig) (members : Nat) : GReachable (ginit noLimit signals gsigs members)
  | step {g g' : GState} (a : GAction) : GReachable g → gstep g a = some g' → GReachable g'

/-! ## Variants that are NOT the code -/

structure GVariant where
  /-- `HTTPProxy.run` subscribes to `ShutdownSignals` at its TOP ("a signal arriving before the shutdown context exists
      would kill the process") and derives the grace-period context from that subscription later: a signal of the set
      delivered BEFORE the drain — the one that requests it — has cancelled the grace-period context before it is used -/
  subscribeAtRunStart : Bool := false
  /-- `RunContext` rewritten without `errgroup`: the collect loop `for range g.funcs { if err = <-errc; err != nil {
      cancel(); break } }` leaves at the FIRST non-nil result — and on a graceful shutdown every member returns
      `ctx.Err()`: the group returns as soon as ONE member has returned -/
  returnAtFirstMember : Bool := false
  deriving DecidableEq, Repr

/-- some member — the proxy's `run` or a companion — has returned -/
def someMemberReturned (g : GState) : Bool :=
  decide (g.base.runner = .finished) || (List.range g.members).any fun i => g.mret i

def gstepV (v : GVariant) (g : GState) : GAction → Option GState
  | .base (.runShutdown k) =>
    if v.subscribeAtRunStart = true then
      match gstep g (.base (.runShutdown k)) with
      | some g' =>
        -- the subscription is as old as `run`: whatever signal of the set was delivered so far has cancelled it
        if g.delivered.any (fun n => g.base.cfgSignals.contains n) then
          some { g' with base := setShut g'.base k (ctxDone (g'.base.shuts k) .cancel) }
        else some g'
      | none => none
    else gstep g (.base (.runShutdown k))
  | .groupRet =>
    if v.returnAtFirstMember = true then
      if g.groupRet = false ∧ g.base.runner ≠ .idle ∧ someMemberReturned g = true then some { g with groupRet := true }
      else none
    else gstep g .groupRet
  | a => gstep g a

def grunV (v : GVariant) (g : GState) : List GAction → Option GState
  | [] => some g
  | a :: as =>
    match gstepV v g a with
    | some g' => grunV v g' as
    | none => none

end C11
end FwdVerif
