/-
  C18 — the loop refusal as an ERROR VALUE on its way through `errorResponse` (http_proxy_errors.go).

  `ViaModifier.ModifyRequest` reports a loop as

      martian.ErrorStatus{Err: fmt.Errorf("via: detected request loop, header contains %s", via), Status: 400}

  i.e. an error whose TYPE says 400 and whose TEXT embeds the received Via chain — bytes written by
  other hops (or by the client).  `errorResponse` walks an ordered list of handlers; the first one
  that claims the error decides the status.  Model/C12.lean abstracts an error to what the fourteen
  handlers look at (`ErrShape`), with the text reduced to one derived attribute (`statusText`).  Here
  the text is kept (`TextErr`), the handlers are functions of (shape, text) (`THandler`), and the code's
  list is C12's list lifted (`handlersT`): `statusText` is computed from the text (`statusTextOf`,
  net/http's `StatusText` table), nothing else of the text is read by the code.

  With the text explicit one can say what the property needs — "a request carrying the own element is
  answered exactly 400, whatever else the chain holds" — about the classification step too, and one can
  write down the handlers the code does NOT have: a handler that recognises an error by a phrase in its
  text (`containsHandler`, `suffixHandler`, `equalsHandler`).  Placed before `handleMartianErrorStatus`
  such a handler lets text chosen by another hop decide the status of a loop refusal.

  Core-only.
-/
import FwdVerif.Model.C18
import FwdVerif.Model.C12

namespace FwdVerif
namespace C18

open Req

/-! ### the error text -/

/-- `"via: detected request loop, header contains "` -/
def loopErrPrefix : Bytes := bs "via: detected request loop, header contains "

/-- `err.Error()` of the loop refusal for the chain the modifier read (`viaChainOf h`: all Via field
    lines joined with ", ") -/
def loopErrText (chain : Bytes) : Bytes := loopErrPrefix ++ chain

/-- net/http `StatusText` for the codes 400 ≤ i < 600 that have one (status.go); every other code
    yields "" -/
def statusTexts : List (Nat × Bytes) :=
  [(400, bs "Bad Request"), (401, bs "Unauthorized"), (402, bs "Payment Required"), (403, bs "Forbidden"),
   (404, bs "Not Found"), (405, bs "Method Not Allowed"), (406, bs "Not Acceptable"),
   (407, bs "Proxy Authentication Required"), (408, bs "Request Timeout"), (409, bs "Conflict"), (410, bs "Gone"),
   (411, bs "Length Required"), (412, bs "Precondition Failed"), (413, bs "Request Entity Too Large"),
   (414, bs "Request URI Too Long"), (415, bs "Unsupported Media Type"), (416, bs "Requested Range Not Satisfiable"),
   (417, bs "Expectation Failed"), (418, bs "I'm a teapot"), (421, bs "Misdirected Request"),
   (422, bs "Unprocessable Entity"), (423, bs "Locked"), (424, bs "Failed Dependency"), (425, bs "Too Early"),
   (426, bs "Upgrade Required"), (428, bs "Precondition Required"), (429, bs "Too Many Requests"),
   (431, bs "Request Header Fields Too Large"), (451, bs "Unavailable For Legal Reasons"),
   (500, bs "Internal Server Error"), (501, bs "Not Implemented"), (502, bs "Bad Gateway"),
   (503, bs "Service Unavailable"), (504, bs "Gateway Timeout"), (505, bs "HTTP Version Not Supported"),
   (506, bs "Variant Also Negotiates"), (507, bs "Insufficient Storage"), (508, bs "Loop Detected"),
   (510, bs "Not Extended"), (511, bs "Network Authentication Required")]

/-- `for i := 400; i < 600; i++ { if err.Error() == http.StatusText(i) { return i … } }`: the first
    code whose text equals the error text.  The empty text equals the text of the first code WITHOUT
    one, 419. -/
def statusTextOf (t : Bytes) : Option Nat :=
  if t.isEmpty then some 419
  else (statusTexts.find? fun e => e.2 == t).map (·.1)

/-! ### handlers of (shape, text) -/

/-- an error as `errorResponse`'s handlers can see it: what `errors.As` / `errors.Is` reveal of the
    chain (`shape`; its `statusText` attribute is NOT read — it is derived from `text`) and `err.Error()` -/
structure TextErr where
  shape : C12.ErrShape
  text : Bytes
  deriving Repr

/-- the shape with the text-derived attribute filled in -/
def TextErr.fullShape (e : TextErr) : C12.ErrShape := { e.shape with statusText := statusTextOf e.text }

/-- a handler sees the request (`req.URL.Scheme == "https"`) and the error, text included -/
abbrev THandler := Bool → TextErr → C12.Verdict

/-- one of the code's handlers: it reads the text through `statusText` only -/
def lift (h : C12.Handler) : THandler := fun https e => h https e.fullShape

/-- the list of `errorResponse`, in code order -/
def handlersT : List THandler := C12.handlers.map lift

/-- `for _, h := range handlers { code, msg, label = h(req, err); if code != 0 { break } }` -/
def firstVerdictT : List THandler → Bool → TextErr → C12.Verdict
  | [], _, _ => C12.pass
  | h :: hs, https, e =>
    let v := h https e
    if v.1 != 0 then v else firstVerdictT hs https e

/-- … `if code == 0 { code = 500; label = "unexpected_error" }` -/
def classifyT (hs : List THandler) (https : Bool) (e : TextErr) : C12.Verdict :=
  let v := firstVerdictT hs https e
  if v.1 == 0 then (500, "unexpected_error") else v

/-- the loop refusal: `errors.As(martian.ErrorStatus)` finds status 400, nothing else matches; the text
    embeds the chain -/
def loopErr (chain : Bytes) : TextErr := { shape := { errorStatus := some 400 }, text := loopErrText chain }

/-- (status, metrics label) of the response to a detected loop, as a function of the request's scheme
    and of the chain the modifier read -/
def loopClass (https : Bool) (chain : Bytes) : C12.Verdict := classifyT handlersT https (loopErr chain)

/-- a handler never reads the text: its verdict is the same for every text -/
def TextBlind (h : THandler) : Prop := ∀ https s t t', h https ⟨s, t⟩ = h https ⟨s, t'⟩

/-! ### NOT the code: handlers that recognise an error by its text -/

/-- `if strings.Contains(err.Error(), pat) { code, label }` -/
def containsHandler (pat : Bytes) (code : Nat) (label : String) : THandler :=
  fun _ e => if isInfix pat e.text then (code, label) else C12.pass

/-- `if strings.HasSuffix(err.Error(), pat) { code, label }` -/
def suffixHandler (pat : Bytes) (code : Nat) (label : String) : THandler :=
  fun _ e => if pat.reverse.isPrefixOf e.text.reverse then (code, label) else C12.pass

/-- `handleStatusText` loosened to a suffix test: `strings.HasSuffix(err.Error(), http.StatusText(i))`
    for the codes that have a text (wrapped errors end with the text of the innermost one) -/
def statusSuffixHandler : THandler := fun https e =>
  if https then
    match statusTexts.find? fun p => p.2.reverse.isPrefixOf e.text.reverse with
    | some p => (p.1, "https_status_text")
    | none => C12.pass
  else C12.pass

/-- the code's list with one more handler inserted before position `k` (`k = 6`: right before
    `handleMartianErrorStatus`, next to the other transport-level handlers; `k = 7`: right after it) -/
def handlersWith (k : Nat) (h : THandler) : List THandler := handlersT.take k ++ h :: handlersT.drop k

end C18
end FwdVerif
