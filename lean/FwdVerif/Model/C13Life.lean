/-
  C13 — the life-cycle of an ACCEPTED connection up to its first request.

    net.go                      Listener.Accept: accepted++, active++, conntrack.Builder{OnClose: metrics.close}
                                (the hook runs once however often the tracked connection is closed — section D),
                                tls.Server over the tracked connection on an HTTPS listener; the PROXY protocol
                                listener sits BELOW the tracker
    internal/martian/proxy.go   handleLoop: register the connection, `defer conn.Close()`, `if p.closing() { return }`,
                                conn.RemoteAddr() (on a PROXY protocol listener: waits for the header and swallows
                                its error — the next read reports it), `pc.maybeHandshakeTLS()` → return on error,
                                then `pc.handle()` until it says close
    proxy_conn.go               maybeHandshakeTLS: tls.Conn.HandshakeContext under TLSHandshakeTimeout — when the
                                context expires crypto/tls closes the connection UNDER the tls.Conn (= the tracked
                                one) itself; every other handshake failure just returns the error
    go-proxyproto               header timeout: the library closes the socket (below the tracker) itself

  accepted → (proxy-header) → (tls-handshake) → serving → closed, with a failure edge out of every state
  before `closed`.  What a failure edge does to the socket and to the close hook depends on two things only:
  what the failing layer has closed by itself, and whether the `return` through which handleLoop leaves
  runs the deferred `conn.Close()` — `Layout` says which returns do (the code: all of them).
-/
import FwdVerif.Model.C13

namespace FwdVerif
namespace C13

/-- the layers under the proxy that have a phase of their own before the first request (rate limit and
    traffic tracking add none) -/
structure LStack where
  proxy : Bool   -- PROXY protocol listener
  tls : Bool     -- HTTPS listener
  deriving DecidableEq, Repr

inductive Phase
  | accepted       -- Listener.Accept returned the connection, handleLoop has been started
  | proxyHeader    -- waiting for the PROXY protocol header (conn.RemoteAddr())
  | tlsHandshake   -- maybeHandshakeTLS
  | serving        -- reading the first (or the next) request
  | closed         -- handleLoop has returned
  deriving DecidableEq, Repr

/-- the phase entered when the current one succeeds -/
def Phase.next (k : LStack) : Phase → Phase
  | .accepted => if k.proxy then .proxyHeader else if k.tls then .tlsHandshake else .serving
  | .proxyHeader => if k.tls then .tlsHandshake else .serving
  | .tlsHandshake => .serving
  | .serving => .serving
  | .closed => .closed

/-- why a phase ends the connection -/
inductive EndCause
  | peer      -- the layer's read / the handshake returns an error and nobody has closed anything: FIN, RST,
              -- bytes that are not what the layer expects (a plain-text request on the TLS port, garbage, a
              -- truncated ClientHello), no common version or cipher suite, an alert from the client (unknown
              -- CA); in `accepted`: the proxy is shutting down; in `serving`: the client went away, errClose
  | timeout   -- the layer's own timer: PROXY header timeout, TLSHandshakeTimeout, idle timeout
  deriving DecidableEq, Repr

/-- what the failing layer has done to the connection by itself -/
inductive SelfClose
  | nothing
  | socketBelow   -- closed the socket underneath the tracker: no call of the tracked `Close`
  | tracked       -- one call of the tracked connection's `Close`
  deriving DecidableEq, Repr

def selfClose : Phase → EndCause → SelfClose
  | .proxyHeader, .timeout => .socketBelow    -- go-proxyproto closes the TCP connection
  | .tlsHandshake, .timeout => .tracked       -- HandshakeContext: `c.conn.Close()` when the context is done
  | _, _ => .nothing

/-- the `return` of handleLoop through which a failure in phase `ph` leaves: RemoteAddr() does not report
    the PROXY header error, the next layer's first read does — the handshake when there is one, else the
    first readRequest -/
def exitPoint (k : LStack) : Phase → Phase
  | .proxyHeader => Phase.next k .proxyHeader
  | ph => ph

/-- which returns of handleLoop run the deferred `conn.Close()` -/
abbrev Layout := Phase → Bool

/-- the code: the connection is registered and `defer conn.Close()` stands before anything that can fail -/
def Layout.code : Layout := fun _ => true

/-- "handshake first": newProxyConn + maybeHandshakeTLS moved above the registration and the defer — the
    failed-handshake return does not close -/
def Layout.handshakeFirst : Layout := fun ph => ph != .tlsHandshake

/-- calls of the tracked connection's `Close` on the failure edge out of `ph` -/
def closeCalls (lay : Layout) (k : LStack) (ph : Phase) (c : EndCause) : Nat :=
  (if selfClose ph c = .tracked then 1 else 0) + (if lay (exitPoint k ph) then 1 else 0)

/-- is the socket closed after the failure edge out of `ph`? -/
def socketClosedBy (lay : Layout) (k : LStack) (ph : Phase) (c : EndCause) : Bool :=
  selfClose ph c != .nothing || lay (exitPoint k ph)

/-- one accepted connection -/
structure AConn where
  phase : Phase
  socketOpen : Bool
  hook : Nat        -- runs of the close hook (listener_cx_active--)
  deriving DecidableEq, Repr

def AConn.new : AConn := ⟨.accepted, true, 0⟩

inductive AEv
  | ok                     -- the current phase succeeds (in `serving`: an exchange was served, keep-alive)
  | fail (c : EndCause)    -- the failure edge of the current phase
  deriving DecidableEq, Repr

/-- the hook is behind a `sync.Once` (section D): `n ≥ 1` calls of the tracked `Close` run it once -/
def AConn.step (lay : Layout) (k : LStack) (c : AConn) : AEv → AConn
  | .ok => if c.phase = .closed then c else { c with phase := c.phase.next k }
  | .fail cause =>
    if c.phase = .closed then c
    else
      { phase := .closed
        socketOpen := c.socketOpen && !socketClosedBy lay k c.phase cause
        hook := if c.hook = 0 ∧ 0 < closeCalls lay k c.phase cause then 1 else c.hook }

def AConn.run (lay : Layout) (k : LStack) (c : AConn) (evs : List AEv) : AConn := evs.foldl (AConn.step lay k) c

/-- the listener with its accepted connections -/
structure ALSt where
  accepted : Nat
  errors : Nat
  active : Int
  conns : List AConn
  deriving DecidableEq, Repr

def ALSt.init : ALSt := ⟨0, 0, 0, []⟩

inductive ALOp
  | accept
  | acceptError
  | conn (i : Nat) (e : AEv)    -- the `i`-th accepted connection takes a step
  deriving DecidableEq, Repr

def ALSt.step (lay : Layout) (k : LStack) (s : ALSt) : ALOp → ALSt
  | .accept => { s with accepted := s.accepted + 1, active := s.active + 1, conns := s.conns ++ [AConn.new] }
  | .acceptError => { s with errors := s.errors + 1 }
  | .conn i e =>
    match s.conns[i]? with
    | none => s
    | some c =>
      let c' := c.step lay k e
      { s with active := s.active - ((c'.hook : Int) - (c.hook : Int)), conns := s.conns.set i c' }

def ALSt.run (lay : Layout) (k : LStack) (s : ALSt) (ops : List ALOp) : ALSt := ops.foldl (ALSt.step lay k) s

/-- connections counted as closed -/
def ALSt.closedCount (s : ALSt) : Nat := (s.conns.map fun c => c.hook).sum

/-- sockets the proxy still holds open -/
def ALSt.openSockets (s : ALSt) : Nat := (s.conns.filter fun c => c.socketOpen).length

/-- every handleLoop has returned -/
def ALSt.allReturned (s : ALSt) : Bool := s.conns.all fun c => c.phase == .closed

/-- connections whose handleLoop has returned with the socket still open (dropped without `Close`) -/
def ALSt.dropped (s : ALSt) : Nat := (s.conns.filter fun c => c.phase == .closed && c.socketOpen).length

end C13
end FwdVerif
