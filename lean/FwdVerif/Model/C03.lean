/-
  C03 — CONNECT / Upgrade tunnels (`internal/martian/proxy_conn.go` `tunnel`, `copy.go` `drainBuffer`,
  `bicopy`, `copier`, `gracefulCloseAfter`, `close.go`, `dialvia/http.go` `DialContextR`).

  Two unidirectional pipes, `up` = client → target and `down` = target → client.  What the model keeps
  per pipe is exactly the bookkeeping the code has to get right:

  * `written`   everything the source endpoint wrote on its socket so far, head included
                (up: the CONNECT / Upgrade request head, down: the reply head of an upstream proxy or
                of the origin that switches protocols; empty for a direct dial);
  * `taken`     how many of those bytes the proxy has pulled off the socket, by whichever reader;
  * `held`      bytes a *buffered head reader* pulled off beyond the head and that still have to be
                forwarded (client side: `p.brw.Reader`, a 4096-byte `bufio.Reader`; Upgrade path: the
                transport's `pc.br`, read first by `readWriteCloserBody`);
  * `delivered` bytes the proxy wrote to the destination socket;
  * `fin`       the source endpoint shut down its sending side; `eof` the proxy issued `CloseWrite`
                on the destination; `done` the copier of this direction returned.

  Mechanisms mirrored (with the line they stand for):

  * `readHead k`   `http.ReadRequest(p.brw.Reader)`: the head and `k ≤ bufSize` following bytes leave
                   the socket; the `k` bytes stay in the reader (`held`);
  * `replyRead n`  one socket read of the reply reader; it reads the reply *head* and nothing else.
                   `dialvia.HTTPProxyDialer` reads through `bufio.NewReaderSize(byteReader{conn}, 128)`
                   and `byteReader.Read` asks the connection for `p[:1]`: every read returns one byte
                   (`replyGran = 1`), so the reader cannot have anything buffered when the blank line
                   arrives.  A 2xx reply to CONNECT has no content whatever `Content-Length` /
                   `Transfer-Encoding` it carries (RFC 9110 §9.3.6): `DialContextR` replaces the body
                   `http.ReadResponse` built from those fields by `http.NoBody`, so `connectHTTP`'s
                   `res.Body.Close()` reads nothing from the connection (it used to drain the declared
                   content out of the tunnel: finding F29, repaired).  A non-2xx reply, whose content
                   is real, is relayed to the client as the rejection and never becomes a tunnel: it
                   is outside this machine;
  * `connected`    the dial returns.  `DialContextR` returns the *raw* `conn`, the reader `pbr` is
                   garbage: whatever it had buffered beyond the head is gone (`replyKeep = false`,
                   counted in `dropped`).  On the 101 path `net/http` hands over
                   `readWriteCloserBody{br, conn}` which reads `br` first (`replyKeep = true`);
  * `drain`        `tunnel`: write the reply to the client, `drainBuffer(crw, p.brw.Reader)` = `Peek`
                   the buffered bytes and write them once to the target; the copiers are then started
                   on the raw `p.conn`, never on the reader;
  * `copy d n`     one iteration of `io.CopyBuffer` with the copier's *own* pooled 32 KiB buffer
                   (`copier.copy` takes one per direction: the two pipes below share no state, which
                   `c03_directions_independent` states);
  * `eof d`        `Read` returned `io.EOF`: `closeWriter` → `CloseWrite` on the destination, `donec <-`;
                   first one to finish arms `gracefulCloseAfter` (1 min), second one lets `bicopy`
                   return → deferred `crw.Close()` and `conn.Close()`;
  * `graceExpire`  the timer fires first: `Close` on both destinations, the remaining copier fails.

  The second half of the file puts a clock on this machine (`TState`, `tstep`): the grace timer is
  started at the instant of the first `eof` and `graceExpire` is enabled only once the period has
  elapsed.
  After the acceptor come two more layers, each of which leaves `step` as it is: `Legs` / `hstep` — what
  `closeWriter` can do to the destination of the direction that has finished (`CloseWrite` found or not:
  whether and when its far end is SHOWN end-of-stream) — and `Limits` / `lstep` — the limits of the phases
  before the tunnel on the clock of `TState`, none of which is armed once the tunnel is established.
  The last layer, `AState` / `astep`, is `hstep` with the two ways a copier returns on an ERROR (`abort d k`:
  the read of its source fails; `writeFail d`: the write to a destination that is gone fails).
  At the end of the file `stepReq` gives `drain` the request's close option as an input (`req.Close`: the 101 of
  an upgrade request that also asks to close, or is HTTP/1.0): under the code's rule it makes no difference.

  Core-only.
-/
import FwdVerif.Lib.Wire

namespace FwdVerif
namespace C03

inductive Dir where
  | up | down
  deriving DecidableEq, Repr

def Dir.other : Dir → Dir
  | .up => .down
  | .down => .up

structure Cfg where
  /-- length of the client's request head -/
  headLen : Nat
  /-- size of the client-side `bufio.Reader` (4096) -/
  bufSize : Nat
  /-- size of the copy buffer (32 KiB) -/
  copyMax : Nat
  /-- length of the reply head the far side sends before tunnel data (0: direct dial, `ConnectFunc`) -/
  replyLen : Nat
  /-- most bytes one socket read of the reply reader returns (1: `byteReader`; 32 KiB: transport) -/
  replyGran : Nat
  /-- the reply reader's over-read is read first by the copier (`readWriteCloserBody`); otherwise
      the reader is dropped and the copier uses the raw connection (`dialvia`) -/
  replyKeep : Bool
  deriving DecidableEq, Repr

structure Pipe where
  written : Bytes := []
  fin : Bool := false
  taken : Nat := 0
  held : Bytes := []
  delivered : Bytes := []
  eof : Bool := false
  done : Bool := false
  deriving DecidableEq, Repr

inductive Phase where
  | reading | dialing | replied | tunnel | closed
  deriving DecidableEq, Repr

structure State where
  phase : Phase := .reading
  up : Pipe := {}
  down : Pipe := {}
  /-- ghost: what `readHead` over-read -/
  early : Bytes := []
  /-- tunnel bytes thrown away together with the reply reader -/
  dropped : Nat := 0
  /-- `gracefulCloseAfter` armed -/
  grace : Bool := false
  /-- `gracefulCloseAfter` fired -/
  expired : Bool := false
  /-- the proxy closed its client-side / target-side socket -/
  closedC : Bool := false
  closedT : Bool := false
  deriving DecidableEq, Repr

def init : State := {}

def State.pipe (s : State) : Dir → Pipe
  | .up => s.up
  | .down => s.down

def State.setPipe (s : State) (d : Dir) (p : Pipe) : State :=
  match d with
  | .up => { s with up := p }
  | .down => { s with down := p }

/-- bytes a copier can get hold of right now: the reader's leftover, then the socket -/
def Pipe.avail (p : Pipe) : Nat := p.held.length + (p.written.length - p.taken)

/-- the copier moves `n` bytes: from `held` first, then from the socket -/
def Pipe.pull (p : Pipe) (n : Nat) : Pipe :=
  { p with
    delivered := p.delivered ++ (p.held ++ p.written.drop p.taken).take n
    held := p.held.drop n
    taken := p.taken + (n - p.held.length) }

inductive Step where
  | clientWrite (seg : Bytes)
  | targetWrite (seg : Bytes)
  /-- the source endpoint of direction `d` shuts down its sending side (TCP `CloseWrite`) -/
  | fin (d : Dir)
  | readHead (k : Nat)
  | replyRead (n : Nat)
  | connected
  | drain
  | copy (d : Dir) (n : Nat)
  | eof (d : Dir)
  | graceExpire
  deriving DecidableEq, Repr

/-- one step; `none` = not enabled in this state -/
def step (c : Cfg) (s : State) : Step → Option State
  | .clientWrite seg =>
    if s.up.fin = true then none
    else some { s with up := { s.up with written := s.up.written ++ seg } }
  | .targetWrite seg =>
    if s.down.fin = true then none
    else some { s with down := { s.down with written := s.down.written ++ seg } }
  | .fin d =>
    if (s.pipe d).fin = true then none
    else some (s.setPipe d { s.pipe d with fin := true })
  | .readHead k =>
    if s.phase = .reading ∧ c.headLen + k ≤ s.up.written.length ∧ k ≤ c.bufSize then
      some { s with
        phase := .dialing
        early := (s.up.written.drop c.headLen).take k
        up := { s.up with taken := c.headLen + k, held := (s.up.written.drop c.headLen).take k } }
    else none
  | .replyRead n =>
    if s.phase = .dialing ∧ s.down.taken < c.replyLen ∧ 1 ≤ n ∧ n ≤ c.replyGran ∧
        s.down.taken + n ≤ s.down.written.length then
      some { s with down := { s.down with taken := s.down.taken + n } }
    else none
  | .connected =>
    if s.phase = .dialing ∧ c.replyLen ≤ s.down.taken then
      if c.replyKeep = true then
        some { s with
          phase := .replied
          down := { s.down with
            held := (s.down.written.drop c.replyLen).take (s.down.taken - c.replyLen) } }
      else some { s with phase := .replied, dropped := s.down.taken - c.replyLen }
    else none
  | .drain =>
    if s.phase = .replied then
      some { s with
        phase := .tunnel
        up := { s.up with delivered := s.up.delivered ++ s.up.held, held := [] } }
    else none
  | .copy d n =>
    if s.phase = .tunnel ∧ (s.pipe d).done = false ∧ 1 ≤ n ∧ n ≤ c.copyMax ∧ n ≤ (s.pipe d).avail then
      some (s.setPipe d ((s.pipe d).pull n))
    else none
  | .eof d =>
    if s.phase = .tunnel ∧ (s.pipe d).done = false ∧ (s.pipe d).fin = true ∧ (s.pipe d).avail = 0 then
      if (s.pipe d.other).done = true then
        some { s.setPipe d { s.pipe d with eof := true, done := true } with
          phase := .closed, closedC := true, closedT := true }
      else
        some { s.setPipe d { s.pipe d with eof := true, done := true } with grace := true }
    else none
  | .graceExpire =>
    if s.phase = .tunnel ∧ s.grace = true then
      some { s with
        phase := .closed, expired := true, closedC := true, closedT := true
        up := { s.up with done := true }
        down := { s.down with done := true } }
    else none

/-- run a schedule from a state; `none` as soon as a step is not enabled -/
def runFrom (c : Cfg) : State → List Step → Option State
  | s, [] => some s
  | s, st :: rest =>
    match step c s st with
    | none => none
    | some s' => runFrom c s' rest

def run (c : Cfg) (steps : List Step) : Option State := runFrom c init steps

/-- the tunnel payload of a direction: what its source wrote after its head -/
def stream (c : Cfg) (s : State) : Dir → Bytes
  | .up => s.up.written.drop c.headLen
  | .down => s.down.written.drop c.replyLen

/-- a direction is quiescent when its copier can get nothing more -/
def quiescent (s : State) (d : Dir) : Prop :=
  (s.phase = .tunnel ∨ s.phase = .closed) ∧ (s.pipe d).avail = 0

instance (s : State) (d : Dir) : Decidable (quiescent s d) := by
  unfold quiescent; exact inferInstance

/-- the reply reader takes nothing of the tunnel with it: it keeps its over-read for the copier
    (101 path), or it returns one byte per read (`byteReader`).  Both readers the code has are of
    one of these two kinds; nothing else about the reply matters (its fields do not: a 2xx reply to
    CONNECT has no content) -/
def Cfg.replyExact (c : Cfg) : Prop := c.replyKeep = true ∨ c.replyGran ≤ 1

instance (c : Cfg) : Decidable c.replyExact := by unfold Cfg.replyExact; exact inferInstance

/-! ### The clock of the grace period

  `bicopy` starts `gracefulCloseAfter(ctx, bicopyGracefulTimeout, …)` when the FIRST copier returns
  (`i == 0` of the receive loop) and cancels it (`defer cancel()`) when the second one has returned.
  The untimed machine above lets `graceExpire` happen at any moment after the first finish; the
  timed machine below adds what the timer adds:

  * `now`        the wall clock (any unit; the harness uses milliseconds since the tunnel was set up);
  * `armedAt`    the instant the first copier returned = `time.After(d)` was started; never re-armed;
  * `tick n`     `n` units pass.  While the timer is pending (armed, and `bicopy` still waiting for the
                 second copier: phase `tunnel`) time cannot pass beyond `armedAt + period + slack`
                 without `graceExpire` being taken: `slack` is the latitude of the runtime (timer
                 wake-up, goroutine scheduling), `0` for an ideal one;
  * `act .graceExpire` enabled exactly when `armedAt + period ≤ now` and the untimed step is enabled
                 (phase `tunnel`, i.e. not both directions finished; `grace`); records `expiredAt`;
  * `act st`     any other step of the untimed machine, at the current instant; the step that makes
                 `grace` true (the first `eof`) arms the timer with the current instant.

  Erasing the ticks of a timed run gives a run of the untimed machine (`trun_erase` in
  `Lemmas/C03.lean`), so everything proved about `run` holds of timed runs. -/

structure Timing where
  /-- `bicopyGracefulTimeout` -/
  period : Nat
  /-- the forced close happens at most this long after `armedAt + period` -/
  slack : Nat
  deriving DecidableEq, Repr

structure TState where
  s : State := {}
  now : Nat := 0
  /-- instant at which the first copier returned and the timer was started -/
  armedAt : Option Nat := none
  /-- ghost: instant at which the timer fired -/
  expiredAt : Option Nat := none
  deriving DecidableEq, Repr

def tinit : TState := {}

inductive TStep where
  | tick (n : Nat)
  | act (st : Step)
  deriving DecidableEq, Repr

/-- `now + n` lies beyond the last instant at which a pending timer may still not have fired -/
def TState.blocked (τ : Timing) (t : TState) (n : Nat) : Bool :=
  match t.armedAt with
  | some a => decide (t.s.phase = .tunnel) && decide (a + τ.period + τ.slack < t.now + n)
  | none => false

/-- the period has elapsed since the timer was started -/
def TState.due (τ : Timing) (t : TState) : Bool :=
  match t.armedAt with
  | some a => decide (a + τ.period ≤ t.now)
  | none => false

/-- the untimed machine moved to `s'` at the current instant; the move that makes `grace` true
    starts the timer -/
def TState.moved (t : TState) (s' : State) : TState :=
  { t with
    s := s'
    armedAt :=
      match t.armedAt with
      | some a => some a
      | none => if s'.grace = true then some t.now else none }

def tstep (c : Cfg) (τ : Timing) (t : TState) : TStep → Option TState
  | .tick n => if t.blocked τ n = true then none else some { t with now := t.now + n }
  | .act st =>
    if st = .graceExpire then
      if t.due τ = true then
        match step c t.s .graceExpire with
        | some s' => some { t with s := s', expiredAt := some t.now }
        | none => none
      else none
    else
      match step c t.s st with
      | some s' => some (t.moved s')
      | none => none

def trunFrom (c : Cfg) (τ : Timing) : TState → List TStep → Option TState
  | t, [] => some t
  | t, st :: rest =>
    match tstep c τ t st with
    | none => none
    | some t' => trunFrom c τ t' rest

def trun (c : Cfg) (τ : Timing) (steps : List TStep) : Option TState := trunFrom c τ tinit steps

/-- the untimed schedule of a timed one -/
def erase : List TStep → List Step
  | [] => []
  | .tick _ :: rest => erase rest
  | .act st :: rest => st :: erase rest

/-! ### What the endpoints can observe, and the acceptor used by the driver (`holds`) -/

structure DirObs where
  /-- tunnel bytes the source endpoint wrote (after its head) -/
  sent : Nat
  /-- bytes the destination endpoint read -/
  got : Nat
  /-- the bytes read are the first `got` bytes written (the harness compares the real bytes) -/
  pfx : Bool
  /-- the source endpoint shut down its sending side -/
  fin : Bool
  /-- the destination endpoint read end-of-stream after `got` bytes -/
  eof : Bool
  deriving DecidableEq, Repr

structure Obs where
  up : DirObs
  down : DirObs
  closedC : Bool
  closedT : Bool
  deriving DecidableEq, Repr

def observeDir (c : Cfg) (s : State) (d : Dir) : DirObs :=
  { sent := (stream c s d).length
    got := (s.pipe d).delivered.length
    pfx := (s.pipe d).delivered.isPrefixOf (stream c s d)
    fin := (s.pipe d).fin
    eof := (s.pipe d).eof }

def observe (c : Cfg) (s : State) : Obs :=
  { up := observeDir c s .up, down := observeDir c s .down, closedC := s.closedC, closedT := s.closedT }

def DirObs.ok (o : DirObs) : Bool := o.pfx && o.got == o.sent && o.eof == o.fin

/-- the observations of the states in which, within the grace period, the proxy has nothing left to
    do: everything written has arrived once and in order, a destination has seen end-of-stream iff
    its source has finished, and the sockets are released iff both have -/
def accept (o : Obs) : Bool :=
  o.up.ok && o.down.ok && o.closedC == (o.up.fin && o.down.fin) && o.closedT == (o.up.fin && o.down.fin)

/-- which clause of `accept` fails first (diagnostics for the harness) -/
def rejectReason (o : Obs) : String :=
  if !o.up.pfx then "up-not-a-prefix"
  else if o.up.got != o.up.sent then "up-length"
  else if o.up.eof != o.up.fin then "up-eof"
  else if !o.down.pfx then "down-not-a-prefix"
  else if o.down.got != o.down.sent then "down-length"
  else if o.down.eof != o.down.fin then "down-eof"
  else if o.closedC != (o.up.fin && o.down.fin) then "client-socket-closure"
  else if o.closedT != (o.up.fin && o.down.fin) then "target-socket-closure"
  else "accepted"

/-! ### Leg capabilities: what `copier.closeWriter` can do to the destination of a direction

  When the copier of direction `d` returns it calls `closeWriter` (`copy.go`): `asCloseWriter(dst)`
  (`close.go`) looks for `CloseWrite` on the destination itself, then — by reflection, depth first —
  on its fields; a bare `*io.PipeWriter` is closed, which for a pipe is a half-close.  Every leg the
  proxy dials itself has a `CloseWrite` (`*net.TCPConn`, `*tls.Conn`, the conntrack wrappers, the SOCKS5
  client's connection, `net/http`'s `readWriteCloserBody`); what a custom `ConnectFunc` returns need not
  (a multiplexer's stream, `net.Pipe`, a pair of `io.Pipe` halves).  For such a leg the code logs "cannot
  close write side of tunnel" and does nothing else: the far end is not shown end-of-stream until the
  tunnel is closed, and the opposite direction goes on.

  The machine below is `step` with that case distinction on top (`eof d` of `step` = "the copier of `d`
  returned having read end-of-stream and called `closeWriter`"; whether the far end of `d` SEES the
  end-of-stream is `shown d`):

  * `Cap.halfClose`   `closeWriter` half-closes the destination: its far end is shown end-of-stream at once;
  * `Cap.none`        it cannot: `CwPolicy.leave` (the code) leaves the leg alone; `CwPolicy.closeInstead`
                      (a variant the code must not become) closes the leg, which is also the SOURCE of the
                      opposite direction: that copier's read fails, it half-closes ITS destination and
                      returns, `bicopy` returns — the tunnel is gone with the opposite stream cut (`cut`);
  * when the second copier returns, `bicopy` returns and both legs are closed (`defer crw.Close()`,
    the connection loop's close): whoever had not been shown end-of-stream is shown it now, after the
    last byte (both sources have finished and nothing is left to copy). -/

/-- can `closeWriter` half-close this leg? -/
inductive Cap where
  | halfClose
  | none
  deriving DecidableEq, Repr

/-- capabilities of the two legs as destinations: `target` is the destination of `up`, `client` of `down` -/
structure Legs where
  client : Cap := .halfClose
  target : Cap := .halfClose
  deriving DecidableEq, Repr

def Legs.dst (L : Legs) : Dir → Cap
  | .up => L.target
  | .down => L.client

/-- what `closeWriter` does with a destination it cannot half-close -/
inductive CwPolicy where
  /-- the code: log, leave the leg alone -/
  | leave
  /-- the variant: `Close` as a stand-in for `CloseWrite` -/
  | closeInstead
  deriving DecidableEq, Repr

structure HState where
  s : State := {}
  /-- the far end of `up` (the target) / of `down` (the client) has been shown end-of-stream -/
  shownU : Bool := false
  shownD : Bool := false
  /-- variant only: a leg was closed under the direction that was still flowing -/
  cut : Bool := false
  deriving DecidableEq, Repr

def hinit : HState := {}

def HState.shown (h : HState) : Dir → Bool
  | .up => h.shownU
  | .down => h.shownD

def HState.setShown (h : HState) : Dir → HState
  | .up => { h with shownU := true }
  | .down => { h with shownD := true }

/-- the leg that is the destination of `d` is closed while the copier of `d.other` is running: its read
    fails, it half-closes its own destination (whose far end so reads end-of-stream although the source
    has not finished) and returns; both sockets are closed -/
def cutState (s : State) (d : Dir) : State :=
  { s.setPipe d.other { s.pipe d.other with eof := true, done := true } with
    phase := .closed, closedC := true, closedT := true }

def hstep (c : Cfg) (L : Legs) (pol : CwPolicy) (h : HState) (st : Step) : Option HState :=
  match step c h.s st with
  | none => none
  | some s' =>
    match st with
    | .eof d =>
      if s'.phase = .closed then some { h with s := s', shownU := true, shownD := true }
      else
        match L.dst d, pol with
        | .halfClose, _ => some ({ h with s := s' }.setShown d)
        | .none, .leave => some { h with s := s' }
        | .none, .closeInstead => some { s := cutState s' d, shownU := true, shownD := true, cut := true }
    | _ => some { h with s := s' }

def hrunFrom (c : Cfg) (L : Legs) (pol : CwPolicy) : HState → List Step → Option HState
  | h, [] => some h
  | h, st :: rest =>
    match hstep c L pol h st with
    | none => none
    | some h' => hrunFrom c L pol h' rest

def hrun (c : Cfg) (L : Legs) (pol : CwPolicy) (steps : List Step) : Option HState :=
  hrunFrom c L pol hinit steps

/-- what the endpoints observe of a state of the machine with capabilities: end-of-stream is `shown` -/
def hobserve (c : Cfg) (h : HState) : Obs :=
  { up := { observeDir c h.s .up with eof := h.shownU }
    down := { observeDir c h.s .down with eof := h.shownD }
    closedC := h.s.closedC, closedT := h.s.closedT }

/-- a direction whose destination can be half-closed: end-of-stream iff the source has finished; one
    whose destination cannot: end-of-stream iff the tunnel is closed, i.e. both sources have finished -/
def DirObs.okCap (o : DirObs) (cap : Cap) (bothFin : Bool) : Bool :=
  o.pfx && o.got == o.sent &&
    (match cap with
     | .halfClose => o.eof == o.fin
     | .none => o.eof == bothFin)

/-- `accept` knowing the capabilities of the legs -/
def acceptL (L : Legs) (o : Obs) : Bool :=
  o.up.okCap (L.dst .up) (o.up.fin && o.down.fin) && o.down.okCap (L.dst .down) (o.up.fin && o.down.fin) &&
    o.closedC == (o.up.fin && o.down.fin) && o.closedT == (o.up.fin && o.down.fin)

def rejectReasonL (L : Legs) (o : Obs) : String :=
  let both := o.up.fin && o.down.fin
  let eofOk (d : DirObs) (cap : Cap) : Bool :=
    match cap with
    | .halfClose => d.eof == d.fin
    | .none => d.eof == both
  if !o.up.pfx then "up-not-a-prefix"
  else if o.up.got != o.up.sent then "up-length"
  else if !eofOk o.up (L.dst .up) then "up-eof"
  else if !o.down.pfx then "down-not-a-prefix"
  else if o.down.got != o.down.sent then "down-length"
  else if !eofOk o.down (L.dst .down) then "down-eof"
  else if o.closedC != both then "client-socket-closure"
  else if o.closedT != both then "target-socket-closure"
  else "accepted"

/-! ### Request and dial limits on the clock

  Before a tunnel is established the proxy works under limits: reading the request (`readRequest`:
  `ReadHeaderTimeout` / `ReadTimeout` from the first byte of the request on), reaching the far end
  (`ConnectTimeout`, which `connectHTTP` / `connectSOCKS5` hand to the `dialvia` dialers as their
  `Timeout`; the dialer's own timeout; the TLS handshake timeouts), writing the reply (`WriteTimeout`).
  Each is armed when its phase begins and ENDS WITH IT: `dialvia` derives a context with the timeout and
  cancels it on return, `writeResponse` clears the write deadline in a `defer`, and `tunnel` clears the
  read deadline of the request before `bicopy` (`proxy_conn.go`; the handler path hijacks the connection,
  which clears its deadlines).  A limit that expires before the tunnel is established abandons the
  request (`aborted`: an error response or a closed connection, never a tunnel).  Once the machine is in
  phase `tunnel` no limit is armed: the only thing of a tunnel that reads the clock is the grace timer
  of `TState`.

  `DeadlinePolicy.inherited` is the variant the code must not become: the deadline armed for the dial is
  put on the connection itself (`SetDeadline`) and never cleared, so it is still there when the
  connection has become the far leg of the tunnel; when it expires both copiers fail, the client is shown
  end-of-stream although the far end never finished (`limitCut`). -/

structure Limits where
  /-- reading the request head, from its first byte -/
  read : Option Nat := none
  /-- reaching the far end: dial, upstream proxy's reply, TLS handshake -/
  dial : Option Nat := none
  /-- writing the reply to the client -/
  write : Option Nat := none
  deriving DecidableEq, Repr

inductive DeadlinePolicy where
  | cleared
  | inherited
  deriving DecidableEq, Repr

def Limits.forPhase (lim : Limits) : Phase → Option Nat
  | .dialing => lim.dial
  | .replied => lim.write
  | _ => none

/-- the tunnel is established: the reply has been written and `bicopy` runs, or has run -/
def Phase.established : Phase → Bool
  | .tunnel => true
  | .closed => true
  | _ => false

structure LState where
  t : TState := {}
  /-- absolute instant at which the armed limit expires -/
  deadline : Option Nat := none
  /-- a limit expired before the tunnel was established: the request is abandoned -/
  aborted : Bool := false
  /-- variant only: a limit expired on an established tunnel -/
  cutByLimit : Bool := false
  deriving DecidableEq, Repr

def linit : LState := {}

inductive LStep where
  | t (st : TStep)
  | limitExpire
  deriving DecidableEq, Repr

/-- both copiers fail on the expired deadline: the one reading the far leg half-closes the client leg
    (which so reads end-of-stream), everything is closed -/
def limitCut (s : State) : State :=
  { s with
    phase := .closed, closedC := true, closedT := true
    up := { s.up with done := true }
    down := { s.down with eof := true, done := true } }

/-- the limit armed after a step of the machine that led from `old` to `new` at instant `now` -/
def nextDeadline (lim : Limits) (pol : DeadlinePolicy) (cur : Option Nat) (old new : State) (now : Nat) :
    Option Nat :=
  if new.phase = old.phase then
    -- the read limit starts with the first byte of the request
    if new.phase = .reading ∧ old.up.written = [] ∧ new.up.written ≠ [] then lim.read.map (· + now) else cur
  else
    match pol with
    | .cleared => (lim.forPhase new.phase).map (· + now)
    | .inherited =>
      -- the deadline of the dial stays on the connection for good
      if old.phase = .reading then (lim.forPhase new.phase).map (· + now) else cur

def LState.stopped (l : LState) : Bool := l.aborted || l.cutByLimit

/-- a pending limit does not let time pass beyond its deadline without expiring -/
def LState.limitBlocks (l : LState) (n : Nat) : Bool :=
  match l.deadline with
  | some dl => decide (dl < l.t.now + n)
  | none => false

def lstep (c : Cfg) (τ : Timing) (lim : Limits) (pol : DeadlinePolicy) (l : LState) : LStep → Option LState
  | .t (.tick n) =>
    if l.stopped = true then none
    else if l.limitBlocks n = true then none
    else
      match tstep c τ l.t (.tick n) with
      | some t' => some { l with t := t' }
      | none => none
  | .t (.act st) =>
    if l.stopped = true then none
    else
      match tstep c τ l.t (.act st) with
      | some t' => some { l with t := t', deadline := nextDeadline lim pol l.deadline l.t.s t'.s l.t.now }
      | none => none
  | .limitExpire =>
    if l.stopped = true then none
    else
      match l.deadline with
      | some dl =>
        if dl ≤ l.t.now then
          if l.t.s.phase.established = true then
            some { l with t := { l.t with s := limitCut l.t.s }, deadline := none, cutByLimit := true }
          else some { l with deadline := none, aborted := true }
        else none
      | none => none

def lrunFrom (c : Cfg) (τ : Timing) (lim : Limits) (pol : DeadlinePolicy) : LState → List LStep → Option LState
  | l, [] => some l
  | l, st :: rest =>
    match lstep c τ lim pol l st with
    | none => none
    | some l' => lrunFrom c τ lim pol l' rest

def lrun (c : Cfg) (τ : Timing) (lim : Limits) (pol : DeadlinePolicy) (steps : List LStep) : Option LState :=
  lrunFrom c τ lim pol linit steps

/-- the timed schedule of one with limits: limit expiries erased -/
def lerase : List LStep → List TStep
  | [] => []
  | .t st :: rest => st :: lerase rest
  | .limitExpire :: rest => lerase rest

/-! ### A copy direction that ends with an ERROR

  `copier.copy` (`copy.go`):

      if _, err := io.CopyBuffer(c.dst, c.src, buf); err != nil && !isClosedConnError(err) { log.Error(…) }
      c.closeWriter(ctx)
      donec <- struct{}{}

  `io.CopyBuffer` returns the errors of BOTH ends the same way: a failing `Read` of the source (the sending
  endpoint reset the connection: `ECONNRESET` / `ECONNABORTED`; a TLS leg cut inside a record:
  `io.ErrUnexpectedEOF`; a record that does not verify: `tls: bad record MAC`) and a failing `Write` to the
  destination (which is gone: `EPIPE`, `ECONNRESET`).  Whatever the error is, the copier of that direction
  has finished: it calls `closeWriter` — the destination of a direction whose SOURCE failed is healthy and is
  the endpoint that has to be told that the stream is over — and reports to `bicopy`, exactly as after a clean
  end-of-stream.  The only thing the kind of the error decides is whether it is logged.

  The machine below is `hstep` (leg capabilities, the code's `CwPolicy.leave`) with these two ways of
  finishing on top; the steps of the plain machine are taken as they are (`AStep.s`):

  * `abort d k`     the `Read` of the copier of `d` fails with an error of kind `k`: nothing more is taken
                    from that source; `closeWriter` is called under `ErrPolicy.always` (the code); the variant
                    `ErrPolicy.skipOnConnClosed` — which the code must not become — skips it when
                    `isClosedConnError(err)` ("the connection is gone, nothing left to half-close"), although
                    it is the SOURCE that is gone;
  * `writeFail d`   the copier of `d` has read something and its `Write` fails because the destination is gone
                    (it is the source of the opposite direction, whose copier returned on a read error);
  * `failed d`      the copier of `d` returned on an error; `returned d` = it returned, one way or the other;
  * `settle`        `bicopy`'s bookkeeping after a copier has returned: the first one arms the grace timer, the
                    second one lets `bicopy` return — both legs are closed, whoever had not been shown
                    end-of-stream is shown it now;
  * `graceExpire`   is enabled once a copier has returned — by end-of-stream or by an error — and closes both
                    legs, as in the plain machine.

  The bytes are the plain machine's: `a.h.s` only ever moves by steps of `step`, so everything proved about
  reachable states of the plain machine (no byte twice, none out of order) holds of it (`AInv.reach`). -/

/-- how `isClosedConnError` sorts the error `io.CopyBuffer` returned -/
inductive ErrKind where
  /-- `ECONNRESET`, `ECONNABORTED`, `io.ErrUnexpectedEOF`, http2's closed body, "use of closed network
      connection" -/
  | connClosed
  /-- anything else (`tls: bad record MAC`, a time-out, …) -/
  | other
  deriving DecidableEq, Repr

/-- what `copier.copy` does after `io.CopyBuffer` returned an error -/
inductive ErrPolicy where
  /-- the code: `closeWriter` whatever the copy returned -/
  | always
  /-- the variant: no `closeWriter` after an error `isClosedConnError` recognises -/
  | skipOnConnClosed
  deriving DecidableEq, Repr

def ErrPolicy.callsCloseWriter : ErrPolicy → ErrKind → Bool
  | .always, _ => true
  | .skipOnConnClosed, .connClosed => false
  | .skipOnConnClosed, .other => true

structure AState where
  h : HState := {}
  /-- the copier of `up` / `down` returned on an error -/
  failedU : Bool := false
  failedD : Bool := false
  /-- a copier has returned: `gracefulCloseAfter` is armed -/
  grace : Bool := false
  /-- `bicopy` has returned or the grace timer has fired: the proxy has closed both sockets -/
  closed : Bool := false
  /-- the grace timer fired -/
  expired : Bool := false
  deriving DecidableEq, Repr

def ainit : AState := {}

def AState.failed (a : AState) : Dir → Bool
  | .up => a.failedU
  | .down => a.failedD

def AState.setFailed (a : AState) : Dir → AState
  | .up => { a with failedU := true }
  | .down => { a with failedD := true }

/-- the copier of `d` has returned: after end-of-stream (or the forced close), or on an error -/
def AState.returned (a : AState) (d : Dir) : Bool := (a.h.s.pipe d).done || a.failed d

/-- `closeWriter` on the destination of `d`: a leg with `CloseWrite` shows its far end end-of-stream, a leg
    without is left alone (`CwPolicy.leave`, finding F48) -/
def HState.closeWriter (h : HState) (L : Legs) (d : Dir) : HState :=
  match L.dst d with
  | .halfClose => h.setShown d
  | .none => h

/-- `bicopy` after a copier has returned -/
def AState.settle (a : AState) : AState :=
  if a.returned .up = true ∧ a.returned .down = true then
    { a with grace := true, closed := true, h := { a.h with shownU := true, shownD := true } }
  else { a with grace := true }

inductive AStep where
  | s (st : Step)
  | abort (d : Dir) (k : ErrKind)
  | writeFail (d : Dir)
  deriving DecidableEq, Repr

/-- steps of the plain machine that the abort layer does not let through: the proxy does nothing to a
    tunnel it has closed, and a copier that has returned on an error copies and finishes no more -/
def AState.blocks (a : AState) : Step → Bool
  | .copy d _ => a.closed || a.failed d
  | .eof d => a.closed || a.failed d
  | _ => false

def astep (c : Cfg) (L : Legs) (pol : ErrPolicy) (a : AState) : AStep → Option AState
  | .s .graceExpire =>
    if a.closed = false ∧ a.grace = true ∧ a.h.s.phase = .tunnel then
      match hstep c L .leave a.h .graceExpire with
      | some h' => some { a with h := h', closed := true, expired := true }
      | none => some { a with closed := true, expired := true }
    else none
  | .s (.eof d) =>
    if a.blocks (.eof d) = true then none
    else
      match hstep c L .leave a.h (.eof d) with
      | some h' => some ({ a with h := h' }.settle)
      | none => none
  | .s st =>
    if a.blocks st = true then none
    else
      match hstep c L .leave a.h st with
      | some h' => some { a with h := h' }
      | none => none
  | .abort d k =>
    if a.h.s.phase = .tunnel ∧ a.closed = false ∧ a.returned d = false then
      some (({ a with h := if pol.callsCloseWriter k = true then a.h.closeWriter L d else a.h }.setFailed d).settle)
    else none
  | .writeFail d =>
    if a.h.s.phase = .tunnel ∧ a.closed = false ∧ a.returned d = false ∧ a.failed d.other = true ∧
        1 ≤ (a.h.s.pipe d).avail then
      some ((a.setFailed d).settle)
    else none

def arunFrom (c : Cfg) (L : Legs) (pol : ErrPolicy) : AState → List AStep → Option AState
  | a, [] => some a
  | a, st :: rest =>
    match astep c L pol a st with
    | none => none
    | some a' => arunFrom c L pol a' rest

def arun (c : Cfg) (L : Legs) (pol : ErrPolicy) (steps : List AStep) : Option AState :=
  arunFrom c L pol ainit steps

/-! ### The request's close option and the response that opens the tunnel

`drain` stands for `tunnel()`: `writeTunnelResponse(res)`, then `drainBuffer` and `bicopy`.  The last two are
reached only when the write did not return `errClose`, and `proxyConn.write` returns `errClose` for a response
it has marked `res.Close`.  It marks a response when `p.closing() || req.Close` — `req.Close` being what
`http.ReadRequest` makes of the request's `close` connection option (`Connection: Upgrade, close`, in any
order, spelling or split over field lines) or of an HTTP/1.0 request without `keep-alive` — and then exempts
the response that opens a tunnel: `req.Method == CONNECT && 2xx || tunnel` (`ClosePolicy.tunnelNeverCloses`).
Before the repair of finding F52 only the CONNECT 2xx was exempt (`ClosePolicy.connectOnly`): the 101 of an
upgrade request that also asked to close went out with `Connection: close`, `tunnel` returned at once and the
deferred `Close` of both legs ran — the client had switched protocols and was disconnected.  `stepReq` is
`step` with that input; under the code's policy it IS `step` (`c03_upgrade_close_option_irrelevant`). -/

/-- which responses `proxyConn.write` never marks `res.Close` -/
inductive ClosePolicy where
  /-- the code: a successful CONNECT and every response written by `writeTunnelResponse` -/
  | tunnelNeverCloses
  /-- before the repair of F52: a successful CONNECT only -/
  | connectOnly
  deriving DecidableEq, Repr

def ClosePolicy.exempt : ClosePolicy → (connect2xx : Bool) → Bool
  | .tunnelNeverCloses, _ => true
  | .connectOnly, connect2xx => connect2xx

/-- `res.Close` when `write(res, tunnel = true)` returns: `reqClose` = `p.closing() || req.Close`,
    `connect2xx` = the request is a CONNECT answered 2xx (false on the 101 path) -/
def headCloses (pol : ClosePolicy) (reqClose connect2xx : Bool) : Bool :=
  reqClose && !pol.exempt connect2xx

/-- `step` knowing the request: when the head that opens the tunnel is marked `res.Close`, `tunnel` returns
    before `drainBuffer` and `bicopy` — nothing held is forwarded, no copier ever runs, both legs are closed -/
def stepReq (c : Cfg) (pol : ClosePolicy) (reqClose connect2xx : Bool) (s : State) : Step → Option State
  | .drain =>
    if s.phase = .replied then
      if headCloses pol reqClose connect2xx = true then
        some { s with
          phase := .closed, closedC := true, closedT := true
          up := { s.up with done := true }
          down := { s.down with done := true } }
      else step c s .drain
    else none
  | st => step c s st

def runReqFrom (c : Cfg) (pol : ClosePolicy) (reqClose connect2xx : Bool) : State → List Step → Option State
  | s, [] => some s
  | s, st :: rest =>
    match stepReq c pol reqClose connect2xx s st with
    | none => none
    | some s' => runReqFrom c pol reqClose connect2xx s' rest

def runReq (c : Cfg) (pol : ClosePolicy) (reqClose connect2xx : Bool) (steps : List Step) : Option State :=
  runReqFrom c pol reqClose connect2xx init steps

/-! ### The copy loop over what `Read` returns

`copy d n` and `eof d` above are what a copier DOES; which of them it does follows from what the `Read` of its
source leg returns, and `io.Reader` lets a `Read` return its last `n > 0` bytes TOGETHER with `io.EOF`
(`*tls.Conn` does when a TLS 1.2 peer's final record and its close_notify arrive together; any `ConnectFunc`
connection may).  "Callers should always process the n > 0 bytes returned before considering the error": that
is `LoopOrder.bytesFirst`, the order of `io.CopyBuffer`'s own loop.  Which loop runs is decided by the legs:
`io.CopyBuffer` hands the copy to the source's `WriteTo` or to the destination's `ReadFrom` when there is one
(`FastPaths`) — a `*net.TCPConn`, forwarder's `conntrack` connection with `TrackTraffic` (its own `ReadFrom`,
delegating to the TCP connection's), a `ConnectFunc` connection with fast paths.  `LoopOrder.errorFirst` is the
loop that looks at the error before the byte count (the seeded variant of `conntrack.conn.ReadFrom`). -/

/-- what one `Read` of a copier's source returns -/
inductive ReadRes where
  /-- `(n > 0, nil)` -/
  | data (bs : Bytes)
  /-- `(n > 0, io.EOF)`: the last bytes and the end of the stream in one call -/
  | dataEof (bs : Bytes)
  /-- `(0, io.EOF)` -/
  | eof
  /-- `(n ≥ 0, err)` with another error -/
  | dataErr (bs : Bytes)
  deriving DecidableEq, Repr

def ReadRes.bytes : ReadRes → Bytes
  | .data bs => bs
  | .dataEof bs => bs
  | .eof => []
  | .dataErr bs => bs

/-- the call reports an error (`io.EOF` included): the loop makes no further call -/
def ReadRes.ends : ReadRes → Bool
  | .data _ => false
  | _ => true

/-- the error is `io.EOF`: the loop returns `nil` and `copier.copy` relays a clean end-of-stream -/
def ReadRes.clean : ReadRes → Bool
  | .dataErr _ => false
  | _ => true

inductive LoopOrder where
  /-- `if nr > 0 { write }` … `if er != nil { break }` — `io.CopyBuffer`, `(*net.TCPConn).ReadFrom`'s fallback -/
  | bytesFirst
  /-- `if er != nil { return }` … `write buf[:nr]` -/
  | errorFirst
  deriving DecidableEq, Repr

structure CopyOut where
  /-- what the loop wrote to the destination -/
  written : Bytes := []
  /-- the loop has returned (otherwise it is blocked in `Read`: the source has said nothing more yet) -/
  returned : Bool := false
  /-- it returned `nil`: `closeWriter` shows the destination a clean end-of-stream after `written` -/
  clean : Bool := true
  deriving DecidableEq, Repr

/-- what a loop writes for one `Read` -/
def LoopOrder.writes : LoopOrder → ReadRes → Bytes
  | .bytesFirst, r => r.bytes
  | .errorFirst, r => if r.ends then [] else r.bytes

/-- the loop, call by call, with what it has written so far -/
def copyLoopFrom (ord : LoopOrder) (acc : Bytes) : List ReadRes → CopyOut
  | [] => { written := acc }
  | r :: rest =>
    if r.ends then { written := acc ++ ord.writes r, returned := true, clean := r.clean }
    else copyLoopFrom ord (acc ++ ord.writes r) rest

def copyLoop (ord : LoopOrder) (rs : List ReadRes) : CopyOut := copyLoopFrom ord [] rs

/-- the calls a loop gets to make: up to and including the first that reports an error -/
def calls : List ReadRes → List ReadRes
  | [] => []
  | r :: rest => if r.ends then [r] else r :: calls rest

/-- every byte the source handed over in those calls, in order — those returned together with an error too -/
def handedOver (rs : List ReadRes) : Bytes := (calls rs).flatMap ReadRes.bytes

/-- the bytes of the call that ended the stream (none: it has not ended, or ended with `(0, err)`) -/
def lastBlock : List ReadRes → Bytes
  | [] => []
  | r :: rest => if r.ends then r.bytes else lastBlock rest

/-- the other encoding of the same stream: the last bytes and the end in two calls -/
def splitEnds : List ReadRes → List ReadRes
  | [] => []
  | .dataEof bs :: rest => .data bs :: .eof :: splitEnds rest
  | r :: rest => r :: splitEnds rest

/-- … and back: `(n, nil)` followed by `(0, io.EOF)` as one call -/
def joinEnds : List ReadRes → List ReadRes
  | .data bs :: .eof :: rest => .dataEof bs :: joinEnds rest
  | r :: rest => r :: joinEnds rest
  | [] => []

/-- the steps of the tunnel machine a copier of direction `d` takes for these results (an error is not a step
    of the plain machine: `astep`'s `abort`) -/
def toSteps (d : Dir) : List ReadRes → List Step
  | [] => []
  | .data bs :: rest => (if bs.length = 0 then [] else [.copy d bs.length]) ++ toSteps d rest
  | .dataEof bs :: rest => (if bs.length = 0 then [] else [.copy d bs.length]) ++ .eof d :: toSteps d rest
  | .eof :: rest => .eof d :: toSteps d rest
  | .dataErr bs :: rest => (if bs.length = 0 then [] else [.copy d bs.length]) ++ toSteps d rest

/-- which loop `io.CopyBuffer(dst, src, buf)` runs -/
structure FastPaths where
  /-- the source leg has a `WriteTo` that copies in this order -/
  srcWriteTo : Option LoopOrder := none
  /-- the destination leg has a `ReadFrom` that copies in this order -/
  dstReadFrom : Option LoopOrder := none
  deriving DecidableEq, Repr

def copyBuffer (fp : FastPaths) (rs : List ReadRes) : CopyOut :=
  match fp.srcWriteTo with
  | some o => copyLoop o rs
  | none =>
    match fp.dstReadFrom with
    | some o => copyLoop o rs
    | none => copyLoop .bytesFirst rs

end C03
end FwdVerif
