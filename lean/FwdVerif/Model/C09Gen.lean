/-
  GENERATED — do not edit.  Written by harness/srcgen (the Prepare step of every `bin/check`
  of the property) from internal/martian/h2/relay.go of $VERIF_REPO.  Core-only.
-/
namespace FwdVerif
namespace C09Gen

def initialMaxFrameSize : Int := 16384

def initialMaxHeaderTableSize : Int := 4096

def defaultInitialWindowSize : Int := 65535

def headersPriorityMetadataLength : Int := 5

end C09Gen
end FwdVerif
