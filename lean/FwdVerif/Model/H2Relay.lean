/-
  C09 / C10 — the HTTP/2 relay of `/repo/internal/martian/h2` (relay.go, queued_frames.go,
  processor.go, h2.go).  Core-only.

  One `Dir` is one `relay` value of the Go code, i.e. one direction X→Y of the proxied connection:
  the send windows towards Y (`initialWindowSize`, `connectionWindowSize`, `outputBuffers`), Y's
  `maxFrameSize`, the CONTINUATION reassembly buffer for X's frames and the HPACK encoder towards Y.
  The machine is a pair of directions; a frame read on one direction may act on the opposite one
  (`r.peer.…`): WINDOW_UPDATE and SETTINGS read from X change the *send* state of Y→X.

  The model is generic in the payload type `α` (octets); the driver instantiates it with `Unit`
  (only lengths are observable there, contents are compared by the harness).

  HPACK is opaque.  A frame that completes a header block carries, as an oracle value, the block the
  relay's encoder produces for the decoded header list (`reenc`); the harness computes it with a
  mirror `hpack.Encoder` fed exactly like the relay's.  Every encoded block gets the direction's
  running encode sequence number so that "sent in encoding order" can be stated (F21).

  Go's `for _, w := range r.outputBuffers` has no defined order: `pass` takes the order as a
  parameter (`ord k` = order of the k-th scan inside one frame's processing); every theorem
  quantifies over it.

  Modelled as they are in the unchanged tree (DESIGN.md §6): F6 (only `len(Data())` credited back),
  F7 (`headerContinuation.complete` forces END_STREAM), F14 (frames are split when queued, not when
  sent), F21 (encode at processing time, send at release time); zero-cost frames wait behind a
  negative stream window (`0 > windowSize`).  F51 is repaired in the tree (`relay.applySettings`: a
  SETTINGS frame is read completely, then the value in force of SETTINGS_INITIAL_WINDOW_SIZE — its
  last occurrence — is applied: one scan of the queues per frame); `applySettings` is that code,
  `applyEach` over the whole frame the loop it replaced.
-/
import FwdVerif.Lib.Wire

namespace FwdVerif
namespace H2

/-! ### Frames -/

/-- `http2.PriorityParam` -/
structure Prio where
  dep : Nat := 0
  excl : Bool := false
  weight : Nat := 0
  deriving DecidableEq, Repr, Inhabited

/-- `PriorityParam.IsZero` -/
def Prio.isZero (p : Prio) : Bool := p.dep == 0 && !p.excl && p.weight == 0

/-- what `queued_frames.go` keeps in a stream's queue -/
inductive QFrame (α : Type) where
  | data (sid : Nat) (endStream : Bool) (payload : List α)
  | headers (sid : Nat) (endStream : Bool) (prio : Prio) (chunks : List (List α)) (seq : Nat)
  | push (sid promised : Nat) (chunks : List (List α)) (seq : Nat)
  | priority (sid : Nat) (prio : Prio)
  | rst (sid : Nat) (code : Nat)
  deriving DecidableEq, Repr

/-- frames on the wire, as a raw endpoint sees them -/
inductive Frame (α : Type) where
  | data (sid : Nat) (endStream : Bool) (payload : List α)
  | headers (sid : Nat) (endStream endHeaders : Bool) (prio : Prio) (frag : List α)
  | continuation (sid : Nat) (endHeaders : Bool) (frag : List α)
  | pushPromise (sid promised : Nat) (endHeaders : Bool) (frag : List α)
  | priority (sid : Nat) (prio : Prio)
  | rst (sid : Nat) (code : Nat)
  | settings (kvs : List (Nat × Nat))
  | settingsAck
  | ping (ack : Bool) (data : Nat)
  | goAway (last code : Nat) (debug : List α)
  | windowUpdate (sid inc : Nat)
  deriving DecidableEq, Repr

variable {α : Type}

/-- `flowControlSize()` -/
def QFrame.fc : QFrame α → Nat
  | .data _ _ p => p.length
  | _ => 0

def QFrame.sid : QFrame α → Nat
  | .data s _ _ | .headers s _ _ _ _ | .push s _ _ _ | .priority s _ | .rst s _ => s

/-- CONTINUATION frames for chunks 1… of a block; END_HEADERS on the last one -/
def contFrames (sid : Nat) : List (List α) → List (Frame α)
  | [] => []
  | [c] => [.continuation sid true c]
  | c :: cs => .continuation sid false c :: contFrames sid cs

/-- `send(*http2.Framer)`; `chunks[0]` of an empty chunk list would panic in Go — `splitChunks`
    never returns one (`splitChunks_ne_nil`), the model sends nothing then. -/
def QFrame.send : QFrame α → List (Frame α)
  | .data s e p => [.data s e p]
  | .headers _ _ _ [] _ => []
  | .headers s e p (c :: cs) _ => .headers s e (cs.length == 0) p c :: contFrames s cs
  | .push _ _ [] _ => []
  | .push s pr (c :: cs) _ => .pushPromise s pr (cs.length == 0) c :: contFrames s cs
  | .priority s p => [.priority s p]
  | .rst s c => [.rst s c]

/-- payload octets of a frame as counted against SETTINGS_MAX_FRAME_SIZE (frame kinds the relay
    builds from variable-length content; the fixed-size kinds count 0 here) -/
def Frame.payloadLen : Frame α → Nat
  | .data _ _ p => p.length
  | .headers _ _ _ p f => f.length + (if p.isZero then 0 else 5)
  | .continuation _ _ f => f.length
  | .pushPromise _ _ _ f => f.length + 4
  | _ => 0

/-! ### Splitting -/

/-- the loop of `relay.data`: at least one frame, each of at most `m` octets.
    (`m = 0` makes the Go loop spin for ever on non-empty data; the model runs out of fuel.) -/
def splitDataAux (m : Nat) : Nat → List α → List (List α)
  | 0, d => [d]
  | fuel + 1, d => if d.length ≤ m then [d] else d.take m :: splitDataAux m fuel (d.drop m)

def splitData (m : Nat) (d : List α) : List (List α) := splitDataAux m d.length d

/-- END_STREAM goes on the last fragment only (`streamEnded && len(data) == 0`) -/
def dataQ (sid : Nat) (es : Bool) : List (List α) → List (QFrame α)
  | [] => []
  | [c] => [.data sid es c]
  | c :: cs => .data sid false c :: dataQ sid es cs

def splitRest (m : Nat) : Nat → List α → List (List α)
  | 0, _ => []
  | fuel + 1, d => if d.isEmpty then [] else d.take m :: splitRest m fuel (d.drop m)

/-- `splitIntoChunks(firstChunkMax, continuationMax, data)` -/
def splitChunks (first cont : Nat) (d : List α) : List (List α) :=
  d.take first :: splitRest cont d.length (d.drop first)

/-- `maxPayloadLength - k` in `uint32` arithmetic -/
def subU32 (m k : Nat) : Nat := if m < k then m + 4294967296 - k else m - k

/-! ### One direction -/

/-- `outputBuffer` -/
structure Stream (α : Type) where
  win : Int
  queue : List (QFrame α)
  deriving Repr

/-- `continuationState` -/
inductive Cont where
  | none
  /-- `headerContinuation{priority}`; `es` is the END_STREAM flag of the HEADERS frame, which the
      unchanged code does not keep (F7) -/
  | headers (p : Prio) (es : Bool)
  | push (promised : Nat)
  deriving DecidableEq, Repr

abbrev SMap (α : Type) := List (Nat × Stream α)

def SMap.get : SMap α → Nat → Option (Stream α)
  | [], _ => none
  | (k, v) :: m, s => if k = s then some v else SMap.get m s

/-- replace the entry of `s`, or add one at the end -/
def SMap.set : SMap α → Nat → Stream α → SMap α
  | [], s, v => [(s, v)]
  | (k, w) :: m, s, v => if k = s then (k, v) :: m else (k, w) :: SMap.set m s v

def SMap.keys (m : SMap α) : List Nat := m.map (·.1)

def SMap.mapWin (m : SMap α) (f : Int → Int) : SMap α :=
  m.map fun e => (e.1, { e.2 with win := f e.2.win })

structure Dir (α : Type) where
  initWin : Int := 65535
  connWin : Int := 65535
  maxFrame : Nat := 16384
  streams : SMap α := []
  hdrBuf : List α := []
  cont : Cont := .none
  /-- number of header blocks encoded so far by this direction's HPACK encoder -/
  encSeq : Nat := 0
  /-- SETTINGS_HEADER_TABLE_SIZE last applied to this direction's encoder and decoder (opaque HPACK) -/
  tableSize : Nat := 4096
  /-- `dynamicTable.allowedMaxSize` of this direction's HPACK decoder: the largest dynamic table size
      update (RFC 7541 §6.3) it accepts at the start of a header block of its source.  `newRelay` lifts
      it to `math.MaxUint32` and nothing changes it afterwards (`Model/H2TableCap.lean`) -/
  decoderCap : Nat := 4294967295
  /-- `Framer.lastHeaderStream` of the reading Framer: a HEADERS block is open on this stream -/
  expectCont : Option Nat := none
  /-- `relayFrames` has returned (read error): nothing is read from this direction's source any more -/
  dead : Bool := false
  /-- which tree is modelled (constant configuration; `false` = the unchanged tree): with
      `fixCredit` the whole flow-controlled length of a DATA frame is credited back (repair of F6),
      with `fixEndStream` a continued HEADERS frame keeps its END_STREAM flag (repair of F7) -/
  fixCredit : Bool := false
  fixEndStream : Bool := false
  deriving Repr

/-- head-of-queue gate of `emitEligibleFrames`:
    returns (emitted, rest of queue, stream window, connection window) -/
def emitQ (win conn : Int) : List (QFrame α) → List (QFrame α) × List (QFrame α) × Int × Int
  | [] => ([], [], win, conn)
  | f :: q =>
    if (f.fc : Int) > conn ∨ (f.fc : Int) > win then ([], f :: q, win, conn)
    else
      let r := emitQ (win - f.fc) (conn - f.fc) q
      (f :: r.1, r.2.1, r.2.2.1, r.2.2.2)

/-- `r.outputBuffer(id)`: the stream's buffer, created with the current initial window -/
def Dir.buf (d : Dir α) (s : Nat) : Stream α :=
  match d.streams.get s with
  | some st => st
  | none => { win := d.initWin, queue := [] }

/-- `w.emitEligibleFrames(r.output, &r.connectionWindowSize)` for an existing buffer -/
def Dir.emitOn (d : Dir α) (s : Nat) : Dir α × List (QFrame α) :=
  match d.streams.get s with
  | none => (d, [])
  | some st =>
    let r := emitQ st.win d.connWin st.queue
    ({ d with connWin := r.2.2.2, streams := d.streams.set s { win := r.2.2.1, queue := r.2.1 } }, r.1)

/-- `w.enqueue(f); w.emitEligibleFrames(…)` on the frame's stream -/
def Dir.enqEmit (d : Dir α) (f : QFrame α) : Dir α × List (QFrame α) :=
  let st := d.buf f.sid
  ({ d with streams := d.streams.set f.sid { st with queue := st.queue ++ [f] } }).emitOn f.sid

def Dir.enqEmitAll (d : Dir α) : List (QFrame α) → Dir α × List (QFrame α)
  | [] => (d, [])
  | f :: fs =>
    let r := d.enqEmit f
    let r' := Dir.enqEmitAll r.1 fs
    (r'.1, r.2 ++ r'.2)

def Dir.emitList (d : Dir α) : List Nat → Dir α × List (QFrame α)
  | [] => (d, [])
  | s :: ss =>
    let r := d.emitOn s
    let r' := Dir.emitList r.1 ss
    (r'.1, r.2 ++ r'.2)

/-- `sendQueuedFramesUnderWindowSize`: one scan over all buffers.  Streams named in `order` come
    first (ids without a buffer are skipped, repeated ids emit nothing the second time), then all
    remaining ones — so every buffer is visited for every `order`. -/
def Dir.pass (d : Dir α) (order : List Nat) : Dir α × List (QFrame α) :=
  d.emitList (order ++ d.streams.keys)

/-- `updateWindow` -/
def Dir.windowUpdate (d : Dir α) (order : List Nat) (s inc : Nat) : Dir α × List (QFrame α) :=
  let r1 : Dir α × List (QFrame α) :=
    if s = 0 then ({ d with connWin := d.connWin + inc }).pass order else (d, [])
  let d1 := r1.1
  let st := d1.buf s
  let r2 := ({ d1 with streams := d1.streams.set s { st with win := st.win + inc } }).emitOn s
  (r2.1, r1.2 ++ r2.2)

/-- `updateInitialWindowSize` -/
def Dir.setInitWin (d : Dir α) (order : List Nat) (v : Nat) : Dir α × List (QFrame α) :=
  let delta : Int := (v : Int) - d.initWin
  ({ d with initWin := v, streams := d.streams.mapWin (· + delta) }).pass order

/-- `relay.data` (the buffer is looked up — and created — once; `enqEmit` does the same) -/
def Dir.data (d : Dir α) (sid : Nat) (payload : List α) (es : Bool) : Dir α × List (QFrame α) :=
  d.enqEmitAll (dataQ sid es (splitData d.maxFrame payload))

/-- the `queuedHeaderFrame` built by `relay.header`; `block` is what `encodeFull` returned -/
def Dir.headerQ (d : Dir α) (sid : Nat) (block : List α) (es : Bool) (p : Prio) : QFrame α :=
  let first := if p.isZero then d.maxFrame else subU32 d.maxFrame 5
  .headers sid es p (splitChunks first d.maxFrame block) d.encSeq

/-- `relay.header` -/
def Dir.header (d : Dir α) (sid : Nat) (block : List α) (es : Bool) (p : Prio) : Dir α × List (QFrame α) :=
  ({ d with encSeq := d.encSeq + 1 }).enqEmit (d.headerQ sid block es p)

/-- the `queuedPushPromiseFrame` built by `relay.pushPromise` -/
def Dir.pushQ (d : Dir α) (sid promised : Nat) (block : List α) : QFrame α :=
  .push sid promised (splitChunks (subU32 d.maxFrame 4) d.maxFrame block) d.encSeq

/-- `relay.pushPromise` -/
def Dir.pushPromise (d : Dir α) (sid promised : Nat) (block : List α) : Dir α × List (QFrame α) :=
  ({ d with encSeq := d.encSeq + 1 }).enqEmit (d.pushQ sid promised block)

/-! ### The machine -/

/-- a frame read from one endpoint -/
inductive Op (α : Type) where
  /-- `pad = some n`: PADDED flag, pad-length octet and `n` octets of padding -/
  | data (sid : Nat) (payload : List α) (pad : Option Nat) (es : Bool)
  /-- `prio` is the zero value when the PRIORITY flag is absent; `reenc` (oracle) is used only
      when `eh` holds -/
  | headers (sid : Nat) (es eh : Bool) (prio : Prio) (frag reenc : List α)
  | continuation (sid : Nat) (eh : Bool) (frag reenc : List α)
  | pushPromise (sid promised : Nat) (eh : Bool) (frag reenc : List α)
  | priority (sid : Nat) (prio : Prio)
  | rst (sid : Nat) (code : Nat)
  | windowUpdate (sid inc : Nat)
  | settings (kvs : List (Nat × Nat))
  | settingsAck
  | ping (ack : Bool) (data : Nat)
  | goAway (last code : Nat) (debug : List α)
  /-- a frame of a type the Framer does not know (`*http2.UnknownFrame`), e.g. an extension frame -/
  | unknown (typ : Nat)
  deriving DecidableEq, Repr

/-- what `processFrame` appends to the queues of its own direction for a frame (state before) -/
def enqOf (d : Dir α) : Op α → List (QFrame α)
  | .data sid p _ es => dataQ sid es (splitData d.maxFrame p)
  | .headers sid es eh prio _ reenc => if eh then [d.headerQ sid reenc es prio] else []
  | .continuation sid eh _ reenc =>
    if eh then
      match d.cont with
      | .headers prio es => [d.headerQ sid reenc (if d.fixEndStream then es else true) prio]
      | .push promised => [d.pushQ sid promised reenc]
      | .none => []
    else []
  | .pushPromise sid promised eh _ reenc => if eh then [d.pushQ sid promised reenc] else []
  | .priority sid prio => [.priority sid prio]
  | .rst sid code => [.rst sid code]
  | _ => []

/-- flow-controlled length of a DATA frame (RFC 7540 §6.1: padding and the pad-length octet count) -/
def flowLen (payload : List α) : Option Nat → Nat
  | none => payload.length
  | some n => payload.length + 1 + n

/-- what processing one frame puts on the wire -/
structure Out (α : Type) where
  /-- queued frames released on the frame's own direction (to the receiver), in writer order -/
  fwd : List (QFrame α) := []
  /-- queued frames released on the opposite direction (to the sender of this frame) -/
  back : List (QFrame α) := []
  /-- written to the receiver directly (SETTINGS, ACK, PING, GOAWAY) — not through the queue -/
  fwdDirect : List (Frame α) := []
  /-- written to the sender directly (WINDOW_UPDATE) -/
  backDirect : List (Frame α) := []
  /-- nil `continuationState` dereferenced (CONTINUATION with nothing pending) -/
  panic : Bool := false
  /-- `processFrame` returned an error: `relayFrames` returns and this direction stops -/
  fatal : Bool := false
  deriving Repr

def settingHeaderTableSize : Nat := 1
def settingInitialWindowSize : Nat := 4
def settingMaxFrameSize : Nat := 5

/-- a list of settings applied value by value, in order, to the peer relay `o`; `k` counts the
    scans of the queues made so far.  This is the loop of `relay.applySettings` over the entries it
    acts on (`inForce`); run over a WHOLE frame it is the `ForeachSetting` loop the code had before
    the repair of F51, which scanned the queues under every SETTINGS_INITIAL_WINDOW_SIZE value. -/
def applyEach (o : Dir α) (ord : Nat → List Nat) : Nat → List (Nat × Nat) → Dir α × List (QFrame α)
  | _, [] => (o, [])
  | k, (id, v) :: rest =>
    if id = settingInitialWindowSize then
      let r := o.setInitWin (ord k) v
      let r' := applyEach r.1 ord (k + 1) rest
      (r'.1, r.2 ++ r'.2)
    else if id = settingMaxFrameSize then
      applyEach { o with maxFrame := v } ord k rest
    else if id = settingHeaderTableSize then
      applyEach { o with tableSize := v } ord k rest
    else applyEach o ord k rest

/-- the entries of a SETTINGS frame `relay.applySettings` acts on, in frame order: a value of
    SETTINGS_INITIAL_WINDOW_SIZE or SETTINGS_MAX_FRAME_SIZE is skipped when the identifier occurs
    again later in the frame (the closure `inForce(i)`: only the LAST value is in force once the
    frame is processed, RFC 7540 §6.5.3); every SETTINGS_HEADER_TABLE_SIZE value is kept (HPACK has
    to see the smallest size of the frame, RFC 7541 §4.2), identifiers the relay does not track are
    kept and ignored by the loop. -/
def inForce : List (Nat × Nat) → List (Nat × Nat)
  | [] => []
  | (id, v) :: rest =>
    if (id = settingInitialWindowSize ∨ id = settingMaxFrameSize) ∧ rest.any (fun kv => kv.1 == id) then
      inForce rest
    else (id, v) :: inForce rest

/-- `relay.applySettings` on the peer relay `o`: the frame is read completely first, then the values
    in force are applied in frame order — at most one `updateInitialWindowSize`, hence at most one
    scan of the queues (`ord 0`), under the value that is in force afterwards. -/
def applySettings (o : Dir α) (ord : Nat → List Nat) (kvs : List (Nat × Nat)) : Dir α × List (QFrame α) :=
  applyEach o ord 0 (inForce kvs)

/-- `processFrame` on the relay `d` whose peer is `o`.  Returns the two directions and the output. -/
def process (d o : Dir α) (ord : Nat → List Nat) : Op α → Dir α × Dir α × Out α
  | .data sid payload _pad es =>
    -- `r.peer.sendWindowUpdates(f)`: `len(f.Data())`, padding not counted (F6)
    let n := if d.fixCredit then flowLen payload _pad else payload.length
    let wu : List (Frame α) := if n = 0 then [] else [.windowUpdate 0 n, .windowUpdate sid n]
    let r := d.data sid payload es
    (r.1, o, { fwd := r.2, backDirect := wu })
  | .headers sid es eh prio frag reenc =>
    if eh then
      let r := d.header sid reenc es prio
      (r.1, o, { fwd := r.2 })
    else
      ({ d with hdrBuf := frag, cont := .headers prio es }, o, {})
  | .continuation sid eh frag reenc =>
    let d1 := { d with hdrBuf := d.hdrBuf ++ frag }
    if eh then
      match d1.cont with
      | .headers prio es =>
        -- `headerContinuation.complete`: `s.Header(headers, true, h.priority)` (F7)
        let r := d1.header sid reenc (if d.fixEndStream then es else true) prio
        (r.1, o, { fwd := r.2 })
      | .push promised =>
        let r := d1.pushPromise sid promised reenc
        (r.1, o, { fwd := r.2 })
      | .none => (d1, o, { panic := true })
    else (d1, o, {})
  | .pushPromise sid promised eh frag reenc =>
    if eh then
      let r := d.pushPromise sid promised reenc
      (r.1, o, { fwd := r.2 })
    else
      ({ d with hdrBuf := frag, cont := .push promised }, o, {})
  | .priority sid prio =>
    let r := d.enqEmit (.priority sid prio)
    (r.1, o, { fwd := r.2 })
  | .rst sid code =>
    let r := d.enqEmit (.rst sid code)
    (r.1, o, { fwd := r.2 })
  | .windowUpdate sid inc =>
    let r := o.windowUpdate (ord 0) sid inc
    (d, r.1, { back := r.2 })
  | .settings kvs =>
    -- `r.peer.applySettings(settings)`, then the frame is forwarded verbatim
    let r := applySettings o ord kvs
    (d, r.1, { back := r.2, fwdDirect := [.settings kvs] })
  | .settingsAck => (d, o, { fwdDirect := [.settingsAck] })
  | .ping ack data => (d, o, { fwdDirect := [.ping ack data] })
  | .goAway last code debug => (d, o, { fwdDirect := [.goAway last code debug] })
  -- `default: err = errors.New("unrecognized frame type")` (RFC 7540 §4.1 wants it ignored: F39)
  | .unknown _ => (d, o, { fatal := true })

/-- `Framer.checkFrameOrder` (the relay reads with the stock Framer, `AllowIllegalReads` off):
    while a HEADERS block is open only CONTINUATION on the same stream is accepted, CONTINUATION is
    accepted only then.  A PUSH_PROMISE without END_HEADERS does *not* open a block for the Framer. -/
def orderOk (d : Dir α) : Op α → Bool
  | .continuation s _ _ _ => d.expectCont == some s
  | _ => d.expectCont == none

def nextExpect (d : Dir α) : Op α → Option Nat
  | .headers s _ eh _ _ _ => if eh then none else some s
  | .continuation s eh _ _ => if eh then none else some s
  | _ => d.expectCont

/-- one iteration of the `relayFrames` loop: `ReadFrame` (order check; an error ends the loop and
    with it this direction), then `processFrame`. -/
def step (d o : Dir α) (ord : Nat → List Nat) (op : Op α) : Dir α × Dir α × Out α :=
  if d.dead then (d, o, {})
  else if orderOk d op then
    let x := process d o ord op
    ({ x.1 with expectCont := nextExpect d op, dead := x.2.2.fatal }, x.2.1, x.2.2)
  else ({ d with dead := true }, o, {})

inductive Side where
  | client | server
  deriving DecidableEq, Repr

/-- the two relays of `Config.Proxy` -/
structure Relay (α : Type) where
  cs : Dir α := {}
  sc : Dir α := {}
  deriving Repr

/-- the initial state for a tree with the given repairs applied -/
def Relay.start (fixCredit fixEndStream : Bool) : Relay α :=
  { cs := { fixCredit := fixCredit, fixEndStream := fixEndStream },
    sc := { fixCredit := fixCredit, fixEndStream := fixEndStream } }

def Relay.step (r : Relay α) (side : Side) (ord : Nat → List Nat) (op : Op α) : Relay α × Out α :=
  match side with
  | .client => let x := H2.step r.cs r.sc ord op; ({ cs := x.1, sc := x.2.1 }, x.2.2)
  | .server => let x := H2.step r.sc r.cs ord op; ({ cs := x.2.1, sc := x.1 }, x.2.2)

/-- one scheduled event: who sent which frame, and how Go happened to iterate its map -/
structure Ev (α : Type) where
  side : Side
  ord : Nat → List Nat
  op : Op α

/-- run a schedule, collecting the outputs -/
def Relay.run (r : Relay α) : List (Ev α) → Relay α × List (Side × Op α × Out α)
  | [] => (r, [])
  | e :: es =>
    let x := r.step e.side e.ord e.op
    let y := Relay.run x.1 es
    (y.1, (e.side, e.op, x.2) :: y.2)


/-! ### The wire towards one endpoint: several writers, one Framer

  Three goroutines write to the Framer of a destination (relay.go): the writer goroutine of the relay
  towards it sends the queued elements (`QFrame.send`: a header block is HEADERS / PUSH_PROMISE
  followed by its CONTINUATION frames), the reader goroutine of the same relay writes SETTINGS,
  SETTINGS ACK, PING and GOAWAY while it processes the frame, and the reader goroutine of the peer
  relay writes the WINDOW_UPDATE frames for DATA coming the other way.  `destMu` is held per ELEMENT
  (`relayFrames`: `Lock; f.send(dest); Unlock`; every direct write is one frame under the lock), so
  what reaches the wire is a merge of the writers' element sequences that never splits an element.
  The order in which the lock is granted is the scheduler's: an explicit parameter (`mergeBy`). -/

/-- RFC 7540 §6.10, one frame: `blk = some s` — a header block is open on stream `s` (HEADERS,
    PUSH_PROMISE or CONTINUATION without END_HEADERS came last); the result is the state after the
    frame, `none` when the frame may not come here -/
def wireStep (blk : Option Nat) (f : Frame α) : Option (Option Nat) :=
  match blk, f with
  | some s, .continuation s' eh _ => if s' = s then some (if eh then none else some s) else none
  | some _, _ => none
  | none, .continuation _ _ _ => none
  | none, .headers s _ eh _ _ => some (if eh then none else some s)
  | none, .pushPromise s _ eh _ => some (if eh then none else some s)
  | none, _ => some none

def wireScan : Option Nat → List (Frame α) → Option (Option Nat)
  | blk, [] => some blk
  | blk, f :: fs =>
    match wireStep blk f with
    | none => none
    | some blk' => wireScan blk' fs

/-- §6.10 holds of a sequence of frames as they arrive (a block may still be open at its end) -/
def wireOk (fs : List (Frame α)) : Bool := (wireScan none fs).isSome

/-- index of the first frame that violates §6.10 -/
def wireFirstBad : Option Nat → Nat → List (Frame α) → Option Nat
  | _, _, [] => none
  | blk, i, f :: fs =>
    match wireStep blk f with
    | none => some i
    | some blk' => wireFirstBad blk' (i + 1) fs

/-- an element is whole: it may start when no block is open and leaves none open -/
def wholeElem (e : List (Frame α)) : Bool := wireScan none e == some none

/-- a frame that is an element of its own -/
def Frame.single : Frame α → Bool
  | .headers _ _ eh _ _ => eh
  | .pushPromise _ _ eh _ => eh
  | .continuation _ _ _ => false
  | _ => true

/-- what one writer puts on the wire: its elements, each written under one acquisition of the lock -/
abbrev Producer (α : Type) := List (List (Frame α))

/-- the head element of producer `i` is written -/
def popAt : List (Producer α) → Nat → Option (List (Frame α) × List (Producer α))
  | [], _ => none
  | p :: ps, 0 =>
    match p with
    | [] => none
    | e :: es => some (e, es :: ps)
  | p :: ps, i + 1 =>
    match popAt ps i with
    | none => none
    | some (e, ps') => some (e, p :: ps')

/-- the wire when the lock is granted to the producers in the order `sched` (a producer that has
    nothing left to write is passed over) -/
def mergeBy : List Nat → List (Producer α) → List (Frame α)
  | [], _ => []
  | i :: sched, ps =>
    match popAt ps i with
    | none => mergeBy sched ps
    | some (e, ps') => e ++ mergeBy sched ps'

/-- the elements written under `sched`, in order -/
def mergeElems : List Nat → List (Producer α) → List (List (Frame α))
  | [], _ => []
  | i :: sched, ps =>
    match popAt ps i with
    | none => mergeElems sched ps
    | some (e, ps') => e :: mergeElems sched ps'

/-- locking per frame instead of per element: every frame becomes an element of its own -/
def perFrame (p : Producer α) : Producer α := p.flatten.map fun f => [f]

end H2
end FwdVerif
