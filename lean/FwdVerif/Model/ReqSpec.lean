/-
  Specification vocabulary of C01 over the request pipeline model (`Model/Req.lean`): the
  case-insensitive views of what the client sent and of what the next hop receives, the
  well-formedness predicate, the name classes of the property text and the keep-alive sequence.
  Only definitions; nothing in `Model/Req.lean` is changed.  Core-only.
-/
import FwdVerif.Model.Req

namespace FwdVerif
namespace Req

open Ascii
open C16 (Rule)

/-- values (in wire order) of the request's field lines named `n` (`n` lower-case;
    case-insensitive match) -/
def inValues (r : Request) (n : Bytes) : List Bytes :=
  (r.fields.filter (fun f => lower f.1 == n)).map (·.2)

/-- per-name value list of a list of (name, values) entries -/
def vals (fs : List (Bytes × List Bytes)) (n : Bytes) : List Bytes :=
  (fs.filter (fun e => e.1 == n)).flatMap (·.2)

/-- values of the lower-case name `n` in what the hop receives -/
def outValues (out : OutMsg) (n : Bytes) : List Bytes := vals out.fields n

/-- Go refuses a request with a field name that is not an RFC 7230 token -/
def WFReq (r : Request) : Prop := ∀ f ∈ r.fields, f.1.all isTokenByte = true

instance (r : Request) : Decidable (WFReq r) :=
  inferInstanceAs (Decidable (∀ f ∈ r.fields, f.1.all isTokenByte = true))

/-- lower-case names nominated by the `Connection` field lines of the request -/
def nominated (r : Request) : List Bytes :=
  (inValues r (bs "connection")).flatMap fun v => (splitComma v).map fun t => lower (trimSpace t)

/-- the static hop-by-hop list of the property text (lower-case) -/
def hopByHopLower : List Bytes :=
  [bs "connection", bs "keep-alive", bs "proxy-authenticate", bs "proxy-authorization",
   bs "proxy-connection", bs "te", bs "trailer", bs "transfer-encoding", bs "upgrade"]

/-- names the proxy or Go's reader/writer manage themselves; each has its own clause -/
def managedLower : List Bytes :=
  [bs "host", bs "via", bs "x-forwarded-for", bs "x-forwarded-proto", bs "x-forwarded-host",
   bs "x-forwarded-url", bs "accept-encoding", bs "user-agent", bs "authorization",
   bs "content-length", bs "transfer-encoding", bs "trailer", bs "connection", bs "upgrade",
   bs "cache-control", bs "proxy-authorization"]

/-- names whose field lines at the next hop the proxy (or Go's request writer) produces itself, so
    that a line of that name at the hop need not come from the client: each has its own exact clause.
    Every OTHER name a request nominates in `Connection` is simply gone at the hop
    (`c01_nominated_removed`), also when the request asks for a protocol upgrade. -/
def proxyWrittenLower : List Bytes :=
  [bs "host", bs "via", bs "x-forwarded-for", bs "x-forwarded-proto", bs "x-forwarded-host",
   bs "x-forwarded-url", bs "accept-encoding", bs "authorization", bs "content-length",
   bs "transfer-encoding", bs "trailer", bs "connection", bs "upgrade", bs "proxy-authorization"]

/-- a configured rule can touch the field named `n` (lower-case) -/
def ruleTouches (n : Bytes) : Rule → Bool
  | .removePrefix p => (lower p).isPrefixOf n
  | r => lower r.name == n

/-- the raw query part of the request-target -/
def queryPart (r : Request) : Bytes :=
  match r.query with | some q => 63 :: q | none => []

/-- first value of the field named `n`, "" when there is none (`Header.Get`) -/
def firstValue (r : Request) (n : Bytes) : Bytes := (inValues r n).headD []

/-- the values of a name that survive hop-by-hop removal: none when `Connection` nominates it -/
def survivingValues (r : Request) (n : Bytes) : List Bytes :=
  if n ∈ nominated r then [] else inValues r n

/-- … and what `Header.Get` then returns -/
def survivingFirst (r : Request) (n : Bytes) : Bytes := (survivingValues r n).headD []

/-- the surviving values of a list-valued field combined into one value as RFC 9110 §5.3 says:
    all field lines, in order, separated by ", " -/
def survivingChain (r : Request) (n : Bytes) : Bytes := joinWith (bs ", ") (survivingValues r n)

/-- … the same for all field lines of the name (not nominated by `Connection`) -/
def chainOf (r : Request) (n : Bytes) : Bytes := joinWith (bs ", ") (inValues r n)

/-- the upgrade the client asks for: the first `Upgrade` value when `Connection` holds the token
    `Upgrade`, "" otherwise (= no upgrade requested) -/
def upgradeRequested (r : Request) : Bytes :=
  if valuesContainToken (inValues r (bs "connection")) (bs "Upgrade") then firstValue r (bs "upgrade")
  else []

/-- authority of an absolute-form request-target, "" for origin-form -/
def authorityOf (r : Request) : Bytes :=
  match r.target with
  | .origin => []
  | .absolute _ a => a

/-- scheme of an absolute-form request-target, "" for origin-form -/
def targetScheme (r : Request) : Bytes :=
  match r.target with
  | .origin => []
  | .absolute s _ => s

/-- the host the request is for: the authority of an absolute-form target, else the first `Host`
    value -/
def hostOf (r : Request) : Bytes :=
  if (authorityOf r).isEmpty then firstValue r (bs "host") else authorityOf r

/-- the scheme the proxy works with: that of an absolute-form target; for origin-form a non-empty
    client `X-Forwarded-Proto`, else `https` inside an intercepted TLS session, else `http` -/
def effScheme (ctx : Ctx) (r : Request) : Bytes :=
  if (targetScheme r).isEmpty then
    if !(firstValue r (bs "x-forwarded-proto")).isEmpty then firstValue r (bs "x-forwarded-proto")
    else if ctx.secure then bs "https" else bs "http"
  else targetScheme r

/-- the element the proxy appends to the Via chain -/
def viaElement (cfg : Cfg) (r : Request) : Bytes := protoText r.minor ++ [32] ++ cfg.tag

/-- the URL as the proxy sees it (X-Forwarded-Url) -/
def urlOf (ctx : Ctx) (r : Request) : Bytes :=
  effScheme ctx r ++ bs "://" ++ hostOf r ++ r.path ++ queryPart r

deriving instance DecidableEq for OutMsg
deriving instance DecidableEq for Outcome

/-- `p` holds of the forwarded message, vacuously true for the other outcomes -/
def checkFwd (o : Outcome) (p : OutMsg → Bool) : Bool :=
  match o with
  | .forwarded _ out => p out
  | _ => true

def isFwd : Outcome → Bool
  | .forwarded _ _ => true
  | _ => false

/-- requests of one keep-alive connection as items of `processConnection` (Model/Req.lean: the one
    definition shared with C04, which also handles CONNECT / interception / tunnels) -/
def reqItems (rs : List Request) : List ConnItem := rs.map .req

end Req
end FwdVerif
