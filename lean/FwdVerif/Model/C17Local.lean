/-
  C17 — the three domain lists COMPOSED with the proxy-localhost mode, and the length of a subject.

  `Model/C17Subject.lean` has `outcome`: what the deny-, mitm- and direct-domains lists make of a
  request on a proxy started with `--proxy-localhost=allow`.  `http_proxy.go` composes two more
  wrappers with them, both asking `hp.isLocalhost(req.URL.Hostname())` — the same subject the lists
  are asked about:

      middlewareStack :  basic auth …
                         if ProxyLocalhost == deny   { denyLocalhost() }          ⇒ 403 "localhost proxying is disabled"
                         if DenyDomains != nil       { denyDomains(list) }        ⇒ 403 "proxying denied"
      (martian)       :  a CONNECT that got through asks shouldMITM (MITMFilter = mitm-domains)
      configureProxy  :  proxyFunc = upstream
                         if DirectDomains != nil     { proxyFunc = directDomains(proxyFunc) }
                         if ProxyLocalhost == direct { proxyFunc = directLocalhost(proxyFunc) }   -- outermost

  so a request meets, in this order: denyLocalhost (deny mode), deny-domains, mitm-domains (CONNECT),
  directLocalhost (direct mode), direct-domains, the upstream proxy.  In the allow mode NEITHER
  localhost wrapper exists: a localhost name or a loopback literal is a host like any other for all
  three lists.  `siteOutcome` is that composition with the classifier as a parameter (the theorems
  hold for every classifier); the driver instantiates it with `HTTPProxy.isLocalhost` as modelled
  for C04/C05 (`C05.isLocalhost`: `localhost`, `0.0.0.0`, `::`, the hosts-file aliases, every
  loopback or unspecified IP literal `net.ParseIP` accepts; letter case ignored).

  `mergedOutcome` is NOT what the code does: the plausible refactoring that merges the two proxy
  function wrappers into one which extracts the host once and settles a localhost host by the mode
  alone — kept for the kernel-checked witness that tells it from the code.

  `Matcher.guardedMatches` is NOT what the code does either: `Match` with a "longer than a DNS
  name" guard in front of the rules AND of the inversion.  `Matcher.matches` has no such guard: the
  model and every theorem about it quantify over all byte lists, of any length.  Core-only.
-/
import FwdVerif.Model.C17Subject
import FwdVerif.Model.C05

namespace FwdVerif
namespace C17

/-- `--proxy-localhost` -/
inductive LocalMode where
  | deny | allow | direct
  deriving DecidableEq, Repr

/-- what becomes of a request as far as the localhost mode and the three lists decide it -/
inductive SiteOutcome where
  | localRefused            -- 403 by `denyLocalhost` (before any list is consulted)
  | lists (o : Outcome)     -- as the lists (and, for `direct`, `directLocalhost`) decide
  deriving DecidableEq, Repr

/-- the composition of `http_proxy.go`; `loc` = `hp.isLocalhost`, asked about `req.URL.Hostname()` -/
def siteOutcome (mode : LocalMode) (loc : Bytes → Bool) (L : Lists) (connect : Bool) (authority : Bytes) :
    SiteOutcome :=
  if mode == .deny && loc (subjectOf authority) then .localRefused
  else if optMatch L.deny false (Site.deny.subject authority) then .lists .denied
  else if connect && optMatch L.mitm true (Site.mitm.subject authority) then .lists .intercepted
  else if mode == .direct && loc (subjectOf authority) then .lists .direct
  else if optMatch L.direct false (Site.direct.subject authority) then .lists .direct
  else .lists .upstream

/-- `HTTPProxy.isLocalhost` for a hosts file with the given loopback aliases -/
def localhostClass (aliases : List Bytes) : Bytes → Bool := C05.isLocalhost aliases

/-! ### NOT the code: one wrapper for direct-domains and the direct localhost mode -/

/-- `directHosts`: `if isLocalhost(host) { if mode == direct { return direct }; return fn(req) };
    if list.Match(host) { return direct }; return fn(req)` — true = by-pass the upstream proxy -/
def mergedDirect (mode : LocalMode) (loc : Bytes → Bool) (L : Lists) (host : Bytes) : Bool :=
  if loc host then mode == .direct else optMatch L.direct false host

def mergedOutcome (mode : LocalMode) (loc : Bytes → Bool) (L : Lists) (connect : Bool) (authority : Bytes) :
    SiteOutcome :=
  if mode == .deny && loc (subjectOf authority) then .localRefused
  else if optMatch L.deny false (Site.deny.subject authority) then .lists .denied
  else if connect && optMatch L.mitm true (Site.mitm.subject authority) then .lists .intercepted
  else if mergedDirect mode loc L (subjectOf authority) then .lists .direct
  else .lists .upstream

/-! ### NOT the code: a length guard in front of the rules and of the inversion -/

/-- `if len(s) > n { return false }; m := r.match(s); if r.inverse { m = !m }; return m` -/
def Matcher.guardedMatches (n : Nat) (m : Matcher) (s : Bytes) : Bool :=
  if s.length > n then false else m.matches s

end C17
end FwdVerif
