/-
  C20, listener stacking: which limiters the bytes of an accepted connection pass through.

  `forwarder.Listener.Listen` (net.go) does not hand the limits to a connection, it builds a chain of
  LISTENER VALUES, each wrapper being handed the listener it is to wrap:

    ll := TCP listener
    if ProxyProtocolConfig != nil      { ll = &proxyproto.Listener{Listener: ll, …} }
    if ReadLimit > 0 || WriteLimit > 0 { ll = ratelimit.NewListener(ll, ReadLimit, WriteLimit) }
    l.listener = ll

  and `Listener.Accept` puts the connection tracker (always) and `tls.Server` (with a TLS
  configuration) on top of what `l.listener.Accept()` returns.  A connection's `Read`/`Write` pass
  through the wrappers on the chain from `l.listener` down to the socket - and through no other: a
  wrapper that was built but is not on that chain (because a later wrapper was handed the listener
  BELOW it, not the wrapped one) does not see a byte.  `LExpr` is such a listener value, `layers` the
  chain of an accepted connection from the socket upwards (the layer list of Model/C08Stack.lean),
  `limitersIn` the limiters a connection stacked that way meters its bytes with.

  Core-only.
-/
import FwdVerif.Model.C08Stack
import FwdVerif.Model.C20

namespace FwdVerif
namespace C20

open C08 (Layer StackCfg)

/-- a listener value: the TCP listener, or a wrapper together with the listener it was handed -/
inductive LExpr where
  | tcp
  /-- `&proxyproto.Listener{Listener: inner, …}` -/
  | proxy (inner : LExpr)
  /-- `ratelimit.NewListener(inner, ReadLimit, WriteLimit)` -/
  | limit (inner : LExpr)
  deriving DecidableEq, Repr

/-- the wrappers around a connection accepted from that listener value, from the socket upwards -/
def LExpr.layers : LExpr → List Layer
  | .tcp => []
  | .proxy e => e.layers ++ [Layer.proxyproto]
  | .limit e => e.layers ++ [Layer.ratelimit]

/-- `Listener.Listen`: the value stored in `l.listener` -/
def listenExpr (c : StackCfg) : LExpr :=
  let ll := LExpr.tcp
  let ll := if c.proxy then LExpr.proxy ll else ll
  if c.limited then LExpr.limit ll else ll

/-- `Listener.Accept`: tracker and (optionally) TLS on top of what the listener value accepts -/
def acceptLayers (e : LExpr) (c : StackCfg) : List Layer :=
  e.layers ++ (Layer.track :: (if c.tls then [Layer.tls] else []))

/-- the stack of a connection accepted from `forwarder.Listener` in configuration `c` -/
def listenerStack (c : StackCfg) : List Layer := acceptLayers (listenExpr c) c

/-- the limiters the reads and writes of a connection stacked as `s` pass through: those of
    `ratelimit.NewListener(_, ReadLimit, WriteLimit)` when that wrapper is on the connection's chain,
    none otherwise (the proxyproto, tracker and TLS layers hand every call on to the layer below) -/
def limitersIn (s : List Layer) (c : StackCfg) : Listener :=
  if Layer.ratelimit ∈ s then newListener (c.readLimit : Int) (c.writeLimit : Int)
  else { rxLimiter := none, txLimiter := none }

/-- a `Read`/`Write` of the application on a connection stacked as `s` (bytes as they cross the limiter) -/
def stackStep (s : List Layer) (c : StackCfg) (sys : Sys) (op : Op) : Sys × Nat :=
  step (limitersIn s c) sys op

/-- NOT the code: the limiter moved to the socket ("every byte counts, the PROXY header included"),
    built correctly - the PROXY wrapper is handed the rate-limited listener.  Here to show that the
    clauses of C20 do not depend on the order of the two layers. -/
def limiterFirstListenExpr (c : StackCfg) : LExpr :=
  let tl := LExpr.tcp
  let ll := if c.limited then LExpr.limit tl else tl
  if c.proxy then LExpr.proxy ll else ll

/-- NOT the code: the same reordering with the PROXY wrapper handed the RAW listener `tl`: the two
    wrappers sit next to each other on the TCP listener and the assignment to `ll` forgets the limiter. -/
def siblingListenExpr (c : StackCfg) : LExpr :=
  let tl := LExpr.tcp
  let ll := if c.limited then LExpr.limit tl else tl
  if c.proxy then LExpr.proxy tl else ll

end C20
end FwdVerif
