/-
  C01 — the request pipeline (`Model/Req.lean`) put behind the two things the real proxy puts in
  front of it: MANY client connections served at the same time, and the BYTE STREAM of one client
  connection.  Only additions; nothing in `Model/Req.lean`, `Model/ReqSeq.lean` or
  `Model/ReqConn.lean` is changed.  Core-only.

  1. Concurrency.  Every client connection is served by its own goroutine; all of them run the one
     modifier stack of the proxy.  A run is an INTERLEAVING of the per-connection request lists.
     `Interleaving conns es`: `es` is a merge of the lists `conns` that keeps each list's order.
     `runSchedule`: the process (`Req.runProcess`) folded over a schedule of (connection, event)
     pairs.  The statement of C01 under concurrency (`Theorems/C01.lean` §14): whatever the
     interleaving, every connection gets `processRequest` of its own requests, in its own order, and
     the multiset of forwarded messages is the union of `processRequest` of each — the pipeline has
     no shared mutable state.  `scratchRun` is the counter-model: a pipeline whose Via value is
     assembled in ONE scratch buffer kept on the (shared) modifier, in two steps per request
     (assemble, publish); a schedule that puts another connection's `assemble` between the two
     steps forwards a request with the other connection's chain.

  2. One connection's byte stream.  `Model/ReqConn.lean` (C02) reads a client connection's bytes into
     request heads and bodies for an arbitrary decision function `d : ReqHead → Disp`.  Here `d` IS
     the pipeline: `pipeDecide cfg ctx` runs `processRequest` on the request a head denotes (`ofHead`)
     and answers locally exactly when the pipeline refuses.  `hopReceives m cfg ctx oc inp`: the
     messages the next hop is sent on behalf of the connection, each `processRequest` of a request
     head together with the body bytes that travel with it.  With `Drain.always` (the deferred
     `req.Body.Close()` right after `readRequest`) these are requests the client framed; with
     `Drain.forwardedOnly` (the body of a locally answered request left on the connection) they are
     not (`Theorems/C01.lean` §15).
-/
import FwdVerif.Model.ReqSeq
import FwdVerif.Model.ReqConn

namespace FwdVerif
namespace C01

open Req Ascii
open ReqConn (ReqHead Disp Drain Acted Item End BodyParts)

/-! ### 1. interleavings of per-connection request lists -/

/-- `Interleaving conns es`: `es` merges the lists `conns`, keeping the order inside each of them
    (at every step the head of some connection's remaining list is taken) -/
inductive Interleaving {α : Type} : List (List α) → List α → Prop where
  | done {cs : List (List α)} : (∀ c ∈ cs, c = []) → Interleaving cs []
  | take {pre post : List (List α)} {c es : List α} (x : α) :
      Interleaving (pre ++ c :: post) es → Interleaving (pre ++ (x :: c) :: post) (x :: es)

/-- a schedule: which connection's goroutine handles which message, in the order the process gets
    to them -/
abbrev Schedule := List (Nat × Event)

/-- the messages of connection `c`, in the order the client sent them -/
def connEvents (c : Nat) (s : Schedule) : List Event := (s.filter (·.1 == c)).map (·.2)

/-- the process folded over a schedule: every outcome labelled with its connection -/
def runSchedule (st : ProcState) (s : Schedule) : List (Nat × Option Outcome) :=
  (s.map (·.1)).zip (runProcess st (s.map (·.2)))

/-- what connection `c` gets, in order -/
def connOutcomes (c : Nat) (res : List (Nat × Option Outcome)) : List (Option Outcome) :=
  (res.filter (·.1 == c)).map (·.2)

/-! #### the counter-model: one scratch buffer for all connections -/

def isVia (f : Bytes × Bytes) : Bool := canonicalKey f.1 == bs "Via"

/-- the Via field lines of a request (what `ModifyRequest` copies into the buffer) -/
def viaLines (r : Request) : List (Bytes × Bytes) := r.fields.filter isVia

/-- the request with its Via lines replaced by `lines` -/
def withVia (lines : List (Bytes × Bytes)) (r : Request) : Request :=
  { r with fields := r.fields.filter (fun f => !isVia f) ++ lines }

/-- the two steps of `ViaModifier.ModifyRequest` with a buffer kept on the modifier -/
inductive Micro where
  /-- connection `c`'s goroutine copies its request's chain into the buffer -/
  | assemble (c : Nat)
  /-- … and reads the buffer back as the chain of its request (`string(buf)`); the rest of the
      pipeline follows -/
  | publish (c : Nat)
  deriving Repr, DecidableEq

/-- a pipeline whose Via chain goes through ONE buffer shared by all connections; `reqOf c` is the
    request connection `c` is handling -/
def scratchRun (reqOf : Nat → Cfg × Ctx × Request) : List (Bytes × Bytes) → List Micro → List (Nat × Outcome)
  | _, [] => []
  | _, .assemble c :: ms => scratchRun reqOf (viaLines (reqOf c).2.2) ms
  | buf, .publish c :: ms =>
    (c, processRequest (reqOf c).1 (reqOf c).2.1 (withVia buf (reqOf c).2.2)) :: scratchRun reqOf buf ms

/-! ### 2. the pipeline behind one connection's byte stream -/

/-- request-target → form, path, query (`url.ParseRequestURI` on the shapes of the domain: origin-form,
    or `http://` / `https://` absolute-form with a path) -/
def splitTarget (t : Bytes) : Target × Bytes × Option Bytes :=
  let notPath : UInt8 → Bool := fun c => c != 47 && c != 63
  let (tg, rest) : Target × Bytes :=
    if t.take 7 == bs "http://" then
      (.absolute (bs "http") ((t.drop 7).takeWhile notPath), (t.drop 7).dropWhile notPath)
    else if t.take 8 == bs "https://" then
      (.absolute (bs "https") ((t.drop 8).takeWhile notPath), (t.drop 8).dropWhile notPath)
    else (.origin, t)
  let path := rest.takeWhile (fun c => c != 63)
  let query := match rest.dropWhile (fun c => c != 63) with
    | [] => none
    | _ :: q => some q
  (tg, path, query)

/-- the request a head read off the connection denotes for the pipeline -/
def ofHead (h : ReqHead) : Request :=
  let t := splitTarget h.target
  { method := h.method, minor := h.minor, target := t.1, path := t.2.1, query := t.2.2, fields := h.fields }

/-- what the connection loop makes of the pipeline's outcome: answered locally iff not forwarded;
    the response announces `close` when the request asked for it, after a Via loop (`req.Close = true`
    in `ViaModifier`), or when the relayed response does.  A request outside the modelled domain ends
    the model's run (status 0, close). -/
def dispOf (originCloses : Bool) (h : ReqHead) : Outcome → Disp
  | .refused st why => { refused := some st, close := why == .loop || ReqConn.reqClose h }
  | .badRequest => { refused := some 400, close := ReqConn.reqClose h }
  | .routeError => { refused := some 502, close := ReqConn.reqClose h }
  | .unreadable => { refused := some 0, close := true }
  | .forwarded _ _ => { refused := none, close := ReqConn.reqClose h || originCloses }

/-- the decision function of `ReqConn.serve` that IS the request pipeline -/
def pipeDecide (cfg : Cfg) (ctx : Ctx) (originCloses : ReqHead → Bool) (h : ReqHead) : Disp :=
  dispOf (originCloses h) h (processRequest cfg ctx (ofHead h))

/-- a message a hop is sent: the pipeline's outcome for a request head, and the body bytes (with
    trailers) that travel with it (`none`: the body never completed) -/
structure HopMsg where
  outcome : Outcome
  body : Option BodyParts

def hopOf (cfg : Cfg) (ctx : Ctx) (i : Item) : HopMsg :=
  { outcome := processRequest cfg ctx (ofHead i.head), body := i.body }

/-- the connection loop with drain policy `m` over the client's bytes -/
def serveConn (m : Drain) (cfg : Cfg) (ctx : Ctx) (oc : ReqHead → Bool) (inp : Bytes) : List Acted × End :=
  ReqConn.serve m (pipeDecide cfg ctx oc) inp

/-- what the next hop is sent on behalf of this client connection, in order -/
def hopReceives (m : Drain) (cfg : Cfg) (ctx : Ctx) (oc : ReqHead → Bool) (inp : Bytes) : List HopMsg :=
  (ReqConn.forwarded (serveConn m cfg ctx oc inp).1).map (hopOf cfg ctx)

/-- … of which the method and the length of the body (Boolean view for the concrete witnesses) -/
def HopMsg.summary (m : HopMsg) : Bytes × Bytes × Option Nat :=
  match m.outcome with
  | .forwarded _ out => (out.method, out.target, m.body.map (·.1.length))
  | _ => ([], [], none)

/-! ### 3. Counter-models for the two places where the pipeline looks at something other than the
    client's header fields: the connection's peer address and the credentials table -/

/-- counter-model of `Req.peerHost`: "drop the port" done by cutting `RemoteAddr` at its last colon
    (the same as `net.SplitHostPort` for every IPv4 peer) -/
def cutLastColon (remoteAddr : Bytes) : Bytes :=
  match lastIndexOfByte 58 remoteAddr with
  | some i => if i > 0 then remoteAddr.take i else remoteAddr
  | none => remoteAddr

/-- `HTTPProxy.setBasicAuth` with the test "the client authenticates itself" left open: the site
    credential is attached unless `clientAuthenticates (Header.Get "Authorization")`.  The code's test
    is "the value is not empty" (`attachSiteCred (fun v => !v.isEmpty)` is the step `processRequest`
    performs). -/
def attachSiteCred (clientAuthenticates : Bytes → Bool) (site : Option Bytes) (h : C16.HMap) : C16.HMap :=
  match site with
  | some a => if clientAuthenticates (goGet h (bs "Authorization")) then h else C16.goSet h (bs "Authorization") a
  | none => h

/-- the test of the counter-model: a value of the `Basic` scheme (what `req.BasicAuth()` looks for first) -/
def basicScheme (v : Bytes) : Bool := Ascii.lower (v.take 6) == bs "basic "

end C01
end FwdVerif
