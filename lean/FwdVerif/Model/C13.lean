/-
  C13 — request and connection accounting.  Core-only executable model of

    internal/martian/proxy_conn.go   handle, handleConnectRequest, handleMITM, tunnel,
                                     handleUpgradeResponse, writeErrorResponse, writeResponse,
                                     writeTunnelResponse, write      (proxy_handler.go: the twins)
    internal/martian/proxy_trace.go  traceReadRequest / traceWroteResponse
    http_proxy.go middlewareStack    trace.ReadRequest  = if info.Req != nil then p.ReadRequest(info.Req)
                                     trace.WroteResponse = if info.Res != nil then p.WroteResponse(info.Res)
    middleware/prometheus.go         ReadRequest:   in_flight{method}++
                                     WroteResponse: in_flight{method of res.Request}--, total{code,method}++
    conntrack/conntrack.go           closeListener.Close:  err := c.close(); c.once.Do(c.onClose)
    net.go / net_metrics.go          Listener.Accept: accepted++, active++, OnClose = active--
                                     Dialer.DialContext: error → errors++ ; ok → dialed++, active++, OnClose = active--
    conntrack conn.Read/Write/ReadFrom   n, err := c.Conn.Read/Write/ReadFrom(…); rx += n / tx += n  — whatever `err`
                                     (a write cut short by a deadline or a reset still moved `n` bytes)
    closeListener.close              the wrapped connection's own `Close`: returns nil, net.ErrClosed (closed
                                     before — by an earlier call, or underneath the tracker by the stack itself:
                                     proxyproto.Conn on the header timeout) or any other error, every time it is called

  The control flow is a path grammar: one `Path` per way a single iteration of `handle` can
  end; `Path.events` is computed by functions that mirror `write` (`writeResponse` /
  `writeTunnelResponse`), `writeErrorResponse` and `tunnel`, so where the trace fires is
  derived, not postulated.

  Repaired (F40): whether a written response is reported at once used to be guessed from its shape
  (`skipTraceWroteResponse`: every error-free CONNECT 2xx and every error-free 101 was left to "the
  tunnel that follows"), also for the 101 with which an upstream proxy *rejects* a CONNECT — the
  client's (handleConnectRequest → writeResponse(res)) or the transport's own (roundTrip error →
  writeErrorResponse → writeResponse(res)) —, after which no tunnel follows: that exchange was never
  reported complete.  Now the caller says so: only `tunnel` writes with `writeTunnelResponse` (silent
  unless the write fails, the report comes at teardown); every other response is written with
  `writeResponse`, which reports it whatever its method and status.  `handleMITM` therefore no longer
  reports the 200 itself.

  Repaired (F52): `write` marks a response `res.Close` when the request asked to close (`req.Close`: the
  `close` connection option, or HTTP/1.0 without keep-alive) and then returns `errClose` — also, formerly,
  for the 101 that `tunnel` writes for an upgrade request carrying that option (`Connection: Upgrade, close`):
  `tunnel` returned at once, before `bicopy` and before its deferred report, and the request was never
  reported complete.  The rule that already exempted a successful CONNECT now exempts every response written
  with `writeTunnelResponse` (`closesAfterHead`); `Path.upgrade` carries the request's close flag, `tunnelAfter`
  is `tunnel` given what the head write returned, and `Path.eventsBeforeF52` keeps the former rule as a
  counter-model.

  Repaired (F12): the error response for a CONNECT rejection that happened inside the transport
  (`maybeConnectErrorResponse`) used to keep `res.Request` = the transport's own CONNECT request, so
  the completion was reported under method CONNECT; `writeErrorResponse` now sets `res.Request = req`.
-/
import FwdVerif.Lib.Wire

namespace FwdVerif
namespace C13

/-! ## Methods, events, counters -/

/-- request methods (the label value of the Prometheus series); `connect` is the only one the
    control flow distinguishes -/
inductive Method
  | get | head | post | put | delete | options | patch | trace | connect
  deriving DecidableEq, Repr, Inhabited

def Method.all : List Method :=
  [.get, .head, .post, .put, .delete, .options, .patch, .trace, .connect]

def Method.name : Method → String
  | .get => "GET" | .head => "HEAD" | .post => "POST" | .put => "PUT" | .delete => "DELETE"
  | .options => "OPTIONS" | .patch => "PATCH" | .trace => "TRACE" | .connect => "CONNECT"

def Method.ofName (s : String) : Option Method :=
  Method.all.find? fun m => m.name == s

/-- what reaches the metrics: `ReadRequest(req)` and `WroteResponse(res)` with
    `res.Request.Method` and `res.StatusCode` -/
inductive Event
  | read (m : Method)
  | wrote (m : Method) (status : Nat)
  deriving DecidableEq, Repr

/-- the two metric families: gauge `http_requests_in_flight{method}` and counter
    `http_requests_total{code,method}` -/
structure Counters where
  inflight : Method → Int
  total : Nat → Method → Nat

def Counters.zero : Counters := ⟨fun _ => 0, fun _ _ => 0⟩

/-- middleware/prometheus.go ReadRequest / WroteResponse -/
def Counters.apply (c : Counters) : Event → Counters
  | .read m =>
    { c with inflight := fun x => if x = m then c.inflight x + 1 else c.inflight x }
  | .wrote m st =>
    { inflight := fun x => if x = m then c.inflight x - 1 else c.inflight x
      total := fun s x => if s = st ∧ x = m then c.total s x + 1 else c.total s x }

/-- the metric state after a trace of events -/
def run (c : Counters) (evs : List Event) : Counters := evs.foldl Counters.apply c

/-- Σ of the counter family over a finite set of label pairs -/
def Counters.sumTotal (c : Counters) (keys : List (Nat × Method)) : Nat :=
  (keys.map fun k => c.total k.1 k.2).sum

/-! ## The trace points of proxy_conn.go -/

/-- the trace part of `write(res, tunnel)`: `m` = method of `res.Request` (which is whatever the
    builder of `res` put there), `werr` = the write or flush failed, `tunnel` = the caller opens a
    tunnel with this response and reports it when the tunnel is closed.  The shape of the response
    (method, status) plays no part. -/
def write (m : Method) (status : Nat) (werr tunnel : Bool) : List Event :=
  if !tunnel || werr then [.wrote m status] else []

/-- `writeResponse(res)`: a response that is complete once written -/
def writeResponse (m : Method) (status : Nat) (werr : Bool) : List Event := write m status werr false

/-- `writeTunnelResponse(res)`: the head that opens a tunnel (called by `tunnel` only) -/
def writeTunnelResponse (m : Method) (status : Nat) (werr : Bool) : List Event := write m status werr true

/-- where the error handed to `writeErrorResponse` came from: `maybeConnectErrorResponse(err)`
    is non-nil exactly for the transport's `OnProxyConnectResponse` error -/
inductive ErrSource
  | local              -- p.errorResponse(req, err): res.Request = req
  | transportConnect   -- connectError.res, re-addressed: `res.Request = req` (the client's request)
  deriving DecidableEq, Repr

/-- `writeErrorResponse(req, err)`: whichever way the response was obtained, it is written — and
    reported — as the answer to `req` -/
def writeErrorResponse (req : Method) (src : ErrSource) (status : Nat) (werr : Bool) : List Event :=
  match src with
  | .local => writeResponse req status werr
  | .transportConnect => writeResponse req status werr

/-- how `tunnel(name, res, crw)` ends -/
inductive TunnelEnd
  | writeError     -- writeResponse(res) failed: the trace fires inside writeResponse
  | drainFailure   -- drainBuffer failed: traceWroteResponse(res, err)
  | closed         -- bicopy returned (either side closed, any order): traceWroteResponse(res, nil)
  deriving DecidableEq, Repr

/-- `tunnel`: head written with `writeTunnelResponse` (silent unless the write fails), then the
    deferred report -/
def tunnel (m : Method) (status : Nat) : TunnelEnd → List Event
  | .writeError => writeTunnelResponse m status true
  | .drainFailure => writeTunnelResponse m status false ++ [.wrote m status]
  | .closed => writeTunnelResponse m status false ++ [.wrote m status]

/-- which responses `write` never marks `res.Close` (and so never answers with `errClose` once written) -/
inductive CloseRule
  /-- the code: `req.Method == CONNECT && 2xx || tunnel` -/
  | tunnelNeverCloses
  /-- before the repair of F52: `req.Method == CONNECT && 2xx` -/
  | connectOnly
  deriving DecidableEq, Repr

/-- does `write(res, tunnel = true)` return `errClose` after a head that was written without error?
    `reqClose` = `p.closing() || req.Close`, `connect2xx` = a CONNECT answered 2xx -/
def closesAfterHead (rule : CloseRule) (reqClose connect2xx : Bool) : Bool :=
  reqClose && !(connect2xx || rule == .tunnelNeverCloses)

/-- `tunnel` given what the head write returned: on `errClose` (head written, `res.Close` set) it returns
    before `drainBuffer`, `bicopy` and the report that follows them — nothing is reported -/
def tunnelAfter (headCloses : Bool) (m : Method) (status : Nat) : TunnelEnd → List Event
  | .writeError => tunnel m status .writeError
  | e => if headCloses then writeTunnelResponse m status false else tunnel m status e

/-! ## Exit paths of one iteration of `handle` -/

/-- One way through `handle` (and what it calls).  `m` = method of the request read, `st` = status
    code of the response handed to `writeResponse`, `w` = the write to the client failed
    (client reset / abort while downloading). -/
inductive Path
  /-- `readRequest` failed: EOF, reset, timeout, malformed head — no request -/
  | readError
  /-- `p.closing()` after the read: the request is dropped (graceful shutdown only) -/
  | shutdownAfterRead (m : Method)
  /-- `modifyRequest` failed: 407 basic auth, 403 deny-domains / localhost, 400 Via loop, 451, … -/
  | refused (m : Method) (st : Nat) (w : Bool)
  /-- `roundTrip` failed with an ordinary error: refused, reset, timeout, client aborted the upload -/
  | roundTripError (m : Method) (st : Nat) (w : Bool)
  /-- `roundTrip` failed because the upstream proxy rejected the transport's CONNECT: its answer is
      relayed as the response to the client's request -/
  | transportConnectRejected (m : Method) (st : Nat) (w : Bool)
  /-- `modifyResponse` failed -/
  | responseModifierError (m : Method) (st : Nat) (w : Bool)
  /-- the origin's response is written (`st ≠ 101`) -/
  | response (m : Method) (st : Nat) (w : Bool)
  /-- 101 whose body is not an `io.ReadWriteCloser` — a `101` reply that is no protocol switch —:
      `handleUpgradeResponse` answers with the 502 of `errNoProtocolSwitch` through `writeErrorResponse`
      (one report, by `writeResponse`; before the repair of F42: nothing written, `wrote m 101` reported) -/
  | upgradeNonWritable (m : Method) (w : Bool)
  /-- 101: `handleUpgradeResponse` → `tunnel`; `cl` = the request asked to close the connection
      (`req.Close`: `Connection: Upgrade, close`, or HTTP/1.0 without keep-alive) -/
  | upgrade (m : Method) (cl : Bool) (e : TunnelEnd)
  /-- CONNECT: `modifyRequest` failed -/
  | connectRefused (st : Nat) (w : Bool)
  /-- CONNECT: `p.Connect` returned an error (dial failure, upstream proxy unreachable, TLS termination) -/
  | connectDialFailure (st : Nat) (w : Bool)
  /-- CONNECT: `modifyResponse` of the connect response failed -/
  | connectResponseModifierError (st : Nat) (w : Bool)
  /-- CONNECT: the upstream proxy answered non-2xx; its response is passed on -/
  | connectRejected (st : Nat) (w : Bool)
  /-- CONNECT: `tunnel("CONNECT", res, crw)` -/
  | connectTunnel (e : TunnelEnd)
  /-- MITM: `modifyResponse` of the synthetic 200 failed -/
  | mitmResponseModifierError (st : Nat) (w : Bool)
  /-- MITM: writing the 200 failed -/
  | mitmWriteError
  /-- MITM: 200 written with `writeResponse`, which reports it at once; the requests inside the TLS
      session are further iterations of `handle` on the same connection (further `Path`s) -/
  | mitmHandoff
  deriving DecidableEq, Repr

/-- the events a path emits, in order -/
def Path.events : Path → List Event
  | .readError => []                    -- traceReadRequest(nil, err): the hook ignores a nil request
  | .shutdownAfterRead m => [.read m]
  | .refused m st w => .read m :: writeErrorResponse m .local st w
  | .roundTripError m st w => .read m :: writeErrorResponse m .local st w
  | .transportConnectRejected m st w => .read m :: writeErrorResponse m .transportConnect st w
  | .responseModifierError m st w => .read m :: writeErrorResponse m .local st w
  | .response m st w => .read m :: writeResponse m st w
  | .upgradeNonWritable m w => .read m :: writeErrorResponse m .local 502 w
  | .upgrade m cl e => .read m :: tunnelAfter (closesAfterHead .tunnelNeverCloses cl false) m 101 e
  | .connectRefused st w => .read .connect :: writeErrorResponse .connect .local st w
  | .connectDialFailure st w => .read .connect :: writeErrorResponse .connect .local st w
  | .connectResponseModifierError st w => .read .connect :: writeErrorResponse .connect .local st w
  | .connectRejected st w => .read .connect :: writeResponse .connect st w
  | .connectTunnel e => .read .connect :: tunnel .connect 200 e
  | .mitmResponseModifierError st w => .read .connect :: writeResponse .connect st w
  | .mitmWriteError => .read .connect :: writeResponse .connect 200 true
  | .mitmHandoff => .read .connect :: writeResponse .connect 200 false

/-- the request read on this path, if any -/
def Path.request : Path → Option Method
  | .readError => none
  | .shutdownAfterRead m | .refused m _ _ | .roundTripError m _ _
  | .transportConnectRejected m _ _ | .responseModifierError m _ _ | .response m _ _
  | .upgradeNonWritable m _ | .upgrade m _ _ => some m
  | _ => some .connect

/-- the status code of the response written (or attempted) to the client -/
def Path.clientStatus : Path → Nat
  | .readError | .shutdownAfterRead _ => 0
  | .refused _ st _ | .roundTripError _ st _ | .transportConnectRejected _ st _
  | .responseModifierError _ st _ | .response _ st _
  | .connectRefused st _ | .connectDialFailure st _ | .connectResponseModifierError st _
  | .connectRejected st _ | .mitmResponseModifierError st _ => st
  | .upgradeNonWritable _ _ => 502
  | .upgrade _ _ _ => 101
  | .connectTunnel _ | .mitmWriteError | .mitmHandoff => 200

/-- the guards of the code under which a path is taken: `handle` dispatches CONNECT away, 101 goes
    to `handleUpgradeResponse`, locally generated error responses are 4xx/5xx
    (http_proxy_errors.go), a CONNECT answer is passed on only when it is not 2xx, the
    transport reports a CONNECT answer as an error only when it is not 2xx -/
def Path.valid : Path → Bool
  | .readError => true
  | .shutdownAfterRead _ => true
  | .refused m st _ => m ≠ .connect && 400 ≤ st
  | .roundTripError m st _ => m ≠ .connect && 400 ≤ st
  | .transportConnectRejected m st _ => m ≠ .connect && st / 100 ≠ 2
  | .responseModifierError m st _ => m ≠ .connect && 400 ≤ st
  | .response m st _ => m ≠ .connect && st ≠ 101
  | .upgradeNonWritable m _ => m ≠ .connect
  | .upgrade m _ _ => m ≠ .connect
  | .connectRefused st _ => 400 ≤ st
  | .connectDialFailure st _ => 400 ≤ st
  | .connectResponseModifierError st _ => 400 ≤ st
  | .connectRejected st _ => st / 100 ≠ 2
  | .mitmResponseModifierError st _ => 400 ≤ st
  | .connectTunnel _ | .mitmWriteError | .mitmHandoff => true

/-- taken only while the proxy is shutting down (outside the property's quantifier) -/
def Path.shutdown : Path → Bool
  | .shutdownAfterRead _ => true
  | _ => false

/-- what the property asks of a path: one `read`, then exactly one `wrote` carrying the method
    of that request and the status written to the client; nothing when no request was read -/
def Path.expected (p : Path) : List Event :=
  match p.request with
  | none => []
  | some m => [.read m, .wrote m p.clientStatus]

/-- the paths the conservation theorems speak about: every path of the grammar outside shutdown
    (no defect class is excluded any more: F12 and F40 are repaired) -/
def Path.good (p : Path) : Bool := p.valid && !p.shutdown

/-- the events of a path under the rule of `write` before the repair of F52 (commit f5c8c33): only the
    upgrade path differs, and only when the request asked to close -/
def Path.eventsBeforeF52 : Path → List Event
  | .upgrade m cl e => .read m :: tunnelAfter (closesAfterHead .connectOnly cl false) m 101 e
  | p => p.events

/-- number of requests read on a list of paths -/
def numRequests (ps : List Path) : Nat := (ps.filter fun p => p.request.isSome).length

/-! ## Concurrency: order-preserving interleavings of the per-exchange traces -/

/-- `Interleaving ls tr`: `tr` is a merge of the lists `ls` that keeps each list's order
    (exchanges on different connections run concurrently; the scheduler picks who moves) -/
inductive Interleaving : List (List Event) → List Event → Prop
  | nil : Interleaving [] []
  | drop {ls tr} : Interleaving ls tr → Interleaving ([] :: ls) tr
  | step {l1 l2 e rest tr} :
      Interleaving (l1 ++ rest :: l2) tr → Interleaving (l1 ++ (e :: rest) :: l2) (e :: tr)

/-! ## The once-only close callback under concurrent `Close` calls -/

/-- program counter of one goroutine inside `closeListener.Close` -/
inductive Pc
  | start    -- before `c.close()`
  | closed   -- after `c.close()`, before `c.once.Do(c.onClose)`
  | done     -- returned
  deriving DecidableEq, Repr

/-- one tracked connection with `n` goroutines that each call `Close` once -/
structure CloseSt where
  n : Nat
  pcs : Nat → Pc
  fired : Bool       -- sync.Once's done flag
  callbacks : Nat    -- how often `onClose` ran
  closes : Nat       -- how often the underlying `close()` ran

def CloseSt.init (n : Nat) : CloseSt := ⟨n, fun _ => .start, false, 0, 0⟩

def setPc (f : Nat → Pc) (j : Nat) (v : Pc) : Nat → Pc := fun i => if i = j then v else f i

/-- does the step of goroutine `j` run the callback?  (`once = false` is the variant of the code
    without `sync.Once`, kept to show what the `once` is needed for) -/
def CloseSt.fires (once : Bool) (s : CloseSt) (j : Nat) : Bool :=
  decide (j < s.n) && decide (s.pcs j = .closed) && (!once || !s.fired)

/-- goroutine `j` takes its next step; `sync.Once.Do` is atomic with respect to other callers
    (mutex + done flag), so check-and-run is one step -/
def CloseSt.step (once : Bool) (s : CloseSt) (j : Nat) : CloseSt :=
  if j < s.n then
    match s.pcs j with
    | .start => { s with pcs := setPc s.pcs j .closed, closes := s.closes + 1 }
    | .closed =>
      if s.fires once j then
        { s with pcs := setPc s.pcs j .done, fired := true, callbacks := s.callbacks + 1 }
      else { s with pcs := setPc s.pcs j .done }
    | .done => s
  else s

/-- a schedule = which goroutine moves next -/
def CloseSt.run (once : Bool) (s : CloseSt) (sched : List Nat) : CloseSt :=
  sched.foldl (CloseSt.step once) s

def CloseSt.doneCount (s : CloseSt) : Nat :=
  ((List.range s.n).filter fun j => s.pcs j = .done).length

/-! ## The same machine over a wrapped `Close` that returns anything

`closeListener.Close` is `err := c.close(); c.once.Do(c.onClose); return err`: the result of the wrapped
`Close` is passed on and plays no part in the decision.  The machine below carries that result along
(what each goroutine's `c.close()` returned; `res k` = what the `k`-th call of the wrapped `Close`
returns — nil every time for a net.Pipe, net.ErrClosed from the first call on when the stack closed
the socket underneath the tracker, any error for a custom connection) so that the exactly-once
theorem can be stated for every such `res`, and so that the guard that looks at the result instead
of keeping a `sync.Once` can be shown to be wrong in both directions. -/

/-- what the wrapped connection's `Close` returned -/
inductive CloseResult
  | nil         -- closed by this call — or a connection whose `Close` returns nil every time (net.Pipe)
  | errClosed   -- net.ErrClosed: closed before, by an earlier call or by the stack underneath the tracker
  | other       -- any other error
  deriving DecidableEq, Repr, Inhabited

/-- how the callback is guarded -/
inductive Guard
  | once           -- the code: `c.once.Do(c.onClose)`
  | none           -- no guard: `c.onClose()`
  | notErrClosed   -- "only the call that really closed it reports": `if !errors.Is(err, net.ErrClosed) { c.onClose() }`
  deriving DecidableEq, Repr

/-- `CloseSt` plus what `c.close()` returned to each goroutine -/
structure RCloseSt where
  base : CloseSt
  got : Nat → CloseResult

def RCloseSt.init (n : Nat) : RCloseSt := ⟨CloseSt.init n, fun _ => .nil⟩

/-- does the step of goroutine `j` run the callback? -/
def RCloseSt.fires (g : Guard) (s : RCloseSt) (j : Nat) : Bool :=
  decide (j < s.base.n) && decide (s.base.pcs j = .closed) &&
    (match g with
     | .once => !s.base.fired
     | .none => true
     | .notErrClosed => decide (s.got j ≠ .errClosed))

/-- goroutine `j` takes its next step; its `c.close()` is the `s.base.closes`-th call of the wrapped
    `Close` and returns `res s.base.closes` -/
def RCloseSt.step (g : Guard) (res : Nat → CloseResult) (s : RCloseSt) (j : Nat) : RCloseSt :=
  if j < s.base.n then
    match s.base.pcs j with
    | .start =>
      { base := { s.base with pcs := setPc s.base.pcs j .closed, closes := s.base.closes + 1 }
        got := fun i => if i = j then res s.base.closes else s.got i }
    | .closed =>
      if s.fires g j then
        { s with base := { s.base with pcs := setPc s.base.pcs j .done, fired := true,
                                       callbacks := s.base.callbacks + 1 } }
      else { s with base := { s.base with pcs := setPc s.base.pcs j .done } }
    | .done => s
  else s

def RCloseSt.run (g : Guard) (res : Nat → CloseResult) (s : RCloseSt) (sched : List Nat) : RCloseSt :=
  sched.foldl (RCloseSt.step g res) s

/-- a result script: the listed results in call order, `dflt` for every later call -/
def resOf (l : List CloseResult) (dflt : CloseResult) : Nat → CloseResult := fun k => l.getD k dflt

/-! ## Listener / dialer accounting on top of it -/

/-- `forwarder.Listener` (and, per host label, `forwarder.Dialer`) -/
structure LSt where
  accepted : Nat          -- listener_cx_total   / dialer_cx_total{host}
  errors : Nat            -- listener_errors_total / dialer_errors_total{host}
  active : Int            -- listener_cx_active  / dialer_cx_active{host}
  conns : List CloseSt    -- in accept order

def LSt.init : LSt := ⟨0, 0, 0, []⟩

inductive LOp
  | accept (callers : Nat)   -- Accept/Dial succeeded; `callers` goroutines will close the connection
  | acceptError              -- Accept/Dial failed: only the error counter moves
  | close (i j : Nat)        -- goroutine `j` of connection `i` takes its next step in `Close`
  deriving DecidableEq, Repr

/-- apply `f` at index `i` -/
def modifyAt (f : CloseSt → CloseSt) : List CloseSt → Nat → List CloseSt
  | [], _ => []
  | c :: cs, 0 => f c :: cs
  | c :: cs, i + 1 => c :: modifyAt f cs i

def LSt.step (once : Bool) (s : LSt) : LOp → LSt
  | .accept n =>
    { s with accepted := s.accepted + 1, active := s.active + 1, conns := s.conns ++ [CloseSt.init n] }
  | .acceptError => { s with errors := s.errors + 1 }
  | .close i j =>
    match s.conns[i]? with
    | none => s
    | some c =>
      { s with conns := modifyAt (fun c => c.step once j) s.conns i
               active := if c.fires once j then s.active - 1 else s.active }

def LSt.run (once : Bool) (s : LSt) (ops : List LOp) : LSt := ops.foldl (LSt.step once) s

/-- connections whose callback has run -/
def LSt.closedCount (s : LSt) : Nat := (s.conns.map fun c => c.callbacks).sum

/-- every connection has been closed by someone -/
def LSt.allGone (s : LSt) : Bool := s.conns.all fun c => decide (0 < c.doneCount)

/-! ## Listener / dialer accounting over connections of any kind -/

/-- a tracked connection of any kind: the close machine and the result script of its wrapped `Close` -/
structure RConn where
  st : RCloseSt
  res : Nat → CloseResult

structure RLSt where
  accepted : Nat
  errors : Nat
  active : Int
  conns : List RConn

def RLSt.init : RLSt := ⟨0, 0, 0, []⟩

inductive ROp
  | accept (callers : Nat) (res : Nat → CloseResult)   -- Accept/Dial/Build succeeded on a connection whose `Close` behaves like `res`
  | acceptError
  | close (i j : Nat)

def rmodifyAt (f : RConn → RConn) : List RConn → Nat → List RConn
  | [], _ => []
  | c :: cs, 0 => f c :: cs
  | c :: cs, i + 1 => c :: rmodifyAt f cs i

def RLSt.step (g : Guard) (s : RLSt) : ROp → RLSt
  | .accept n res =>
    { s with accepted := s.accepted + 1, active := s.active + 1, conns := s.conns ++ [⟨RCloseSt.init n, res⟩] }
  | .acceptError => { s with errors := s.errors + 1 }
  | .close i j =>
    match s.conns[i]? with
    | none => s
    | some c =>
      { s with conns := rmodifyAt (fun c => { c with st := c.st.step g c.res j }) s.conns i
               active := if c.st.fires g j then s.active - 1 else s.active }

def RLSt.run (g : Guard) (s : RLSt) (ops : List ROp) : RLSt := ops.foldl (RLSt.step g) s

def RLSt.closedCount (s : RLSt) : Nat := (s.conns.map fun c => c.st.base.callbacks).sum

def RLSt.allGone (s : RLSt) : Bool := s.conns.all fun c => decide (0 < c.st.base.doneCount)

/-- forgetting the results -/
def ROp.proj : ROp → LOp
  | .accept n _ => .accept n
  | .acceptError => .acceptError
  | .close i j => .close i j

def RLSt.proj (s : RLSt) : LSt := ⟨s.accepted, s.errors, s.active, s.conns.map fun c => c.st.base⟩

/-! ## Byte counters of a tracked connection -/

/-- which wrapped call -/
inductive IoKind
  | read | write | readFrom
  deriving DecidableEq, Repr

/-- one call on the tracked connection.  `read n`/`write n`/`readFrom n` are calls that moved `n` bytes;
    `io k requested done err` is the general form: the caller asked for `requested` bytes (`len(p)`, or
    what the source of `ReadFrom` holds), the wrapped connection reported `done` bytes moved and
    `err` = it also returned an error (deadline exceeded against a peer that does not read, a reset in
    the middle of a large write, EOF together with the last bytes, …) -/
inductive IoOp
  | read (n : Nat) | write (n : Nat) | readFrom (n : Nat)
  | io (k : IoKind) (requested done : Nat) (err : Bool)
  deriving DecidableEq, Repr

structure Observer where
  rx : Nat
  tx : Nat
  deriving DecidableEq, Repr

/-- `n, err = c.Conn.X(…); c.o.addRx/addTx(n); return` — the count is added before looking at `err` -/
def Observer.apply (o : Observer) : IoOp → Observer
  | .read n => { o with rx := o.rx + n }
  | .write n => { o with tx := o.tx + n }
  | .readFrom n => { o with tx := o.tx + n }
  | .io .read _ done _ => { o with rx := o.rx + done }
  | .io .write _ done _ => { o with tx := o.tx + done }
  | .io .readFrom _ done _ => { o with tx := o.tx + done }

def Observer.run (o : Observer) (ops : List IoOp) : Observer := ops.foldl Observer.apply o

/-- the variant that returns early on error and credits a successful `Write` with `len(p)` — kept to
    show what counting `n` before looking at `err` is needed for -/
def Observer.applyOkOnly (o : Observer) : IoOp → Observer
  | .io .read _ done _ => { o with rx := o.rx + done }
  | .io .write requested _ err => if err then o else { o with tx := o.tx + requested }
  | .io .readFrom _ done err => if err then o else { o with tx := o.tx + done }
  | op => o.apply op

def Observer.runOkOnly (o : Observer) (ops : List IoOp) : Observer := ops.foldl Observer.applyOkOnly o

/-- bytes the wrapped connection reported as received -/
def bytesIn (ops : List IoOp) : Nat :=
  (ops.map fun | .read n => n | .io .read _ d _ => d | _ => 0).sum

/-- bytes the wrapped connection reported as sent -/
def bytesOut (ops : List IoOp) : Nat :=
  (ops.map fun | .write n => n | .readFrom n => n | .io .write _ d _ => d | .io .readFrom _ d _ => d | _ => 0).sum

/-! ## Decidable forms used by the driver (`holds`) -/

/-- conservation at a quiescent point, evaluated on counters read from the implementation:
    every in-flight series is 0 and the counter family sums to the number of requests -/
def holdsQuiescent (requests : Nat) (inflight : List (Method × Int)) (total : List ((Nat × Method) × Nat)) : Bool :=
  inflight.all (fun e => e.2 == 0) && (total.map (·.2)).sum == requests

/-- connection accounting at a quiescent point -/
def holdsConns (accepted closedOnce : Nat) (active : Int) : Bool :=
  active == (accepted : Int) - (closedOnce : Int) && 0 ≤ active

/-- the close clause on what the implementation did: `callbacks` runs of the callback after `returned`
    `Close` calls have returned -/
def holdsClose (callbacks returned : Nat) : Bool :=
  callbacks == (if 0 < returned then 1 else 0)

/-- the byte clause: the observer against the bytes the wrapped connection moved -/
def holdsBytes (rx tx movedIn movedOut : Nat) : Bool := rx == movedIn && tx == movedOut

/-! ## Dialled connections on the CONNECT path

    internal/martian/proxy_connect.go  Connect, connect, connectHTTP, connectSOCKS5 (terminate-TLS in Connect)
    dialvia/http.go                    HTTPProxyDialer.DialContextR (http and https upstream proxies)
    dialvia/socks5.go                  SOCKS5ProxyDialer.DialContext (x/net/proxy: closes the connection itself
                                       when the negotiation fails)
    proxy_conn.go / proxy_handler.go   handleConnectRequest: `res, crw, cerr := p.Connect(…)`,
                                       `if crw != nil { defer crw.Close() }` BEFORE `if cerr != nil { return … }`
    copy.go                            bicopy: gracefulCloseAfter closes both ends once more after the grace period

  Every dial that returns a connection is an `opened` event (net.go Dialer.DialContext: dialed++, active++);
  it must be matched by a `Close` of the tracked connection on EVERY way out of `handleConnectRequest`.
  Who owns the connection changes hands: the dialvia dialers close it themselves on every failure and hand
  out nothing; `Connect` hands the connection out — also TOGETHER WITH an error (terminate-TLS handshake
  failure; a `ConnectFunc` that returns both) — and from then on the caller's deferred `Close` is the only one. -/

/-- what the dialer's metrics see of one CONNECT exchange -/
inductive DEv
  | dialError   -- Dialer.DialContext failed: errors++
  | opened      -- Dialer.DialContext returned a tracked connection: dialed++, active++
  | close       -- one call of the tracked connection's `Close`
  deriving DecidableEq, Repr

/-- how `DialContextR` goes on once the dial to the upstream HTTP(S) proxy returned a connection -/
inductive ViaEnd
  | tlsFails       -- https upstream: the handshake (run by the first write) fails → `conn.Close()`
  | headerError    -- `GetProxyConnectHeader` returns an error → `conn.Close()`
  | writeError     -- writing / flushing the CONNECT head fails → `conn.Close()`
  | ctxDone        -- context cancelled or `ConnectTimeout` before the reply → `conn.Close()`
  | replyError     -- reply torn, malformed, EOF → `conn.Close()`
  | reply (status : Nat)   -- a reply was read: `return res, conn, nil` whatever the status
  deriving DecidableEq, Repr

/-- SOCKS5: the negotiation after the dial -/
inductive SocksEnd
  | negotiationFails   -- method refused, request refused, reply torn / timed out: x/net closes the connection
  | established
  deriving DecidableEq, Repr

/-- `Proxy.connect`: which way the target is reached -/
inductive Route
  | proxyURLError       -- `p.ProxyURL(req)` failed: nothing dialled
  | unsupportedScheme   -- nothing dialled
  | direct (dialOk : Bool)
  | viaHTTP (tls dialOk : Bool) (e : ViaEnd)
  | viaSOCKS5 (dialOk : Bool) (e : SocksEnd)
  deriving DecidableEq, Repr

/-- `(res, crw, cerr)` as far as clean-up is concerned: `res` = status of a non-nil response -/
structure ConnectResult where
  res : Option Nat
  conn : Bool
  err : Bool
  deriving DecidableEq, Repr

def ConnectResult.failed : ConnectResult := ⟨none, false, true⟩

/-- `Proxy.connect(req)` with what the dialer saw -/
def connect : Route → ConnectResult × List DEv
  | .proxyURLError => (.failed, [])
  | .unsupportedScheme => (.failed, [])
  | .direct true => (⟨some 200, true, false⟩, [.opened])
  | .direct false => (.failed, [.dialError])
  | .viaHTTP _ false _ => (.failed, [.dialError])
  | .viaHTTP _ true (.reply st) =>
    -- connectHTTP: 2xx → newConnectResponse(req); otherwise the proxy's answer is passed on; the
    -- connection is handed out in both cases
    (⟨some (if st / 100 = 2 then 200 else st), true, false⟩, [.opened])
  | .viaHTTP _ true _ => (.failed, [.opened, .close])
  | .viaSOCKS5 false _ => (.failed, [.dialError])
  | .viaSOCKS5 true .negotiationFails => (.failed, [.opened, .close])
  | .viaSOCKS5 true .established => (⟨some 200, true, false⟩, [.opened])

/-- `p.ConnectFunc` -/
inductive ConnectFn
  | unset
  | fallback                        -- returned ErrConnectFallback (and nothing else)
  | result (r : ConnectResult)      -- returned this; a connection it returns was dialled (and is tracked)
  deriving DecidableEq, Repr

/-- `Proxy.Connect(ctx, req, terminateTLS)`: `handshakeOk` = the TLS handshake with the target succeeds.
    A failed handshake sets `cerr` and LEAVES `crw` = the dialled connection. -/
def proxyConnect (cf : ConnectFn) (route : Route) (terminateTLS handshakeOk : Bool) :
    ConnectResult × List DEv :=
  match cf with
  | .result r => (r, if r.conn then [.opened] else [])
  | _ =>
    let c := connect route
    if c.1.conn && terminateTLS && !handshakeOk then ({ c.1 with err := true }, c.2) else c

/-- where `handleConnectRequest` registers the deferred `crw.Close()` -/
inductive DeferOrder
  | beforeErrorCheck   -- the code
  | afterErrorCheck    -- "check the error, then defer Close"
  deriving DecidableEq, Repr

/-- how `handleConnectRequest` goes on when `Connect` returned no error -/
inductive AfterConnect
  | modifyResponseError (w : Bool)            -- `modifyResponse(res)` failed → writeErrorResponse
  | passedOn (w : Bool)                       -- non-2xx answer of the upstream proxy → writeResponse(res)
  | tunnel (e : TunnelEnd) (forced : Bool)    -- `forced`: one side stayed open for the grace period, bicopy closed both
  deriving DecidableEq, Repr

/-- `Close` calls on `crw` made by the code that runs after `Connect` returned without error, besides the deferred one -/
def AfterConnect.extraCloses : AfterConnect → Nat
  | .tunnel .closed true => 1
  | _ => 0

/-- `Close` calls `handleConnectRequest` (and what it calls) makes on the connection `Connect` handed out -/
def callerCloses (o : DeferOrder) (r : ConnectResult) (a : AfterConnect) : Nat :=
  if !r.conn then 0
  else if r.err then
    match o with
    | .beforeErrorCheck => 1    -- the defer is already registered when the error is looked at
    | .afterErrorCheck => 0     -- returned before the defer
  else 1 + a.extraCloses

/-- one way through `handleConnectRequest` from `p.Connect` on -/
structure ConnectExit where
  cf : ConnectFn
  route : Route
  terminateTLS : Bool
  handshakeOk : Bool
  after : AfterConnect
  deriving DecidableEq, Repr

def ConnectExit.result (x : ConnectExit) : ConnectResult :=
  (proxyConnect x.cf x.route x.terminateTLS x.handshakeOk).1

/-- what the dialer sees of the exchange, in order -/
def ConnectExit.devents (o : DeferOrder) (x : ConnectExit) : List DEv :=
  (proxyConnect x.cf x.route x.terminateTLS x.handshakeOk).2 ++
    List.replicate (callerCloses o x.result x.after) .close

def closesOf (evs : List DEv) : Nat := evs.count .close

/-- the same exchange as operations of the listener/dialer machine above, its connection (if one was
    dialled) being the `i`-th: the dial, then every `Close` call as one goroutine taking both its steps -/
def dialOps (i : Nat) (evs : List DEv) : List LOp :=
  (if DEv.dialError ∈ evs then [LOp.acceptError] else []) ++
  (if DEv.opened ∈ evs then
    LOp.accept (closesOf evs) :: (List.range (closesOf evs)).flatMap fun j => [LOp.close i j, LOp.close i j]
   else [])

/-- every closer of every connection has returned -/
def LSt.allFinished (s : LSt) : Bool := s.conns.all fun c => decide (c.doneCount = c.n)

end C13
end FwdVerif
