/-
  GENERATED — do not edit.  Written by harness/srcgen (the Prepare step of every `bin/check`
  of the property) from ratelimit/ratelimit.go of $VERIF_REPO.  Core-only.
-/
namespace FwdVerif
namespace C20Gen

def defaultMaxBurstSize : Int := 4194304

/-- `newRateLimiter(bandwidth)`: the arguments of `rate.NewLimiter` (rate in bytes/s, burst) -/
def newRateLimiter (bandwidth : Int) : Int × Int :=
  let maxBurstSize : Int := (Int.tdiv bandwidth 64)
  let c1 : Bool := decide (maxBurstSize < defaultMaxBurstSize)
  let maxBurstSize : Int := if c1 then defaultMaxBurstSize else maxBurstSize
  (bandwidth, maxBurstSize)

end C20Gen
end FwdVerif
