/-
  C19 — configured secrets never appear in diagnostics.

  Model of the redaction path of `/repo`:

    bind/redact.go      RedactUserinfo, RedactURL (= url.URL.Redacted), RedactBase64
    host.go             ParseHostPortUser, RedactHostPortUser
    config.go           ParseUserinfo, ParseProxyURL
    bind/flag.go        flag ↦ (parser, redactor)           (`flagKind`; presence of the redactor is
                                                              re-extracted from the source on every run,
                                                              see Model/C19FlagTable.lean)
    anyflag             Value.String / SliceValue.String / GetSlice
    utils/cobrautil     DescribeFlags, formats OneLine and Plain
    http_proxy.go       upstreamProxyURL + the "using upstream proxy" line (`url.Redacted()`)
    pflag / utils/cobrautil/bind.go   "invalid argument %q for %q flag: " for a rejected flag value
    pac/proxy.go, credentials.go, http_proxy.go   Proxies.First / parseProxy, CredentialsMatcher.Match,
                        pacProxy: the proxy a PAC result selects, the credentials merged into it, its errors
    tls.go              redactDataURI; loadRootCAs: `append certificate %q` of the redacted entry
                        (wrapped as `load CAs: …`)
    http_proxy.go, http_server.go   configureHTTPS/configureHTTP2: the debug line
                        "loading TLS certificate" cert=… key=… (both through redactDataURI)

  A flag value is modelled from the *raw string* the user supplies (command line, FORWARDER_*
  variable, config file entry) to the text that `DescribeFlags` prints for it: `describeValue`
  = redactor ∘ parser.  Slice flags are modelled after the CSV split of `SliceValue.Set`.

  Domain notes (the model is exact on this domain, the harness generates inside it):
  * hosts are `*` or strings over `[A-Za-z0-9.-]` (no bracketed IPv6 literals), ports decimal;
    `isDomainName`'s label rules are not modelled;
  * `url.URL.String` is modelled for the shape `ParseProxyURL` returns (scheme, optional userinfo,
    host:port, nothing else); the host needs no escaping on the domain above.
  Core-only.
-/
import FwdVerif.Lib.Ascii

namespace FwdVerif
namespace C19

open Ascii

/-- ASCII literal → bytes (reduces in the kernel, unlike `String.toUTF8`) -/
def ascii (s : String) : Bytes := s.toList.map fun c => UInt8.ofNat c.toNat

/-- the fixed placeholder `xxxxx` -/
def placeholder : Bytes := [120, 120, 120, 120, 120]
/-- `data:` -/
def dataPrefix : Bytes := [100, 97, 116, 97, 58]
/-- readurl.go `IsDataURI` (F54): the value is an inline value when its first five bytes spell `data:` in
    ANY case - `strings.EqualFold(s[:5], "data:")`; URI schemes are case-insensitive (RFC 3986 3.1).
    Before the repair the test was `strings.HasPrefix(s, "data:")` (`dataPrefix.isPrefixOf s`) and a
    value written `DATA:…` was taken for a file name. -/
def isDataURI (s : Bytes) : Bool := (s.take 5).map toLower == dataPrefix
/-- `://` -/
def schemeSep : Bytes := [58, 47, 47]

def cColon : UInt8 := 58
def cAt : UInt8 := 64
def cStar : UInt8 := 42

/-! ### string helpers (Go `strings`) -/

/-- `strings.Cut(s, string(c))` -/
def cutByte (c : UInt8) : Bytes → Option (Bytes × Bytes)
  | [] => none
  | x :: xs => if x = c then some ([], xs) else (cutByte c xs).map fun p => (x :: p.1, p.2)

/-- split at the *last* occurrence of `c` (`strings.LastIndex`) -/
def cutLastByte (c : UInt8) : Bytes → Option (Bytes × Bytes)
  | [] => none
  | x :: xs =>
    match cutLastByte c xs with
    | some (a, r) => some (x :: a, r)
    | none => if x = c then some ([], xs) else none

/-- `strings.Cut(s, pat)` for a non-empty pattern -/
def cutSub (pat : Bytes) : Bytes → Option (Bytes × Bytes)
  | [] => none
  | x :: xs =>
    if pat.isPrefixOf (x :: xs) then some ([], (x :: xs).drop pat.length)
    else (cutSub pat xs).map fun p => (x :: p.1, p.2)

def countByte (c : UInt8) : Bytes → Nat
  | [] => 0
  | x :: xs => (if x = c then 1 else 0) + countByte c xs

/-- all-or-nothing map (a parse error of one value fails the flag) -/
def mapOpt {α β : Type} (f : α → Option β) : List α → Option (List β)
  | [] => some []
  | a :: r =>
    match f a, mapOpt f r with
    | some b, some bs => some (b :: bs)
    | _, _ => none

/-! ### `url.Userinfo`, `ParseUserinfo`, `RedactUserinfo` -/

/-- `*url.Userinfo`: `pass = none` ⇔ no password set -/
structure Userinfo where
  user : Bytes
  pass : Option Bytes
  deriving DecidableEq, Repr

/-- config.go `ParseUserinfo` (+ `validatedUserInfo`) -/
def parseUserinfo (val : Bytes) : Option Userinfo :=
  if val = [] then none else
  let ui : Userinfo := match cutByte cColon val with
    | some (u, p) => ⟨u, some p⟩
    | none => ⟨val, none⟩
  if ui.user = [] then none else some ui

/-- bind/redact.go `RedactUserinfo` (argument `none` = nil pointer) -/
def redactUserinfo : Option Userinfo → Bytes
  | none => []
  | some ui =>
    match ui.pass with
    | some _ => ui.user ++ cColon :: placeholder
    | none => ui.user

/-! ### `net/url` escaping in `encodeUserPassword` mode -/

def hexUpper (n : Nat) : UInt8 := if n < 10 then UInt8.ofNat (48 + n) else UInt8.ofNat (55 + n)

def pctEncode (c : UInt8) : Bytes := [37, hexUpper (c.toNat / 16), hexUpper (c.toNat % 16)]

/-- `shouldEscape(c, encodeUserPassword)` -/
def shouldEscapeUser (c : UInt8) : Bool :=
  if isAlpha c || isDigit c then false
  else if c == 45 || c == 95 || c == 46 || c == 126 then false            -- - _ . ~
  else if c == 36 || c == 38 || c == 43 || c == 44 || c == 59 || c == 61 then false  -- $ & + , ; =
  else true                                                                -- incl. / : ? @ % space

/-- `escape(s, encodeUserPassword)` -/
def escapeUser (s : Bytes) : Bytes :=
  s.flatMap fun c => if shouldEscapeUser c then pctEncode c else [c]

/-! ### `ParseProxyURL`, `RedactURL` -/

/-- the `*url.URL` that `ParseProxyURL` builds: Scheme, User, Host (= host:port) -/
structure ProxyURL where
  scheme : Bytes
  user : Option Userinfo
  host : Bytes
  deriving DecidableEq, Repr

def schemeHttp : Bytes := [104, 116, 116, 112]
def schemeHttps : Bytes := [104, 116, 116, 112, 115]
def schemeSocks5 : Bytes := [115, 111, 99, 107, 115, 53]

def schemeOK (s : Bytes) : Bool := s == schemeHttp || s == schemeHttps || s == schemeSocks5

def isHostByte (c : UInt8) : Bool := isAlpha c || isDigit c || c == 46 || c == 45

def hostNameOK (h : Bytes) : Bool := !h.isEmpty && h.all isHostByte

def decVal (s : Bytes) : Nat := s.foldl (fun n c => n * 10 + (c.toNat - 48)) 0

/-- decimal digits that `strconv.ParseUint(p, 10, 16)` accepts -/
def portDigitsOK (p : Bytes) : Bool := !p.isEmpty && p.all isDigit && p.length ≤ 8 && decVal p ≤ 65535

/-- the host checks of `validateProxyURL` on the modelled domain: `name:port`, port in 1..65535 -/
def proxyHostOK (hp : Bytes) : Bool :=
  match cutLastByte cColon hp with
  | none => false
  | some (h, p) => hostNameOK h && portDigitsOK p && decVal p != 0

/-- config.go `ParseProxyURL` -/
def parseProxyURL (val : Bytes) : Option ProxyURL :=
  let sh : Bytes × Bytes := match cutSub schemeSep val with
    | some (s, r) => (s, r)
    | none => (schemeHttp, val)
  let scheme := sh.1
  let hpu := sh.2
  if countByte cAt hpu > 1 then none else          -- Index("@") != LastIndex("@")
  let parts : Option (Option Userinfo × Bytes) := match cutByte cAt hpu with
    | some (up, hp) => (parseUserinfo up).map fun ui => (some ui, hp)
    | none => some (none, hpu)
  match parts with
  | none => none
  | some (ui, hp) => if schemeOK scheme && proxyHostOK hp then some ⟨scheme, ui, hp⟩ else none

/-- `url.Userinfo.String` with the password already replaced by the placeholder -/
def userinfoRedacted (ui : Userinfo) : Bytes :=
  match ui.pass with
  | some _ => escapeUser ui.user ++ cColon :: placeholder
  | none => escapeUser ui.user

/-- bind/redact.go `RedactURL` = `(*url.URL).Redacted` (`none` = nil pointer) -/
def redactURL : Option ProxyURL → Bytes
  | none => []
  | some u =>
    u.scheme ++ schemeSep ++
      (match u.user with
       | some ui => userinfoRedacted ui ++ [cAt]
       | none => []) ++ u.host

/-! ### `ParseHostPortUser`, `RedactHostPortUser` -/

structure HostPortUser where
  host : Bytes
  port : Bytes
  ui : Userinfo
  deriving DecidableEq, Repr

/-- `HostPort.Validate` on the modelled domain -/
def credHostOK (h : Bytes) : Bool := h == [cStar] || hostNameOK h

/-- `host:port` after the last `@`: `wildcardPortTo0`, `url.Parse`, `Hostname`/`Port`, `Validate` -/
def parseHostPort (hp : Bytes) : Option (Bytes × Bytes) :=
  match cutLastByte cColon hp with
  | none => none
  | some (h, p) =>
    let p := if p = [cStar] then [48] else p
    if credHostOK h && portDigitsOK p then some (h, p) else none

/-- host.go `ParseHostPortUser` -/
def parseHostPortUser (val : Bytes) : Option HostPortUser :=
  match cutLastByte cAt val with
  | none => none
  | some (up, hp) =>
    match parseUserinfo up, parseHostPort hp with
    | some ui, some (h, p) => some ⟨h, p, ui⟩
    | _, _ => none

def showPort (p : Bytes) : Bytes := if p = [48] then [cStar] else p

/-- host.go `RedactHostPortUser` -/
def redactHostPortUser (c : HostPortUser) : Bytes :=
  match c.ui.pass with
  | some _ => c.ui.user ++ cColon :: placeholder ++ cAt :: c.host ++ cColon :: showPort c.port
  | none => c.ui.user ++ cAt :: c.host ++ cColon :: showPort c.port

/-! ### `RedactBase64` -/

/-- bind/redact.go `RedactBase64` -/
def redactBase64 (s : Bytes) : Bytes :=
  if isDataURI s then dataPrefix ++ placeholder else s

/-! ### the flag table and `DescribeFlags` -/

/-- (parser, redactor) pairs of the secret-bearing flags -/
inductive Kind where
  | userinfo        -- ParseUserinfo      / RedactUserinfo
  | proxyURL        -- ParseProxyURL      / RedactURL
  | hostPortUser    -- ParseHostPortUser  / RedactHostPortUser
  | file            -- identity           / RedactBase64
  deriving DecidableEq, Repr

/-- bind/flag.go: flag ↦ (kind, slice?) for the flags whose values can carry a secret -/
def flagKind : String → Option (Kind × Bool)
  | "basic-auth" => some (.userinfo, false)
  | "api-basic-auth" => some (.userinfo, false)
  | "proxy" => some (.proxyURL, false)
  | "credentials" => some (.hostPortUser, true)
  | "tls-cert-file" => some (.file, false)
  | "tls-key-file" => some (.file, false)
  | "mitm-cacert-file" => some (.file, false)
  | "mitm-cakey-file" => some (.file, false)
  | "cacert-file" => some (.file, true)
  | _ => none

/-- what `Value.String()` prints for a raw flag value: redactor (parser raw); `none` = parse error -/
def describeValue : Kind → Bytes → Option Bytes
  | .userinfo, raw => (parseUserinfo raw).map fun ui => redactUserinfo (some ui)
  | .proxyURL, raw => (parseProxyURL raw).map fun u => redactURL (some u)
  | .hostPortUser, raw => (parseHostPortUser raw).map redactHostPortUser
  | .file, raw => some (redactBase64 raw)

/-- rendering of a flag that was never set (zero value through the redactor) -/
def describeUnset : Kind → Bytes
  | .userinfo => redactUserinfo none
  | .proxyURL => redactURL none
  | .hostPortUser => []
  | .file => redactBase64 []

inductive Format where
  | oneLine | plain
  deriving DecidableEq, Repr

def joinWith (sep : Bytes) : List Bytes → Bytes
  | [] => []
  | [x] => x
  | x :: y :: r => x ++ sep ++ joinWith sep (y :: r)

/-- `DescribeFlagsToMap` for one flag: scalar flags print `String()`; slice flags print
    `strings.Join(GetSlice(), ",")` in Plain and `fmt.Sprintf("%s", []string)` = `[a b]` in OneLine -/
def renderValues (fmt : Format) (slice : Bool) (k : Kind) (vs : List Bytes) : Bytes :=
  if slice then
    match fmt with
    | .plain => joinWith [44] vs
    | .oneLine => 91 :: joinWith [32] vs ++ [93]
  else
    match vs.getLast? with
    | some v => v
    | none => describeUnset k

/-- a flag together with the raw values it was given (after the CSV split for slice flags) -/
structure Setting where
  name : String
  kind : Kind
  slice : Bool
  raws : List Bytes
  deriving Repr

def describeFlag (fmt : Format) (s : Setting) : Option Bytes :=
  (mapOpt (describeValue s.kind) s.raws).map fun vs =>
    ascii s.name ++ 61 :: renderValues fmt s.slice s.kind vs

/-- `DescribeFlags`: the caller lists the flags in key order (`sort.Strings`).
    Plain: `name=value\n` per flag; OneLine: `name=value` joined by `, `. -/
def describeFlags (fmt : Format) (ss : List Setting) : Option Bytes :=
  (mapOpt (describeFlag fmt) ss).map fun ls =>
    match fmt with
    | .plain => (ls.map (· ++ [10])).flatten
    | .oneLine => joinWith [44, 32] ls

/-! ### configurations: public part, secrets, and the raw flag strings they induce -/

structure UserPub where
  user : Bytes
  hasPass : Bool
  deriving DecidableEq, Repr

def UserPub.raw (u : UserPub) (pw : Bytes) : Bytes :=
  if u.hasPass then u.user ++ cColon :: pw else u.user

/-- printed form of a user with the placeholder (no escaping) -/
def UserPub.shown (u : UserPub) : Bytes :=
  if u.hasPass then u.user ++ cColon :: placeholder else u.user

/-- `ParseUserinfo` takes everything before the first colon as the user name -/
def UserPub.ok (u : UserPub) : Prop := u.user ≠ [] ∧ cColon ∉ u.user

structure ProxyPub where
  scheme : Bytes
  user : Option UserPub
  hostport : Bytes
  deriving DecidableEq, Repr

def ProxyPub.raw (p : ProxyPub) (pw : Bytes) : Bytes :=
  p.scheme ++ schemeSep ++
    (match p.user with
     | some u => u.raw pw ++ [cAt]
     | none => []) ++ p.hostport

def ProxyPub.shown (p : ProxyPub) : Bytes :=
  p.scheme ++ schemeSep ++
    (match p.user with
     | some u => (if u.hasPass then escapeUser u.user ++ cColon :: placeholder else escapeUser u.user) ++ [cAt]
     | none => []) ++ p.hostport

def ProxyPub.ok (p : ProxyPub) : Prop :=
  schemeOK p.scheme = true ∧ proxyHostOK p.hostport = true ∧ cAt ∉ p.hostport ∧
  ∀ u, p.user = some u → u.ok ∧ cAt ∉ u.user

structure CredPub where
  user : UserPub
  host : Bytes
  port : Bytes          -- as written: digits or `*`
  deriving DecidableEq, Repr

def CredPub.raw (c : CredPub) (pw : Bytes) : Bytes :=
  c.user.raw pw ++ cAt :: c.host ++ cColon :: c.port

def CredPub.shown (c : CredPub) : Bytes :=
  c.user.shown ++ cAt :: c.host ++ cColon :: showPort (if c.port = [cStar] then [48] else c.port)

def CredPub.ok (c : CredPub) : Prop :=
  c.user.ok ∧ credHostOK c.host = true ∧ cAt ∉ c.host ∧ cColon ∉ c.port ∧ cAt ∉ c.port ∧
  (c.port = [cStar] ∨ portDigitsOK c.port = true)

/-- a file-valued flag: a path (public) or an inline `data:` URI whose payload is the secret -/
inductive FilePub where
  | path (p : Bytes)
  | data
  deriving DecidableEq, Repr

def FilePub.raw : FilePub → Bytes → Bytes
  | .path p, _ => p
  | .data, payload => dataPrefix ++ payload

def FilePub.shown : FilePub → Bytes
  | .path p => p
  | .data => dataPrefix ++ placeholder

def FilePub.ok : FilePub → Prop
  | .path p => isDataURI p = false
  | .data => True

/-- the non-secret part of a configuration -/
structure ConfigPub where
  basicAuth : Option UserPub
  apiBasicAuth : Option UserPub
  proxy : Option ProxyPub
  credentials : List CredPub
  tlsCert : Option FilePub
  tlsKey : Option FilePub
  mitmCert : Option FilePub
  mitmKey : Option FilePub
  cacerts : List FilePub
  deriving Repr

/-- the secret part: passwords and `data:` payloads (lists are indexed like the public lists) -/
structure Secrets where
  basicAuth : Bytes
  apiBasicAuth : Bytes
  proxy : Bytes
  credentials : Nat → Bytes
  tlsCert : Bytes
  tlsKey : Bytes
  mitmCert : Bytes
  mitmKey : Bytes
  cacerts : Nat → Bytes

structure Config where
  pub : ConfigPub
  sec : Secrets

def ConfigPub.ok (p : ConfigPub) : Prop :=
  (∀ u, p.basicAuth = some u → u.ok) ∧ (∀ u, p.apiBasicAuth = some u → u.ok) ∧
  (∀ x, p.proxy = some x → x.ok) ∧ (∀ c ∈ p.credentials, c.ok) ∧
  (∀ f, p.tlsCert = some f → f.ok) ∧ (∀ f, p.tlsKey = some f → f.ok) ∧
  (∀ f, p.mitmCert = some f → f.ok) ∧ (∀ f, p.mitmKey = some f → f.ok) ∧
  (∀ f ∈ p.cacerts, f.ok)

/-- `ParseProxyURL` rejects a second `@`, so a proxy password cannot contain one -/
def Secrets.ok (s : Secrets) : Prop := cAt ∉ s.proxy

def optRaw {α : Type} (f : α → Bytes → Bytes) (x : Option α) (s : Bytes) : List Bytes :=
  match x with
  | some a => [f a s]
  | none => []

def rawsFrom {α : Type} (f : α → Bytes → Bytes) : List α → Nat → (Nat → Bytes) → List Bytes
  | [], _, _ => []
  | a :: r, i, s => f a (s i) :: rawsFrom f r (i + 1) s

/-- the raw flag strings a configuration consists of, in key order -/
def settings (c : Config) : List Setting :=
  [ ⟨"api-basic-auth", .userinfo, false, optRaw UserPub.raw c.pub.apiBasicAuth c.sec.apiBasicAuth⟩,
    ⟨"basic-auth", .userinfo, false, optRaw UserPub.raw c.pub.basicAuth c.sec.basicAuth⟩,
    ⟨"cacert-file", .file, true, rawsFrom FilePub.raw c.pub.cacerts 0 c.sec.cacerts⟩,
    ⟨"credentials", .hostPortUser, true, rawsFrom CredPub.raw c.pub.credentials 0 c.sec.credentials⟩,
    ⟨"mitm-cacert-file", .file, false, optRaw FilePub.raw c.pub.mitmCert c.sec.mitmCert⟩,
    ⟨"mitm-cakey-file", .file, false, optRaw FilePub.raw c.pub.mitmKey c.sec.mitmKey⟩,
    ⟨"proxy", .proxyURL, false, optRaw ProxyPub.raw c.pub.proxy c.sec.proxy⟩,
    ⟨"tls-cert-file", .file, false, optRaw FilePub.raw c.pub.tlsCert c.sec.tlsCert⟩,
    ⟨"tls-key-file", .file, false, optRaw FilePub.raw c.pub.tlsKey c.sec.tlsKey⟩ ]

/-- what the configuration dump shows of the secret-bearing flags -/
def describe (fmt : Format) (c : Config) : Option Bytes := describeFlags fmt (settings c)

def optShown {α : Type} (f : α → Bytes) (x : Option α) : List Bytes :=
  match x with
  | some a => [f a]
  | none => []

/-- the same dump computed from the public part alone -/
def shownLines (fmt : Format) (p : ConfigPub) : List Bytes :=
  let line (name : String) (k : Kind) (slice : Bool) (vs : List Bytes) : Bytes :=
    ascii name ++ 61 :: renderValues fmt slice k vs
  [ line "api-basic-auth" .userinfo false (optShown UserPub.shown p.apiBasicAuth),
    line "basic-auth" .userinfo false (optShown UserPub.shown p.basicAuth),
    line "cacert-file" .file true (p.cacerts.map FilePub.shown),
    line "credentials" .hostPortUser true (p.credentials.map CredPub.shown),
    line "mitm-cacert-file" .file false (optShown FilePub.shown p.mitmCert),
    line "mitm-cakey-file" .file false (optShown FilePub.shown p.mitmKey),
    line "proxy" .proxyURL false (optShown ProxyPub.shown p.proxy),
    line "tls-cert-file" .file false (optShown FilePub.shown p.tlsCert),
    line "tls-key-file" .file false (optShown FilePub.shown p.tlsKey) ]

def shown (fmt : Format) (p : ConfigPub) : Bytes :=
  match fmt with
  | .plain => ((shownLines fmt p).map (· ++ [10])).flatten
  | .oneLine => joinWith [44, 32] (shownLines fmt p)

/-! ### the upstream proxy URL of the "using upstream proxy" start-up line -/

/-- http_proxy.go `upstreamProxyURL` (no Kerberos): a `--proxy` URL without userinfo takes the
    userinfo of the `--credentials` entry that matches its host:port (`cred`, `none` = no match) -/
def upstreamProxyURL (u : ProxyURL) (cred : Option Userinfo) : ProxyURL :=
  match u.user with
  | some _ => u
  | none => { u with user := cred }

/-- the `url` attribute of the line: `upstreamProxyURL().Redacted()` -/
def upstreamLogURL (u : ProxyURL) (cred : Option Userinfo) : Bytes :=
  redactURL (some (upstreamProxyURL u cred))

/-! ### diagnostics outside the configuration dump that render a file-valued flag -/

/-- tls.go `redactDataURI`: the payload of an inline `data:` value is replaced by the placeholder,
    any other value (a path) is printed as it is -/
def redactDataURI (s : Bytes) : Bytes :=
  if isDataURI s then dataPrefix ++ placeholder else s

/-- the `cert` and `key` attributes of the debug record "loading TLS certificate" -/
structure TLSLoadAttrs where
  cert : Bytes
  key : Bytes
  deriving DecidableEq, Repr

/-- http_proxy.go `configureHTTPS`, http_server.go `configureHTTPS`/`configureHTTP2` (after 6ee5ae9):
    with neither `--tls-cert-file` nor `--tls-key-file` the info line "no TLS certificate provided,
    using self-signed certificate" is written instead (`none`); otherwise
    `Debug("loading TLS certificate", "cert", redactDataURI(CertFile), "key", redactDataURI(KeyFile))` -/
def tlsLoadAttrs (certFile keyFile : Bytes) : Option TLSLoadAttrs :=
  if certFile = [] ∧ keyFile = [] then none
  else some ⟨redactDataURI certFile, redactDataURI keyFile⟩

/-- a file-valued flag that may be absent: its raw value (`""` when not given) and what may be shown of it -/
def optFileRaw (f : Option FilePub) (payload : Bytes) : Bytes :=
  match f with
  | some f => f.raw payload
  | none => []

def optFileShown : Option FilePub → Bytes
  | some f => f.shown
  | none => []

/-- the record as a configuration produces it (the proxy's `--tls-cert-file` / `--tls-key-file`) -/
def tlsLoadLine (c : Config) : Option TLSLoadAttrs :=
  tlsLoadAttrs (optFileRaw c.pub.tlsCert c.sec.tlsCert) (optFileRaw c.pub.tlsKey c.sec.tlsKey)

/-- the same record computed from the public part alone -/
def tlsLoadShown (p : ConfigPub) : Option TLSLoadAttrs :=
  if optFileShown p.tlsCert = [] ∧ optFileShown p.tlsKey = [] then none
  else some ⟨optFileShown p.tlsCert, optFileShown p.tlsKey⟩

/-! ### error texts that render a flag value

  The rejected-value text is a defect of the unchanged tree (F43): the value is printed with `%q`,
  not through the flag's redactor.  The model says what is printed; the theorems say for which
  configurations that is harmless and exhibit one for which it is not.  The CA certificate error
  had the same defect (F44) until d35211c; it now prints the entry through `redactDataURI`. -/

/-- `%q` (`strconv.Quote`) on printable ASCII: only `"` and `\` are escaped -/
def quoteAscii (s : Bytes) : Bytes :=
  34 :: (s.flatMap fun c => if c == 34 || c == 92 then [92, c] else [c]) ++ [34]

/-- how a usage error names the flag (pflag, cobrautil/bind.go): shorthand first if there is one -/
def flagUsageName : String → Bytes
  | "proxy" => ascii "-x, --proxy"
  | "credentials" => ascii "-s, --credentials"
  | n => ascii "--" ++ ascii n

/-- where a flag value comes from -/
inductive Source where
  | flag | env | file
  deriving DecidableEq, Repr

/-- the `%q` of the rejected value: the command-line argument, the text of the `FORWARDER_*`
    variable, the config-file string — or, for a config-file list, `%q` of the `[]any`: `["a" "b"]` -/
def echoedValue (src : Source) (slice : Bool) (raws : List Bytes) : Bytes :=
  match src, slice with
  | .file, true => 91 :: joinWith [32] (raws.map quoteAscii) ++ [93]
  | _, _ => quoteAscii (joinWith [44] raws)

/-- `invalid argument "…" for "--flag" flag: ` — the text in front of the parser's own message -/
def invalidArgText (src : Source) (name : String) (slice : Bool) (raws : List Bytes) : Bytes :=
  ascii "invalid argument " ++ echoedValue src slice raws ++ ascii " for " ++
    quoteAscii (flagUsageName name) ++ ascii " flag: "

/-- the first raw value of a flag that its parser rejects -/
def firstRejected (k : Kind) : List Bytes → Option Bytes
  | [] => none
  | r :: rs => if (describeValue k r).isNone then some r else firstRejected k rs

/-- what a start-up prints about rejected values of the secret-bearing flags (command-line form:
    parsing stops at the first rejected argument of a flag) -/
def flagErrors (ss : List Setting) : List Bytes :=
  ss.filterMap fun s => (firstRejected s.kind s.raws).map fun r => invalidArgText .flag s.name s.slice [r]

/-- tls.go `loadRootCAs` (after d35211c): `fmt.Errorf("append certificate %q", redactDataURI(name))`
    for a `--cacert-file` value that holds no PEM certificate, wrapped by `ConfigureTLSConfig` as
    `load CAs: %w`; this is the `error` of the "fatal error exiting" record and the content of the
    termination log -/
def caCertErrorText (raw : Bytes) : Bytes :=
  ascii "load CAs: append certificate " ++ quoteAscii (redactDataURI raw)

/-! ### PAC: the proxy a script selects and the `--credentials` entry merged into it

  pac/proxy.go `Proxies.First` / `parseProxy` / `parseMode` / `Proxy.URL`, credentials.go
  `CredentialsMatcher.Match`, http_proxy.go `pacProxy` (no Kerberos).  The input is the string
  `FindProxyForURL` returned; an error of the script itself is returned by `pacProxy` before anything
  else is looked at and is not modelled.  Domain: printable ASCII without brackets and `%` in the
  host part of an entry (`net.SplitHostPort` / `net.JoinHostPort` treat those specially). -/

/-- pac/proxy.go `Mode` -/
inductive PacMode where
  | direct | proxy | http | https | socks | socks4 | socks5
  deriving DecidableEq, Repr

/-- `Mode.String()` (stringer) -/
def PacMode.name : PacMode → Bytes
  | .direct => ascii "DIRECT"
  | .proxy => ascii "PROXY"
  | .http => ascii "HTTP"
  | .https => ascii "HTTPS"
  | .socks => ascii "SOCKS"
  | .socks4 => ascii "SOCKS4"
  | .socks5 => ascii "SOCKS5"

/-- `parseMode`: a word that is no mode is read as DIRECT -/
def parsePacMode (s : Bytes) : PacMode :=
  if s = ascii "PROXY" then .proxy
  else if s = ascii "HTTP" then .http
  else if s = ascii "HTTPS" then .https
  else if s = ascii "SOCKS" then .socks
  else if s = ascii "SOCKS4" then .socks4
  else if s = ascii "SOCKS5" then .socks5
  else .direct

/-- pac/proxy.go `Proxy` -/
structure PacProxy where
  mode : PacMode
  host : Bytes
  port : Bytes
  deriving DecidableEq, Repr

def pacDirect : PacProxy := ⟨.direct, [], []⟩

/-- ASCII white space of `strings.TrimSpace` -/
def isPacSpace (c : UInt8) : Bool := c == 32 || (9 ≤ c && c ≤ 13)

def pacTrim (s : Bytes) : Bytes := ((s.dropWhile isPacSpace).reverse.dropWhile isPacSpace).reverse

/-- `net.SplitHostPort` on a string without brackets: host and port, or the text of the `AddrError` -/
def splitHostPort (hp : Bytes) : Except Bytes (Bytes × Bytes) :=
  match cutLastByte cColon hp with
  | none => .error (ascii "address " ++ hp ++ ascii ": missing port in address")
  | some (h, p) =>
    if cColon ∈ h then .error (ascii "address " ++ hp ++ ascii ": too many colons in address")
    else .ok (h, p)

/-- `strconv.ParseUint(port, 10, 16)` succeeds -/
def pacPortOK (p : Bytes) : Bool := !p.isEmpty && p.all isDigit && decVal p ≤ 65535

/-- `parseProxy`: one `<type> <host>:<port>` entry, or the text of the error -/
def parsePacEntry (s : Bytes) : Except Bytes PacProxy :=
  let s := pacTrim s
  if s = [] then .ok pacDirect
  else if s = ascii "DIRECT" then .ok pacDirect
  else
    match cutByte 32 s with
    | none => .error (ascii "missing host:port")
    | some (mode, hp) =>
      match splitHostPort hp with
      | .error e => .error (ascii "split host:port: " ++ e)
      | .ok (host, port) =>
        if host.isEmpty || host.any (fun c => c == 32 || c == 9) then
          .error (ascii "invalid host " ++ quoteAscii host)
        else if !pacPortOK port then .error (ascii "invalid port " ++ quoteAscii port)
        else .ok ⟨parsePacMode mode, host, port⟩

/-- `Proxies.First`: only the first entry of the list is looked at -/
def pacFirst (s : Bytes) : Except Bytes PacProxy :=
  if s = [] then .ok pacDirect
  else
    let spec := match cutByte 59 s with
      | some (a, _) => a
      | none => s
    match parsePacEntry spec with
    | .error e => .error (ascii "invalid proxy string at pos 0 " ++ quoteAscii spec ++ ascii ": " ++ e)
    | .ok p => .ok p

/-- the scheme of `Proxy.URL`: PROXY is http, otherwise the lower-case mode name -/
def pacScheme : PacMode → Bytes
  | .direct => []
  | .proxy => schemeHttp
  | .http => schemeHttp
  | .https => schemeHttps
  | .socks => ascii "socks"
  | .socks4 => ascii "socks4"
  | .socks5 => schemeSocks5

/-- `Proxy.URL`: nil for DIRECT, else `scheme://host:port` without userinfo -/
def pacURL (p : PacProxy) : Option ProxyURL :=
  if p.mode = .direct then none else some ⟨pacScheme p.mode, none, p.host ++ cColon :: p.port⟩

/-- the four maps of `CredentialsMatcher` (`*` host, port `0` = wildcard) -/
inductive CredClass where
  | exact | anyHost | anyPort | global
  deriving DecidableEq, Repr

def credClassOf (host port : Bytes) : CredClass :=
  if host = [cStar] then (if port = [48] then .global else .anyHost)
  else if port = [48] then .anyPort else .exact

/-- `CredentialsMatcher.Match` for `host:port`: exact entry, then `*:port`, then `host:*`, then `*:*`
    (duplicates are rejected when the table is built, so the first entry of a class is the entry) -/
def credMatch (t : List HostPortUser) (host port : Bytes) : Option HostPortUser :=
  ((t.find? fun e => decide (credClassOf e.host e.port = .exact) && (e.host == host && e.port == port)).or
   (t.find? fun e => decide (credClassOf e.host e.port = .anyHost) && e.port == port)).or
  ((t.find? fun e => decide (credClassOf e.host e.port = .anyPort) && e.host == host).or
   (t.find? fun e => decide (credClassOf e.host e.port = .global)))

/-- what `pacProxy` hands to the transport / the CONNECT dialer -/
inductive PacOutcome where
  | error (text : Bytes)
  | direct
  | via (u : ProxyURL)
  deriving DecidableEq, Repr

def PacOutcome.errorText : PacOutcome → Option Bytes
  | .error t => some t
  | _ => none

/-- the part of an outcome that diagnostics may show: the password of the merged userinfo replaced -/
def PacOutcome.pub : PacOutcome → PacOutcome
  | .via u => .via { u with user := u.user.map fun ui => ⟨ui.user, ui.pass.map fun _ => placeholder⟩ }
  | o => o

/-- an outcome as diagnostics render it: the error text, or the proxy URL through `Redacted()` -/
def PacOutcome.logged : PacOutcome → Bytes
  | .error t => t
  | .direct => ascii "DIRECT"
  | .via u => redactURL (some u)

/-- http_proxy.go `pacProxy` on the string the script returned: SOCKS and SOCKS4 are refused by the
    mode alone, before the proxy URL exists; then the userinfo of the matching `--credentials` entry
    is put into the URL -/
def pacProxy (t : List HostPortUser) (result : Bytes) : PacOutcome :=
  match pacFirst result with
  | .error e => .error e
  | .ok p =>
    if p.mode = .socks ∨ p.mode = .socks4 then
      .error (ascii "PAC: unsupported proxy type " ++ p.mode.name)
    else
      match pacURL p with
      | none => .direct
      | some u =>
        match credMatch t p.host p.port with
        | some e => .via { u with user := some e.ui }
        | none => .via u

/-- the `--credentials` entry a public entry and its password parse to -/
def CredPub.entry (c : CredPub) (pw : Bytes) : HostPortUser :=
  ⟨c.host, if c.port = [cStar] then [48] else c.port, ⟨c.user.user, if c.user.hasPass then some pw else none⟩⟩

/-- the table of a configuration (entries indexed like `rawsFrom`) -/
def credTable : List CredPub → Nat → (Nat → Bytes) → List HostPortUser
  | [], _, _ => []
  | c :: r, i, s => c.entry (s i) :: credTable r (i + 1) s

/-- `url.URL.String` of a proxy URL: the userinfo *with* its password (escaped as `net/url` does) -/
def urlString (u : ProxyURL) : Bytes :=
  u.scheme ++ schemeSep ++
    (match u.user with
     | some ui =>
       escapeUser ui.user ++
         (match ui.pass with
          | some p => cColon :: escapeUser p
          | none => []) ++ [cAt]
     | none => []) ++ u.host

/-- NOT the code — the mistake the ordering in `pacProxy` excludes: the kind is checked after the
    credentials were merged, and the refusal names the proxy URL with `%s` -/
def pacProxyKindAfterMerge (t : List HostPortUser) (result target : Bytes) : PacOutcome :=
  match pacFirst result with
  | .error e => .error e
  | .ok p =>
    match pacURL p with
    | none => .direct
    | some u =>
      let u' : ProxyURL := match credMatch t p.host p.port with
        | some e => { u with user := some e.ui }
        | none => u
      if schemeOK u'.scheme then .via u'
      else .error (ascii "PAC: unsupported proxy " ++ urlString u' ++ ascii " for " ++ target)

/-! ### loading an inline value: the error texts of `ReadFileOrBase64`

  readurl.go `ReadFileOrBase64` / `readData`: a value whose first five bytes spell `data:` (in any case:
  `IsDataURI`, F54) is an inline value - the prefix is SLICED off (`name[5:]`, no URL parsing), a leading `//` is trimmed,
  what precedes the first comma must be `base64`, the rest goes to `base64.StdEncoding.DecodeString`;
  any other value is a file name (`os.ReadFile`, outside the model).  The decoder is a parameter
  (`Decoder`: the data, or the offset of `base64.CorruptInputError`); the theorems hold for every
  decoder.  What matters for C19 is how the ERROR is built: from a fixed message or from the offset,
  never from the value - whatever its white-space layout (line breaks from `base64(1)`, TABs, blanks). -/

def cComma : UInt8 := 44
/-- `base64` -/
def fmtBase64 : Bytes := [98, 97, 115, 101, 54, 52]
/-- `strconv.Itoa` of an offset -/
def natDec (n : Nat) : Bytes := (Nat.toDigits 10 n).map fun c => UInt8.ofNat c.toNat

/-- encoding/base64 `StdEncoding.DecodeString`: the decoded bytes, or the input offset of a
    `CorruptInputError` -/
abbrev Decoder := Bytes → Except Nat Bytes

/-- `illegal base64 data at input byte ` -/
def corruptPrefix : Bytes :=
  [105, 108, 108, 101, 103, 97, 108, 32, 98, 97, 115, 101, 54, 52, 32, 100, 97, 116, 97, 32, 97, 116, 32,
   105, 110, 112, 117, 116, 32, 98, 121, 116, 101, 32]
/-- `base64.CorruptInputError.Error` -/
def corruptInputText (n : Nat) : Bytes := corruptPrefix ++ natDec n
/-- the fixed message of `readData` for a format other than `base64` before the comma -/
def invalidDataURIText : Bytes :=
  ascii "invalid data URI, the only supported format is: data:base64,<encoded data>"

/-- what `ReadFileOrBase64` makes of a value -/
inductive Loaded where
  | data (b : Bytes)
  | error (text : Bytes)
  | file (name : Bytes)
  deriving DecidableEq, Repr

def Loaded.data? : Loaded → Option Bytes
  | .data b => some b
  | _ => none

def decodeStep (dec : Decoder) (v : Bytes) : Loaded :=
  match dec v with
  | .ok b => .data b
  | .error n => .error (corruptInputText n)

/-- `strings.TrimPrefix(v, "//")` -/
def trimSlashes (v : Bytes) : Bytes := if [47, 47].isPrefixOf v then v.drop 2 else v

/-- readurl.go `readData` on the opaque part of the value -/
def readData (dec : Decoder) (opq : Bytes) : Loaded :=
  let v := trimSlashes opq
  match cutByte cComma v with
  | some (fmt, rest) => if fmt = fmtBase64 then decodeStep dec rest else .error invalidDataURIText
  | none => decodeStep dec v

/-- readurl.go `ReadFileOrBase64` -/
def readFileOrBase64 (dec : Decoder) (name : Bytes) : Loaded :=
  if isDataURI name then readData dec (name.drop 5) else .file name

/-- the two ways an inline value is written: `data:base64,<q>` and `data:<q>` -/
def inlineRaw (b64 : Bool) (q : Bytes) : Bytes :=
  dataPrefix ++ ((if b64 then fmtBase64 ++ [cComma] else []) ++ q)

/-- the text without its line breaks (what the decoder looks at: it skips CR and LF) -/
def stripBreaks (v : Bytes) : Bytes := v.filter fun c => c != 10 && c != 13

/-- a decoder that skips CR and LF, as `encoding/base64` does -/
def Decoder.ignoresBreaks (dec : Decoder) : Prop :=
  ∀ v, (dec v).toOption = (dec (stripBreaks v)).toOption

/-- control characters that `net/url` refuses (`stringContainsCTLByte`) -/
def isCtl (c : UInt8) : Bool := c < 32 || c == 127

/-- `%q` on ASCII with the escapes of line breaks and TAB (other control characters: `\xNN`, not needed) -/
def quoteGo (s : Bytes) : Bytes :=
  34 :: (s.flatMap fun c =>
    if c == 34 || c == 92 then [92, c]
    else if c == 10 then [92, 110] else if c == 13 then [92, 114] else if c == 9 then [92, 116] else [c]) ++ [34]

/-- `url.Error.Error` of `url.Parse` for a string with a control character: it QUOTES its input -/
def urlParseErrorText (name : Bytes) : Bytes :=
  ascii "parse " ++ quoteGo name ++ ascii ": net/url: invalid control character in URL"

/-- NOT the code — the mistake slicing off the prefix excludes: the inline value is run through
    `url.Parse` first ("to share the --pac parser"); a value with a line break or a TAB in it is
    refused with an error that carries the whole value -/
def readFileOrBase64Parsed (dec : Decoder) (name : Bytes) : Loaded :=
  if dataPrefix.isPrefixOf name then
    if name.any isCtl then .error (urlParseErrorText name) else readData dec (name.drop 5)
  else .file name

/-! ### request log: the record of an exchange under a mode, and where its builder comes from

  httplog/httplog.go `structuredLogFunc`, httplog/slog.go `structuredLogBuilder`: every call of a logger
  declares a builder of its own (`var b structuredLogBuilder`), fills it with the `With*` methods its
  mode prescribes and hands it to the log function; `request.String()` / `response.String()` (and their
  JSON forms) print every NON-EMPTY field.  The `With*` methods overwrite only the fields of their own
  group, so what a record carries besides them is whatever the builder held before - which is nothing,
  as long as the builder is new.  Header fields, transfer encodings, trailers and the like (all that
  `WithHeaders` copies) are one field here, the bodies another. -/

/-- httplog `Mode` -/
inductive LogMode where
  | none | shortURL | url | headers | body | errors
  deriving DecidableEq, Repr

/-- what a logger is given about one exchange (`middleware.LogEntry`; the two URL forms are
    `buildShortURL` and `URL.Redacted()`) -/
structure Exchange where
  method : Bytes
  shortURL : Bytes
  url : Bytes
  status : Nat
  reqHeaders : Bytes
  resHeaders : Bytes
  reqBody : Bytes
  resBody : Bytes
  duration : Bytes
  id : Bytes
  deriving DecidableEq, Repr

/-- `structuredLogBuilder`: the fields a record prints -/
structure Builder where
  method : Bytes
  url : Bytes
  status : Nat
  duration : Bytes
  id : Bytes
  reqHeaders : Bytes
  resHeaders : Bytes
  reqBody : Bytes
  resBody : Bytes
  deriving DecidableEq, Repr

/-- `var b structuredLogBuilder` -/
def Builder.zero : Builder := ⟨[], [], 0, [], [], [], [], [], []⟩

/-- `initBasicFields` -/
def Builder.withBasic (b : Builder) (e : Exchange) (u : Bytes) : Builder :=
  { b with method := e.method, url := u, status := e.status, duration := e.duration, id := e.id }
/-- `WithHeaders` -/
def Builder.withHeaders (b : Builder) (e : Exchange) : Builder :=
  { b with reqHeaders := e.reqHeaders, resHeaders := e.resHeaders }
/-- `WithBody` -/
def Builder.withBody (b : Builder) (e : Exchange) : Builder :=
  { b with reqBody := e.reqBody, resBody := e.resBody }

/-- `structuredLogFunc`: the record the logger of a mode writes for an exchange when it starts from
    builder `b` (`none` = it writes nothing and touches no builder) -/
def fill (m : LogMode) (b : Builder) (e : Exchange) : Option Builder :=
  match m with
  | .none => none
  | .shortURL => some (b.withBasic e e.shortURL)
  | .url => some (b.withBasic e e.url)
  | .headers => some ((b.withBasic e e.shortURL).withHeaders e)
  | .body => some (((b.withBasic e e.shortURL).withHeaders e).withBody e)
  | .errors => if e.status < 500 then none else some ((b.withBasic e e.shortURL).withHeaders e)

/-- the record of an exchange under a mode, from a new builder: a function of the module's mode and of
    the exchange itself -/
def logRecord (m : LogMode) (e : Exchange) : Option Builder := fill m Builder.zero e

/-- where builders come from: `reset` is what is done to a used builder before the next logger call
    (of any module) starts from it -/
structure Recycling where
  reset : Builder → Builder

/-- the code: nothing is shared between two calls - every call starts from a new builder -/
def noRecycling : Recycling := ⟨fun _ => Builder.zero⟩

/-- NOT the code - the mistake a new builder per call excludes: builders go through a pool shared by
    all loggers and only the (possibly large) bodies are cleared when one is returned -/
def bodyOnlyReset : Recycling := ⟨fun b => { b with reqBody := [], resBody := [] }⟩

/-- one logger call that is handed a used builder with content `prev` (any earlier exchange of any module) -/
def emitted (r : Recycling) (prev : Builder) (m : LogMode) (e : Exchange) : Option Builder :=
  fill m (r.reset prev) e

/-- a history of logger calls (any interleaving of the modules' loggers) with the builder pool as the
    state: the content of the builder that is handed out next -/
def runLog (r : Recycling) : Builder → List (LogMode × Exchange) → List (Option Builder)
  | _, [] => []
  | st, (m, e) :: rest =>
    let out := emitted r st m e
    out :: runLog r (out.getD st) rest

/-- decidable infix test used by the driver (`bytes.Contains`) -/
def isInfix (s : Bytes) : Bytes → Bool
  | [] => s.isEmpty
  | x :: xs => s.isPrefixOf (x :: xs) || isInfix s xs

end C19
end FwdVerif
