/-
  C15 — stalled clients are cut off at the configured limits and cannot delay other clients.
  Core-only executable model.  Time is an integer number of milliseconds on one clock.

  Modelled code (saucelabs/forwarder):

  * `internal/martian/proxy_conn.go  readRequest`:
        idleDeadline = now + idleTimeout()            -- armed BEFORE the blocking `Peek(1)`
        Peek(1)                                       -- first byte of the next request
        t0 = now
        hdrDeadline      = t0 + readHeaderTimeout()   -- counts from the first byte
        wholeReqDeadline = t0 + ReadTimeout           -- zero time (= none) when ReadTimeout = 0
        SetReadDeadline(hdrDeadline); http.ReadRequest
        SetReadDeadline(wholeReqDeadline)             -- i.e. the deadline is CLEARED when ReadTimeout is unset
    `idleTimeout()` = IdleTimeout, else ReadTimeout;  `readHeaderTimeout()` = ReadHeaderTimeout, else
    ReadTimeout (`proxy.go`).  While the round trip to the origin is in progress nothing reads the client
    socket, so whatever read deadline is armed cannot fire; `WriteTimeout` covers only the writing of the
    response.  Hence: no limit applies while the proxy waits for the origin.
  * `maybeHandshakeTLS` (listener TLS, inside the per-connection goroutine): `HandshakeContext` under
    `TLSHandshakeTimeout`, counted from the start of `handleLoop`.
  * `handleMITM`: after the `200` to CONNECT the idle deadline is armed anew (`now + idleTimeout()`, as in
    `readRequest`), then `Peek(1)` for the first tunnel byte; on that byte the read deadline is cleared and
    `HandshakeContext` runs under `MITMTLSHandshakeTimeout` (= the same configured HandshakeTimeout) counted
    from the first tunnel byte.  (Before the repair of F32 the peek ran under the deadline the CONNECT
    request had left armed — none unless ReadTimeout is set — and a silent client was never closed.)
  * `proxyproto/net.go readHeaderContext`: the PROXY header must be complete `ReadHeaderTimeout` after the
    FIRST USE of the connection; bytes of an incomplete header do not extend it; on expiry the socket is
    closed.  Timeout 0 = wait for ever.
  * `internal/martian/proxy.go Serve`: one sequential loop: `Accept`; `go handleLoop(conn)`.  Nothing in the
    loop uses the connection (`net.go Listener.Accept` only wraps it: conntrack, `tls.Server`), so neither
    the stacking nor the limits nor anything a peer sends enters the loop.
  * `handleLoop` (the connection's own goroutine) begins with `log.Debug(…, conn.RemoteAddr())`; Go
    evaluates the argument whatever the log level.  On a PROXY-protocol listener that call is the first use
    of the connection: it blocks until the header has been read or has timed out, i.e. the header wait is
    the first phase of the connection's own process and its limit counts from the start of the goroutine;
    `maybeHandshakeTLS` / the first `readRequest` follow once it returned.  (Before the repair of F8 the
    log line stood in the accept loop of `Serve`, which therefore waited for the header of every
    connection before accepting the next one.)
-/
import FwdVerif.Lib.Wire

namespace FwdVerif
namespace C15

/-- configured limits in milliseconds; `0` = not set -/
structure Limits where
  idle       : Nat   -- HTTPServerConfig.IdleTimeout
  readHeader : Nat   -- HTTPServerConfig.ReadHeaderTimeout
  read       : Nat   -- HTTPServerConfig.ReadTimeout
  tls        : Nat   -- TLSServerConfig.HandshakeTimeout (listener handshake and MITM handshake)
  proxyHdr   : Nat   -- ProxyProtocolConfig.ReadHeaderTimeout
deriving DecidableEq, Repr

/-- listener stacking (net.go `Listener.Listen/Accept`: tcp → PROXY protocol → conntrack → TLS) -/
structure Stacking where
  proxy : Bool   -- ProxyProtocolConfig ≠ nil
  tls   : Bool   -- Protocol = https
  mitm  : Bool   -- MITM configured (CONNECT is answered locally and the tunnel is intercepted)
deriving DecidableEq, Repr

inductive Phase
  | proxyHeader | tlsHandshake | idle | header | body | mitmPeek | mitmHandshake | waitingForOrigin
deriving DecidableEq, Repr

/-- martian `idleTimeout()` -/
def idleLimit (L : Limits) : Nat := if L.idle > 0 then L.idle else L.read

/-- martian `readHeaderTimeout()` -/
def headerLimit (L : Limits) : Nat := if L.readHeader > 0 then L.readHeader else L.read

/-- the limit that governs a phase (`0` = none) -/
def limitOf (L : Limits) : Phase → Nat
  | .proxyHeader => L.proxyHdr
  | .tlsHandshake => L.tls
  | .idle => idleLimit L
  | .header => headerLimit L
  | .body => L.read
  | .mitmPeek => idleLimit L
  | .mitmHandshake => L.tls
  | .waitingForOrigin => 0

/-- `now.Add(d)` when `d > 0`, the zero time (no deadline) otherwise -/
def dl (d s : Nat) : Option Nat := if d > 0 then some (s + d) else none

/-- one client connection: the phase it is in, the instant its deadline counts from and the absolute
    instant at which a pending read / handshake is abandoned and the connection closed -/
structure Conn where
  phase    : Phase
  anchor   : Nat
  deadline : Option Nat
deriving DecidableEq, Repr

def enter (L : Limits) (p : Phase) (t : Nat) : Conn := ⟨p, t, dl (limitOf L p) t⟩

/-- the state of a connection at the instant its goroutine (`handleLoop`) starts -/
def accepted (S : Stacking) (L : Limits) (t : Nat) : Conn :=
  if S.proxy then enter L .proxyHeader t
  else if S.tls then enter L .tlsHandshake t
  else enter L .idle t

inductive ReqKind
  | noBody        -- request without body (waits for the origin next)
  | withBody      -- request with a body still to be read
  | connectMitm   -- CONNECT that is intercepted (200 written locally, then the tunnel is peeked)
deriving DecidableEq, Repr

/-- what the peers do -/
inductive Ev
  | data                -- bytes arrived that do not complete the unit the phase waits for
  | complete            -- the unit is complete: PROXY header / handshake / request body / the response
                        -- of the origin has been relayed
  | head (k : ReqKind)  -- the request head is complete
deriving DecidableEq, Repr

/-- after `http.ReadRequest` returned at `t`: the deadline becomes `wholeReqDeadline` (anchored at the first
    byte `t0`, which is the header phase's anchor); an intercepted CONNECT is answered at once and
    `handleMITM` arms the idle deadline anew for the first tunnel byte -/
def afterHead (L : Limits) (c : Conn) (t : Nat) : ReqKind → Conn
  | .noBody => ⟨.waitingForOrigin, c.anchor, none⟩
  | .withBody => ⟨.body, c.anchor, dl L.read c.anchor⟩
  | .connectMitm => enter L .mitmPeek t

/-- transition on an event observed at `t` (events that make no sense in a phase are ignored) -/
def next (S : Stacking) (L : Limits) (c : Conn) (t : Nat) (e : Ev) : Conn :=
  match c.phase, e with
  | .proxyHeader, .complete => if S.tls then enter L .tlsHandshake t else enter L .idle t
  | .tlsHandshake, .complete => enter L .idle t
  | .idle, .data => enter L .header t
  | .idle, .head k => afterHead L (enter L .header t) t k
  | .header, .head k => afterHead L c t k
  | .body, .complete => ⟨.waitingForOrigin, c.anchor, none⟩
  | .mitmPeek, .data => enter L .mitmHandshake t
  | .mitmHandshake, .complete => enter L .idle t
  | .waitingForOrigin, .complete => enter L .idle t
  | _, _ => c

inductive Outcome
  | closed (t : Nat) (p : Phase) (anchor : Nat)   -- closed by the proxy at `t`, stalled in phase `p`
  | stays (c : Conn)                              -- still open, in state `c`, with no deadline armed
deriving DecidableEq, Repr

/-- Run a connection over a script of timed events; after the last event the peers do nothing more.
    An event that lies before the instant the current phase began (bytes already waiting in the socket
    buffer) is seen at that instant. -/
def run (S : Stacking) (L : Limits) : Conn → List (Nat × Ev) → Outcome
  | c, [] =>
    match c.deadline with
    | some d => .closed d c.phase c.anchor
    | none => .stays c
  | c, (t, e) :: rest =>
    match c.deadline with
    | some d => if d ≤ max t c.anchor then .closed d c.phase c.anchor
                else run S L (next S L c (max t c.anchor) e) rest
    | none => run S L (next S L c (max t c.anchor) e) rest

/-- events that are no progress in a phase: stray bytes of an incomplete PROXY header, handshake record,
    request head or body.  In `idle` and `mitmPeek` the very first byte is progress. -/
def noProgress (p : Phase) (e : Ev) : Bool :=
  e == .data && p != .idle && p != .mitmPeek

/-! ## The accept loop -/

/-- a peer: when its TCP connection is established (it enters the accept queue) and what it sends -/
structure Peer where
  arrive : Nat
  script : List (Nat × Ev)
deriving DecidableEq, Repr

/-- `Serve` on a listener of stacking `S` with limits `L`: sequential, `Accept; go handleLoop(conn)`.
    `free` = instant at which the loop next calls `Accept`.  Per peer in queue order: (instant `Accept`
    returned it, instant its goroutine was started).  The loop never uses the connection, so `S`, `L` and
    the peers' scripts do not occur in the body. -/
def serve (S : Stacking) (L : Limits) : Nat → List Peer → List (Nat × Nat)
  | _, [] => []
  | free, p :: ps =>
    let a := max free p.arrive
    (a, a) :: serve S L a ps

/-- service start (the connection has its own goroutine) of every peer -/
def starts (S : Stacking) (L : Limits) (free : Nat) (ps : List Peer) : List Nat :=
  (serve S L free ps).map (·.2)

/-- what happens to the `k`-th peer (`none` = there is no such peer): its own process starts with the
    first use of the connection (on a PROXY listener: the header wait) at the instant its goroutine starts -/
def outcomeOf (S : Stacking) (L : Limits) (free : Nat) (ps : List Peer) (k : Nat) : Option Outcome :=
  match (serve S L free ps)[k]?, ps[k]? with
  | some (_, s), some p => some (run S L (accepted S L s) p.script)
  | _, _ => none

/-- the accept instants as a function of the arrival instants alone -/
def runningMax : Nat → List Nat → List Nat
  | _, [] => []
  | free, a :: as => max free a :: runningMax (max free a) as

/-! ## Decidable forms of the property's clauses on what the implementation did -/

/-- closed `elapsed` ms after the phase began, limit `limit`: not earlier than the limit (up to clock
    granularity `eps`) and not later than `limit + slack` -/
def holdsClose (limit elapsed eps slack : Nat) : Bool :=
  limit ≤ elapsed + eps && elapsed ≤ limit + slack

def closeVerdict (limit elapsed eps slack : Nat) : String :=
  if ¬ (limit ≤ elapsed + eps) then "false early"
  else if ¬ (elapsed ≤ limit + slack) then "false late"
  else "true"

end C15
end FwdVerif
