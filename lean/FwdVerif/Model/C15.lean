/-
  C15 — stalled clients are cut off at the configured limits and cannot delay other clients.
  Core-only executable model.  Time is an integer number of milliseconds on one clock.

  Modelled code (saucelabs/forwarder):

  * `internal/martian/proxy_conn.go  readRequest`:
        idleDeadline = now + idleTimeout()            -- armed BEFORE the blocking `Peek(1)`
        Peek(1)                                       -- first byte of the next request
        t0 = now
        hdrDeadline      = t0 + readHeaderTimeout()   -- counts from the first byte
        wholeReqDeadline = t0 + ReadTimeout           -- zero time (= none) when ReadTimeout = 0
        SetReadDeadline(hdrDeadline); http.ReadRequest
        SetReadDeadline(wholeReqDeadline)             -- i.e. the deadline is CLEARED when ReadTimeout is unset
    `idleTimeout()` = IdleTimeout, else ReadTimeout;  `readHeaderTimeout()` = ReadHeaderTimeout, else
    ReadTimeout (`proxy.go`).  ALL of this runs every time `handleLoop` comes round, whatever the bufio
    reader holds: bytes the client sent ahead while the previous request was being served (a pipelined
    request, the first bytes of one) are in the reader / the socket buffer, `Peek(1)` returns at once and
    `t0` is the instant the loop came round — the head of the next request counts as begun THEN, and when
    it is incomplete `http.ReadRequest` goes back to the socket under `hdrDeadline = t0 + readHeaderTimeout()`
    (section "The keep-alive loop and the reader": `KConn`, `drain`, `nextK`, `runK`).  While the round trip to the origin is in progress nothing reads the client
    socket, so whatever read deadline is armed cannot fire; `WriteTimeout` covers only the writing of the
    response.  Hence: no limit applies while the proxy waits for the origin.
  * A request BODY is read by the round trip (the transport copies it to the origin) under the
    whole-request deadline `t0 + ReadTimeout`.  When the body is still incomplete at that instant the read
    fails with a time-out, `roundTrip` returns it as ITS error, `writeErrorResponse` answers
    `504 Gateway Timeout` ("timed out connecting to remote host": the origin is blamed) WITHOUT `Connection:
    close`, and `handleLoop` comes round: `readRequest` arms the idle deadline — the connection is NOT closed
    at `t0 + ReadTimeout`, it is idle from that instant and closed `idleTimeout()` later (bytes of the
    unfinished body that arrive meanwhile are read as the head of a next request).  `settle` below; open
    finding F49.
  * `writeResponse`: `SetWriteDeadline(now + WriteTimeout)` is its FIRST statement (the instant `writeStart`:
    the origin's response head — or the dialled CONNECT target, or the proxy's own error response — is at
    hand) and the deadline is lifted (`SetWriteDeadline(zero)`) when it returns.  It is ONE absolute instant
    for the whole response: neither bytes the client reads nor bytes the origin delivers extend it, so a
    response that has not been relayed completely `WriteTimeout` after `writeStart` — because the client
    does not read it, or because the origin's BODY is slower than that — is abandoned and the connection
    closed.  Nothing arms a write deadline anywhere else: not `readRequest` (net/http's discipline, under
    which the clock would run during the round trip), not the dial of a CONNECT target.
  * `tunnel` (a CONNECT answered 2xx by the target side, a `101 Switching Protocols`): the response head is
    written by `writeResponse` (write deadline armed and lifted as for every response), then
    `SetReadDeadline(zero)` clears whatever `readRequest` left armed for the request that opened the tunnel
    (the whole-request deadline `t0 + ReadTimeout`), then `bicopy` relays both ways until a peer ends the
    tunnel.  No deadline of any kind is armed on a tunnel: the request limits do not apply to tunnelled
    traffic.  (Before the repair of F46 the read deadline was not cleared: every tunnel was cut
    `ReadTimeout` after the first byte of the request that opened it — at once when the dial had taken
    longer than that.)
  * `maybeHandshakeTLS` (listener TLS, inside the per-connection goroutine): `HandshakeContext` under
    `TLSHandshakeTimeout`, counted from the start of `handleLoop`.
  * `handleMITM`: after the `200` to CONNECT the idle deadline is armed anew (`now + idleTimeout()`, as in
    `readRequest`), then `Peek(1)` for the first tunnel byte; on that byte the read deadline is cleared and
    `HandshakeContext` runs under `MITMTLSHandshakeTimeout` (= the same configured HandshakeTimeout) counted
    from the first tunnel byte.  (Before the repair of F32 the peek ran under the deadline the CONNECT
    request had left armed — none unless ReadTimeout is set — and a silent client was never closed.)
  * `proxyproto/net.go readHeaderContext`: the PROXY header must be complete `ReadHeaderTimeout` after the
    FIRST USE of the connection; bytes of an incomplete header do not extend it; on expiry the socket is
    closed.  Timeout 0 = wait for ever.  (One `context.WithTimeout` around the whole `ReadHeader`, which
    issues many reads.  The same holds for every limit that bounds an operation of many reads — the two
    handshakes run under one context, the request head under one absolute read deadline: the closing
    instant is fixed ONCE, when the phase begins, and `Ev.data` — a piece that does not complete the unit —
    never moves it.  `nextRearm/runRearm` is the variant that arms the limit anew before every read.)
  * `internal/martian/proxy.go Serve`: one sequential loop: `Accept`; `go handleLoop(conn)`.  Nothing in the
    loop uses the connection (`net.go Listener.Accept` only wraps it: conntrack, `tls.Server`), so neither
    the stacking nor the limits nor anything a peer sends enters the loop.
  * `handleLoop` (the connection's own goroutine) begins with `log.Debug(…, conn.RemoteAddr())`; Go
    evaluates the argument whatever the log level.  On a PROXY-protocol listener that call is the first use
    of the connection: it blocks until the header has been read or has timed out, i.e. the header wait is
    the first phase of the connection's own process and its limit counts from the start of the goroutine;
    `maybeHandshakeTLS` / the first `readRequest` follow once it returned.  (Before the repair of F8 the
    log line stood in the accept loop of `Serve`, which therefore waited for the header of every
    connection before accepting the next one.)
-/
import FwdVerif.Lib.Wire

namespace FwdVerif
namespace C15

/-- configured limits in milliseconds; `0` = not set -/
structure Limits where
  idle       : Nat   -- HTTPServerConfig.IdleTimeout
  readHeader : Nat   -- HTTPServerConfig.ReadHeaderTimeout
  read       : Nat   -- HTTPServerConfig.ReadTimeout
  tls        : Nat   -- TLSServerConfig.HandshakeTimeout (listener handshake and MITM handshake)
  proxyHdr   : Nat   -- ProxyProtocolConfig.ReadHeaderTimeout
  write      : Nat   -- HTTPServerConfig.WriteTimeout
deriving DecidableEq, Repr

/-- listener stacking (net.go `Listener.Listen/Accept`: tcp → PROXY protocol → conntrack → TLS) -/
structure Stacking where
  proxy : Bool   -- ProxyProtocolConfig ≠ nil
  tls   : Bool   -- Protocol = https
  mitm  : Bool   -- MITM configured (CONNECT is answered locally and the tunnel is intercepted)
deriving DecidableEq, Repr

inductive Phase
  | proxyHeader | tlsHandshake | idle | header | body | mitmPeek | mitmHandshake | waitingForOrigin
  | writing   -- `writeResponse` is relaying the response: from `writeStart` until the last byte is flushed
  | tunnel    -- `bicopy`: CONNECT / upgrade tunnel, until a peer ends it
deriving DecidableEq, Repr

/-- martian `idleTimeout()` -/
def idleLimit (L : Limits) : Nat := if L.idle > 0 then L.idle else L.read

/-- martian `readHeaderTimeout()` -/
def headerLimit (L : Limits) : Nat := if L.readHeader > 0 then L.readHeader else L.read

/-- the limit that governs a phase (`0` = none) -/
def limitOf (L : Limits) : Phase → Nat
  | .proxyHeader => L.proxyHdr
  | .tlsHandshake => L.tls
  | .idle => idleLimit L
  | .header => headerLimit L
  | .body => L.read
  | .mitmPeek => idleLimit L
  | .mitmHandshake => L.tls
  | .waitingForOrigin => 0
  | .writing => L.write
  | .tunnel => 0

/-- `now.Add(d)` when `d > 0`, the zero time (no deadline) otherwise -/
def dl (d s : Nat) : Option Nat := if d > 0 then some (s + d) else none

/-- one client connection: the phase it is in, the instant its deadline counts from and the absolute
    instant at which a pending read / handshake is abandoned and the connection closed -/
structure Conn where
  phase    : Phase
  anchor   : Nat
  deadline : Option Nat
deriving DecidableEq, Repr

def enter (L : Limits) (p : Phase) (t : Nat) : Conn := ⟨p, t, dl (limitOf L p) t⟩

/-- the state of a connection at the instant its goroutine (`handleLoop`) starts -/
def accepted (S : Stacking) (L : Limits) (t : Nat) : Conn :=
  if S.proxy then enter L .proxyHeader t
  else if S.tls then enter L .tlsHandshake t
  else enter L .idle t

inductive ReqKind
  | noBody        -- request without body (waits for the origin next)
  | withBody      -- request with a body still to be read
  | connectMitm   -- CONNECT that is intercepted (200 written locally, then the tunnel is peeked)
deriving DecidableEq, Repr

/-- what the peers do -/
inductive Ev
  | data                -- bytes arrived that do not complete the unit the phase waits for
  | complete            -- the unit is complete: PROXY header / handshake / request body / the response
                        -- of the origin has been relayed
  | head (k : ReqKind)  -- the request head is complete
  | respStart           -- the origin's response head (the dialled tunnel, an error response) is at hand:
                        -- `writeResponse` is entered — the instant `writeStart`
  | tunnelUp            -- the 2xx to CONNECT / the 101 has been written: `bicopy` begins
  | peeked              -- a byte of a request body that its reader only PEEKS: the first byte of the CRLF that
                        -- ends a chunked body (`body.readTrailer` peeks two).  It completes nothing and, when the
                        -- body read is abandoned, it is still in the bufio reader (only the loop `runK` sees it)
deriving DecidableEq, Repr

/-- after `http.ReadRequest` returned at `t`: the deadline becomes `wholeReqDeadline` (anchored at the first
    byte `t0`, which is the header phase's anchor); an intercepted CONNECT is answered at once and
    `handleMITM` arms the idle deadline anew for the first tunnel byte -/
def afterHead (L : Limits) (c : Conn) (t : Nat) : ReqKind → Conn
  | .noBody => ⟨.waitingForOrigin, c.anchor, none⟩
  | .withBody => ⟨.body, c.anchor, dl L.read c.anchor⟩
  | .connectMitm => enter L .mitmPeek t

/-- transition on an event observed at `t` (events that make no sense in a phase are ignored) -/
def next (S : Stacking) (L : Limits) (c : Conn) (t : Nat) (e : Ev) : Conn :=
  match c.phase, e with
  | .proxyHeader, .complete => if S.tls then enter L .tlsHandshake t else enter L .idle t
  | .tlsHandshake, .complete => enter L .idle t
  | .idle, .data => enter L .header t
  | .idle, .head k => afterHead L (enter L .header t) t k
  | .header, .head k => afterHead L c t k
  | .body, .complete => ⟨.waitingForOrigin, c.anchor, none⟩
  | .mitmPeek, .data => enter L .mitmHandshake t
  | .mitmHandshake, .complete => enter L .idle t
  | .waitingForOrigin, .complete => enter L .idle t
  | .waitingForOrigin, .respStart => enter L .writing t
  | .writing, .complete => enter L .idle t
  | .waitingForOrigin, .tunnelUp => enter L .tunnel t
  | .writing, .tunnelUp => enter L .tunnel t
  | _, _ => c

inductive Outcome
  | closed (t : Nat) (p : Phase) (anchor : Nat)   -- closed by the proxy at `t`, stalled in phase `p`
  | stays (c : Conn)                              -- still open, in state `c`, with no deadline armed
deriving DecidableEq, Repr

/-- F49.  The state of a connection looked at at the instant `u`: a request body still incomplete at its
    deadline `d = t0 + ReadTimeout ≤ u` has been answered `504 Gateway Timeout` at `d` — the failed read is
    reported by the round trip as the origin's time-out — and the connection, NOT closed, is idle from `d`
    (`readRequest` arms the idle deadline when `handleLoop` comes round).  Every other deadline closes. -/
def settle (L : Limits) (c : Conn) (u : Nat) : Conn :=
  match c.phase, c.deadline with
  | .body, some d => if d ≤ u then enter L .idle d else c
  | _, _ => c

/-- `settle` when the peers do nothing more: a body deadline that is armed will expire -/
def settleEnd (L : Limits) (c : Conn) : Conn :=
  match c.phase, c.deadline with
  | .body, some d => enter L .idle d
  | _, _ => c

/-- the instant at which a body read is abandoned and answered with 504 when the state is looked at at `u` -/
def bodyTimeout (c : Conn) (u : Nat) : Option Nat :=
  match c.phase, c.deadline with
  | .body, some d => if d ≤ u then some d else none
  | _, _ => none

/-- Run a connection over a script of timed events; after the last event the peers do nothing more.
    An event that lies before the instant the current phase began (bytes already waiting in the socket
    buffer) is seen at that instant. -/
def run (S : Stacking) (L : Limits) : Conn → List (Nat × Ev) → Outcome
  | c, [] =>
    match (settleEnd L c).deadline with
    | some d => .closed d (settleEnd L c).phase (settleEnd L c).anchor
    | none => .stays (settleEnd L c)
  | c, (t, e) :: rest =>
    match (settle L c (max t c.anchor)).deadline with
    | some d => if d ≤ max t c.anchor then
                  .closed d (settle L c (max t c.anchor)).phase (settle L c (max t c.anchor)).anchor
                else run S L (next S L (settle L c (max t c.anchor)) (max t c.anchor) e) rest
    | none => run S L (next S L (settle L c (max t c.anchor)) (max t c.anchor) e) rest

/-- events that are no progress in a phase: stray bytes of an incomplete PROXY header, handshake record,
    request head or body.  In `idle` and `mitmPeek` the very first byte is progress. -/
def noProgress (p : Phase) (e : Ev) : Bool :=
  e == .data && p != .idle && p != .mitmPeek

/-! ## The deadline set of the client socket -/

/-- the timers that can close a client connection -/
inductive Timer
  | read        -- `SetReadDeadline`: idle wait, request head, whole request, first tunnel byte; PROXY header
  | handshake   -- the context of the listener's or the MITM handshake
  | write       -- `SetWriteDeadline`
deriving DecidableEq, Repr

/-- the operation the proxy has pending on the client socket in a phase, named by the timer that bounds
    it; `none` = the proxy does nothing with the client socket (it waits for the origin).  A deadline
    can only close the connection while an operation of its kind is pending. -/
def timerOf : Phase → Option Timer
  | .proxyHeader | .idle | .header | .body | .mitmPeek => some .read
  | .tlsHandshake | .mitmHandshake => some .handshake
  | .writing => some .write
  | .waitingForOrigin | .tunnel => none

/-- the instant at which timer `k` closes the connection in state `c` (`none` = that timer cannot) -/
def armed (c : Conn) (k : Timer) : Option Nat :=
  if timerOf c.phase = some k then c.deadline else none

/-- NOT the code any more (F46, repaired): the state in which `tunnel` began before the read deadline was
    cleared — the whole-request deadline of the request that opened the tunnel (anchored at its first
    byte, the anchor of `waitingForOrigin`) stays armed while `bicopy` reads the client socket -/
def tunnelInherited (L : Limits) (c : Conn) : Conn := ⟨.tunnel, c.anchor, dl L.read c.anchor⟩

/-! ## A variant that is NOT the code: the write deadline armed when the request has been read

`SetWriteDeadline(now + WriteTimeout)` at the end of `readRequest` (net/http arms its write deadline
there: "reset whenever a new request's header is read") and lifted only after `writeResponse`.  The clock
then runs during the round trip to the origin / the dial of the CONNECT target; `writeResponse` writes under
whatever is left of it, and when nothing is left the first write fails and the connection is closed at the
very instant the origin answers.  `Theorems/C15.lean` refutes this variant by a kernel-checked witness. -/

/-- state of the variant: the connection as before and the write deadline armed on its socket -/
structure VConn where
  conn : Conn
  wd   : Option Nat
deriving DecidableEq, Repr

def nextV (S : Stacking) (L : Limits) (v : VConn) (t : Nat) (e : Ev) : VConn :=
  let c' := next S L v.conn t e
  match v.conn.phase, e with
  | .idle, .head .connectMitm | .header, .head .connectMitm => ⟨c', none⟩   -- the 200 is written at once
  | .idle, .head _ | .header, .head _ => ⟨c', dl L.write t⟩                 -- end of `readRequest`
  | .waitingForOrigin, .respStart => ⟨{ c' with deadline := v.wd }, v.wd⟩   -- not armed anew
  | .waitingForOrigin, .complete | .writing, .complete => ⟨c', none⟩        -- lifted after `writeResponse`
  | _, _ => ⟨c', v.wd⟩

/-- the proxy starts writing to the client at `t` although the write deadline has expired -/
def writesTooLate (v : VConn) (t : Nat) (e : Ev) : Bool :=
  v.conn.phase == .waitingForOrigin && (e == .respStart || e == .complete) &&
    (match v.wd with | some d => decide (d ≤ t) | none => false)

/-- `run` for the variant: as `run`, and a response that is at hand after the write deadline expired
    closes the connection at that instant (the flush fails, nothing reaches the client) -/
def runV (S : Stacking) (L : Limits) : VConn → List (Nat × Ev) → Outcome
  | v, [] =>
    match v.conn.deadline with
    | some d => .closed d v.conn.phase v.conn.anchor
    | none => .stays v.conn
  | v, (t, e) :: rest =>
    let u := max t v.conn.anchor
    match v.conn.deadline with
    | some d => if d ≤ u then .closed d v.conn.phase v.conn.anchor
                else if writesTooLate v u e then .closed u v.conn.phase v.conn.anchor
                else runV S L (nextV S L v u e) rest
    | none => if writesTooLate v u e then .closed u v.conn.phase v.conn.anchor
              else runV S L (nextV S L v u e) rest

/-! ## The accept loop -/

/-- a peer: when its TCP connection is established (it enters the accept queue) and what it sends -/
structure Peer where
  arrive : Nat
  script : List (Nat × Ev)
deriving DecidableEq, Repr

/-- `Serve` on a listener of stacking `S` with limits `L`: sequential, `Accept; go handleLoop(conn)`.
    `free` = instant at which the loop next calls `Accept`.  Per peer in queue order: (instant `Accept`
    returned it, instant its goroutine was started).  The loop never uses the connection, so `S`, `L` and
    the peers' scripts do not occur in the body. -/
def serve (S : Stacking) (L : Limits) : Nat → List Peer → List (Nat × Nat)
  | _, [] => []
  | free, p :: ps =>
    let a := max free p.arrive
    (a, a) :: serve S L a ps

/-- service start (the connection has its own goroutine) of every peer -/
def starts (S : Stacking) (L : Limits) (free : Nat) (ps : List Peer) : List Nat :=
  (serve S L free ps).map (·.2)

/-- what happens to the `k`-th peer (`none` = there is no such peer): its own process starts with the
    first use of the connection (on a PROXY listener: the header wait) at the instant its goroutine starts -/
def outcomeOf (S : Stacking) (L : Limits) (free : Nat) (ps : List Peer) (k : Nat) : Option Outcome :=
  match (serve S L free ps)[k]?, ps[k]? with
  | some (_, s), some p => some (run S L (accepted S L s) p.script)
  | _, _ => none

/-- the accept instants as a function of the arrival instants alone -/
def runningMax : Nat → List Nat → List Nat
  | _, [] => []
  | free, a :: as => max free a :: runningMax (max free a) as

/-! ## The keep-alive loop and the reader

`handleLoop` is a loop: `readRequest`, handle, write the response, `readRequest` again.  While the proxy
waits for the origin or relays the response it does not read the client socket for a request; what the
client sends meanwhile (`Ev.data` = a non-empty piece of the next request head or body that does not
complete it, `Ev.head k` = the rest of a head) stays in the socket buffer and — when it arrived in the same
segment as the end of the previous request — in the bufio reader.  When the loop comes round, at `t`,
`readRequest` runs as always: idle deadline, `Peek(1)` (returns at once when a byte is there), `t0 = t`,
header deadline `t + readHeaderTimeout()`, `http.ReadRequest` — which consumes what is there and goes back
to the socket, under that deadline, when the head is incomplete. -/

/-- phases in which the proxy does not read the client socket for a request -/
def notReading : Phase → Bool
  | .waitingForOrigin | .writing => true
  | _ => false

/-- events by which the client delivers bytes of a request -/
def sentByClient : Ev → Bool
  | .data | .head _ => true
  | _ => false

/-- a connection with what its client has sent ahead (oldest first): the content of the reader and the
    socket buffer that `readRequest` has not consumed yet -/
structure KConn where
  conn  : Conn
  ahead : List Ev
deriving DecidableEq, Repr

/-- number of items in the reader: pieces of at least one byte each, complete heads (`0` ⇔ `Peek(1)` blocks) -/
def KConn.buffered (k : KConn) : Nat := k.ahead.length

/-- `b` pieces of the next request head that do not complete it -/
def partialHead (b : Nat) : List Ev := List.replicate b .data

/-- the loop consumes, at the instant `t`, what was sent ahead — until it stops reading again (a complete
    request is handed to the origin; the rest stays where it is) -/
def drain (S : Stacking) (L : Limits) (t : Nat) : Conn → List Ev → KConn
  | c, [] => ⟨c, []⟩
  | c, e :: es => if notReading c.phase then ⟨c, e :: es⟩ else drain S L t (next S L c t e) es

/-- transition of the loop on an event observed at `t` -/
def nextK (S : Stacking) (L : Limits) (k : KConn) (t : Nat) (e : Ev) : KConn :=
  if notReading k.conn.phase && sentByClient e then ⟨k.conn, k.ahead ++ [e]⟩
  else if k.conn.phase == .body && e == .peeked then ⟨k.conn, k.ahead ++ [.data]⟩
  else drain S L t (next S L k.conn t e) k.ahead

/-- `settle` for the loop (F49): the body read was abandoned at `d` and answered; `handleLoop` comes round at
    `d` and `readRequest` finds what the body reader left in the reader — a peeked byte is read as the first
    byte of a next request head: `Peek(1)` returns at once, the HEADER deadline is armed at `d` -/
def settleK (S : Stacking) (L : Limits) (k : KConn) (u : Nat) : KConn :=
  match bodyTimeout k.conn u with
  | some d => drain S L d (enter L .idle d) k.ahead
  | none => k

def settleEndK (S : Stacking) (L : Limits) (k : KConn) : KConn :=
  match k.conn.phase, k.conn.deadline with
  | .body, some d => drain S L d (enter L .idle d) k.ahead
  | _, _ => k

/-- `run` for the loop (the same clock discipline: an event is seen no earlier than the phase began) -/
def runK (S : Stacking) (L : Limits) : KConn → List (Nat × Ev) → Outcome
  | k, [] =>
    match (settleEndK S L k).conn.deadline with
    | some d => .closed d (settleEndK S L k).conn.phase (settleEndK S L k).conn.anchor
    | none => .stays (settleEndK S L k).conn
  | k, (t, e) :: rest =>
    match (settleK S L k (max t k.conn.anchor)).conn.deadline with
    | some d => if d ≤ max t k.conn.anchor then
                  .closed d (settleK S L k (max t k.conn.anchor)).conn.phase (settleK S L k (max t k.conn.anchor)).conn.anchor
                else runK S L (nextK S L (settleK S L k (max t k.conn.anchor)) (max t k.conn.anchor) e) rest
    | none => runK S L (nextK S L (settleK S L k (max t k.conn.anchor)) (max t k.conn.anchor) e) rest

/-- the instants at which, along `runK`, the read of a request body is abandoned and answered with
    `504 Gateway Timeout` (F49) -/
def timeoutsK (S : Stacking) (L : Limits) : KConn → List (Nat × Ev) → List Nat
  | k, [] =>
    match k.conn.phase, k.conn.deadline with
    | .body, some d => [d]
    | _, _ => []
  | k, (t, e) :: rest =>
    let pre := (bodyTimeout k.conn (max t k.conn.anchor)).toList
    match (settleK S L k (max t k.conn.anchor)).conn.deadline with
    | some d => if d ≤ max t k.conn.anchor then pre
                else pre ++ timeoutsK S L (nextK S L (settleK S L k (max t k.conn.anchor)) (max t k.conn.anchor) e) rest
    | none => pre ++ timeoutsK S L (nextK S L (settleK S L k (max t k.conn.anchor)) (max t k.conn.anchor) e) rest

/-- nothing is sent ahead in a script (decided along the run): the loop and the plain automaton coincide -/
def noWriteAhead (S : Stacking) (L : Limits) : Conn → List (Nat × Ev) → Bool
  | _, [] => true
  | c, (t, e) :: rest =>
    !(notReading (settle L c (max t c.anchor)).phase && sentByClient e) &&
      !((settle L c (max t c.anchor)).phase == .body && e == .peeked) &&
      noWriteAhead S L (next S L (settle L c (max t c.anchor)) (max t c.anchor) e) rest

/-! ### A variant that is NOT the code: deadlines armed only when the reader is empty

`readRequest` with a fast path "a buffered request is parsed without touching the connection": when the
reader is not empty the idle deadline, the peek and the header deadline are skipped and `http.ReadRequest`
is called at once.  That is harmless only when the WHOLE head is in the reader; when it is not,
`http.ReadRequest` goes back to the socket under whatever read deadline the previous request left there
(`left`: none, unless ReadTimeout is set).  Refuted by a kernel-checked witness in `Theorems/C15.lean`. -/

def nextKskip (S : Stacking) (L : Limits) (left : Option Nat) (k : KConn) (t : Nat) (e : Ev) : KConn :=
  if notReading k.conn.phase && sentByClient e then ⟨k.conn, k.ahead ++ [e]⟩
  else
    let c' := next S L k.conn t e
    if c'.phase == .idle && !k.ahead.isEmpty then drain S L t ⟨.header, t, left⟩ k.ahead
    else drain S L t c' k.ahead

def runKskip (S : Stacking) (L : Limits) (left : Option Nat) : KConn → List (Nat × Ev) → Outcome
  | k, [] =>
    match k.conn.deadline with
    | some d => .closed d k.conn.phase k.conn.anchor
    | none => .stays k.conn
  | k, (t, e) :: rest =>
    match k.conn.deadline with
    | some d => if d ≤ max t k.conn.anchor then .closed d k.conn.phase k.conn.anchor
                else runKskip S L left (nextKskip S L left k (max t k.conn.anchor) e) rest
    | none => runKskip S L left (nextKskip S L left k (max t k.conn.anchor) e) rest

/-! ### A variant that is NOT the code: the limit armed anew before every read

A limit that bounds an operation of many reads (PROXY header, handshakes, request head, request body under
ReadTimeout) implemented as `SetReadDeadline(now + limit)` in front of EVERY read: each piece that arrives
moves the closing instant, a peer that dribbles is held for (number of pieces) × limit. -/

/-- phases whose limit bounds one operation made of many reads -/
def multiRead : Phase → Bool
  | .proxyHeader | .tlsHandshake | .header | .body | .mitmHandshake => true
  | _ => false

def nextRearm (S : Stacking) (L : Limits) (c : Conn) (t : Nat) (e : Ev) : Conn :=
  if e == .data && multiRead c.phase then { c with deadline := dl (limitOf L c.phase) t }
  else next S L c t e

def runRearm (S : Stacking) (L : Limits) : Conn → List (Nat × Ev) → Outcome
  | c, [] =>
    match c.deadline with
    | some d => .closed d c.phase c.anchor
    | none => .stays c
  | c, (t, e) :: rest =>
    match c.deadline with
    | some d => if d ≤ max t c.anchor then .closed d c.phase c.anchor
                else runRearm S L (nextRearm S L c (max t c.anchor) e) rest
    | none => runRearm S L (nextRearm S L c (max t c.anchor) e) rest

/-- a peer that dribbles: `n` pieces, the first at `s + g`, one every `g` -/
def dribble (s g : Nat) : Nat → List (Nat × Ev)
  | 0 => []
  | n + 1 => (s + g, .data) :: dribble (s + g) g n

/-! ## What an expired wait hands to the connection loop

`handleLoop` is `for { if err := pc.handle(); err != nil { if errors.Is(err, errClose) || isCloseable(err) { return } ;
errorsN++ ; if errorsN >= 5 { return } } else { errorsN = 0 } }` with `defer conn.Close()`.  `isCloseable` accepts
EOF, closed pipes, `tls:` errors and net errors that are NOT time-outs: a raw time-out error is deliberately
not closeable (it counts against the budget of five consecutive errors).  Whether a wait that expired ends
the connection therefore depends on WHAT its code returns:

  * `readRequest` failing (idle wait, request head): `handle` returns `errClose` for every error;
  * `handleMITM`: the peek for the first tunnel byte and the handshake return `errClose` for every error;
  * `writeResponse` failing under the write deadline: the flush error closes (`errClose`);
  * PROXY header / listener handshake: they precede the loop — `handleLoop` returns;
  * a request body under ReadTimeout: the round trip fails, the failure is ANSWERED (504) and `handle` returns
    `nil` — the loop comes round and `readRequest` arms a fresh idle deadline (F49, `settle`).

`expiryErr` is that table; `runRe re n` is the loop for an arbitrary table `re` (`true` = the expiry in that
phase is handed to the loop as something it does not close on: the loop comes round, idle from the instant
of the expiry) with at most `n` such rounds in a row (`maxConsecutiveErrors - 1 = 4` in the code; an answered
failure resets the count). -/

/-- what `handle()` hands to `handleLoop` when the wait of a phase is abandoned at its deadline -/
inductive HErr
  | errClose   -- the sentinel (or an error `isCloseable` accepts): the loop returns, the connection is closed
  | timeout    -- a raw `net.Error` with `Timeout() = true`: not closeable, the loop comes round
  | answered   -- no error: the failure was answered with an error response, the loop comes round
deriving DecidableEq, Repr

/-- `errors.Is(err, errClose) || isCloseable(err)` -/
def loopCloses : HErr → Bool
  | .errClose => true
  | _ => false

/-- the code -/
def expiryErr : Phase → HErr
  | .body => .answered   -- F49
  | _ => .errClose

/-- the phases whose expiry makes the loop come round, in the code: the request body alone (F49) -/
def reCode (p : Phase) : Bool := !loopCloses (expiryErr p)

def expired (c : Conn) (u : Nat) : Bool :=
  match c.deadline with
  | some d => decide (d ≤ u)
  | none => false

/-- the state of the loop looked at at `u`: every deadline that expired by then in a phase of `re` made the
    loop come round — `readRequest` armed the idle deadline at the instant of the expiry —, at most `n`
    times in a row -/
def lapse (re : Phase → Bool) (L : Limits) : Nat → Conn → Nat → Conn
  | 0, c, _ => c
  | n + 1, c, u =>
    match c.deadline with
    | some d => if d ≤ u && re c.phase then lapse re L n (enter L .idle d) u else c
    | none => c

/-- `lapse` when the peers do nothing more: every armed deadline expires -/
def lapseEnd (re : Phase → Bool) (L : Limits) : Nat → Conn → Conn
  | 0, c => c
  | n + 1, c =>
    match c.deadline with
    | some d => if re c.phase then lapseEnd re L n (enter L .idle d) else c
    | none => c

/-- `run` for the table `re` with `n` rounds tolerated in a row -/
def runRe (re : Phase → Bool) (n : Nat) (S : Stacking) (L : Limits) : Conn → List (Nat × Ev) → Outcome
  | c, [] =>
    match (lapseEnd re L n c).deadline with
    | some d => .closed d (lapseEnd re L n c).phase (lapseEnd re L n c).anchor
    | none => .stays (lapseEnd re L n c)
  | c, (t, e) :: rest =>
    match (lapse re L n c (max t c.anchor)).deadline with
    | some d => if d ≤ max t c.anchor then
                  .closed d (lapse re L n c (max t c.anchor)).phase (lapse re L n c (max t c.anchor)).anchor
                else runRe re n S L (next S L (lapse re L n c (max t c.anchor)) (max t c.anchor) e) rest
    | none => runRe re n S L (next S L (lapse re L n c (max t c.anchor)) (max t c.anchor) e) rest

/-- NOT the code: `handleMITM` returning the raw peek error (a time-out is not closeable) instead of `errClose` -/
def reMitmPeek (p : Phase) : Bool := p == .body || p == .mitmPeek

/-! ## What the connections of a listener share: nothing but the accept loop

Every connection has its goroutine; `maybeHandshakeTLS` and the handshake of `handleMITM` run inside it, under
a context of their own, the moment the connection reaches them (listener: the start of the goroutine / the end
of its PROXY header; MITM: the first tunnel byte).  Nothing is taken from a shared, finite stock on the way:
no slot, no worker, no token.  `hsBegins none` says that for the server-side handshakes; `hsBegins (some n)` is
NOT the code: handshakes (listener and MITM alike) let in through `n` slots — `p.handshakes <- struct{}{}` in
front of `HandshakeContext`, given back when it returns — so that the time-out of a handshake counts from the
instant it got its slot and a slot is held for as long as the PEER takes. -/

/-- a connection that reaches a server-side handshake: the instant, and what its peer sends -/
structure HsReq where
  reach  : Nat
  script : List (Nat × Ev)
deriving DecidableEq, Repr

/-- the instant at which a handshake that began at `b` is over — the peer completed it, or the proxy gave up
    at `b + HandshakeTimeout`; `none` = never (no limit and the peer never completes) -/
def hsEnd (L : Limits) (b : Nat) : List (Nat × Ev) → Option Nat
  | [] => dl L.tls b
  | (t, e) :: rest =>
    match dl L.tls b with
    | some d => if d ≤ max t b then some d else if e == .complete then some (max t b) else hsEnd L b rest
    | none => if e == .complete then some (max t b) else hsEnd L b rest

/-- a slot whose handshake ends at `e` (`none` = never) is still taken at `t` -/
def stillHeld (t : Nat) : Option Nat → Bool
  | some e => decide (t < e)
  | none => true

def heldAt (held : List (Option Nat)) (t : Nat) : List (Option Nat) := held.filter (stillHeld t)

/-- the earliest instant at which one of the slots is given back (`none` = none ever is) -/
def firstFree : List (Option Nat) → Option Nat
  | [] => none
  | none :: hs => firstFree hs
  | some e :: hs =>
    match firstFree hs with
    | some f => some (min e f)
    | none => some e

/-- the instant at which the handshake of a connection that reaches it at `t` begins (its time-out counts from
    there).  `pool = none`: the code.  `pool = some n`: `n` slots, waiters in queue order (`now` = the instant
    the waiter before this one got its slot); `none` = it never begins. -/
def hsBegin (pool : Option Nat) (now : Nat) (held : List (Option Nat)) (t : Nat) : Option Nat :=
  match pool with
  | none => some t
  | some n =>
    if (heldAt held (max now t)).length < n then some (max now t) else firstFree (heldAt held (max now t))

/-- the begin of every handshake of a population (in the order in which the connections reach it);
    `held` = the ends of the handshakes in progress -/
def hsBegins (pool : Option Nat) (L : Limits) : Nat → List (Option Nat) → List HsReq → List (Option Nat)
  | _, _, [] => []
  | now, held, r :: rs =>
    match hsBegin pool now held r.reach with
    | some b => some b :: hsBegins pool L b (hsEnd L b r.script :: heldAt held b) rs
    | none => none :: hsBegins pool L now held rs

/-- a TLS listener without PROXY protocol whose handshakes go through `pool`: the fate of every connection
    (`none` = its handshake never begins).  With `pool = none` this is `outcomeOf`. -/
def outcomesPool (pool : Option Nat) (S : Stacking) (L : Limits) (free : Nat) (ps : List Peer) :
    List (Option Outcome) :=
  ((hsBegins pool L 0 [] (((starts S L free ps).zip ps).map fun (s, p) => ⟨s, p.script⟩)).zip ps).map
    fun (b, p) => b.map fun b => run S L (enter L .tlsHandshake b) p.script

/-! ## Decidable forms of the property's clauses on what the implementation did -/

/-- closed `elapsed` ms after the phase began, limit `limit`: not earlier than the limit (up to clock
    granularity `eps`) and not later than `limit + slack` -/
def holdsClose (limit elapsed eps slack : Nat) : Bool :=
  limit ≤ elapsed + eps && elapsed ≤ limit + slack

def closeVerdict (limit elapsed eps slack : Nat) : String :=
  if ¬ (limit ≤ elapsed + eps) then "false early"
  else if ¬ (elapsed ≤ limit + slack) then "false late"
  else "true"

end C15
end FwdVerif
