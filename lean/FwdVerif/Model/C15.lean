/-
  C15 — stalled clients are cut off at the configured limits and cannot delay other clients.
  Core-only executable model.  Time is an integer number of milliseconds on one clock.

  Modelled code (saucelabs/forwarder):

  * `internal/martian/proxy_conn.go  readRequest`:
        idleDeadline = now + idleTimeout()            -- armed BEFORE the blocking `Peek(1)`
        Peek(1)                                       -- first byte of the next request
        t0 = now
        hdrDeadline      = t0 + readHeaderTimeout()   -- counts from the first byte
        wholeReqDeadline = t0 + ReadTimeout           -- zero time (= none) when ReadTimeout = 0
        SetReadDeadline(hdrDeadline); http.ReadRequest
        SetReadDeadline(wholeReqDeadline)             -- i.e. the deadline is CLEARED when ReadTimeout is unset
    `idleTimeout()` = IdleTimeout, else ReadTimeout;  `readHeaderTimeout()` = ReadHeaderTimeout, else
    ReadTimeout (`proxy.go`).  While the round trip to the origin is in progress nothing reads the client
    socket, so whatever read deadline is armed cannot fire; `WriteTimeout` covers only the writing of the
    response.  Hence: no limit applies while the proxy waits for the origin.
  * `writeResponse`: `SetWriteDeadline(now + WriteTimeout)` is its FIRST statement (the instant `writeStart`:
    the origin's response head — or the dialled CONNECT target, or the proxy's own error response — is at
    hand) and the deadline is lifted (`SetWriteDeadline(zero)`) when it returns.  It is ONE absolute instant
    for the whole response: neither bytes the client reads nor bytes the origin delivers extend it, so a
    response that has not been relayed completely `WriteTimeout` after `writeStart` — because the client
    does not read it, or because the origin's BODY is slower than that — is abandoned and the connection
    closed.  Nothing arms a write deadline anywhere else: not `readRequest` (net/http's discipline, under
    which the clock would run during the round trip), not the dial of a CONNECT target.
  * `tunnel` (a CONNECT answered 2xx by the target side, a `101 Switching Protocols`): the response head is
    written by `writeResponse` (write deadline armed and lifted as for every response), then
    `SetReadDeadline(zero)` clears whatever `readRequest` left armed for the request that opened the tunnel
    (the whole-request deadline `t0 + ReadTimeout`), then `bicopy` relays both ways until a peer ends the
    tunnel.  No deadline of any kind is armed on a tunnel: the request limits do not apply to tunnelled
    traffic.  (Before the repair of F46 the read deadline was not cleared: every tunnel was cut
    `ReadTimeout` after the first byte of the request that opened it — at once when the dial had taken
    longer than that.)
  * `maybeHandshakeTLS` (listener TLS, inside the per-connection goroutine): `HandshakeContext` under
    `TLSHandshakeTimeout`, counted from the start of `handleLoop`.
  * `handleMITM`: after the `200` to CONNECT the idle deadline is armed anew (`now + idleTimeout()`, as in
    `readRequest`), then `Peek(1)` for the first tunnel byte; on that byte the read deadline is cleared and
    `HandshakeContext` runs under `MITMTLSHandshakeTimeout` (= the same configured HandshakeTimeout) counted
    from the first tunnel byte.  (Before the repair of F32 the peek ran under the deadline the CONNECT
    request had left armed — none unless ReadTimeout is set — and a silent client was never closed.)
  * `proxyproto/net.go readHeaderContext`: the PROXY header must be complete `ReadHeaderTimeout` after the
    FIRST USE of the connection; bytes of an incomplete header do not extend it; on expiry the socket is
    closed.  Timeout 0 = wait for ever.
  * `internal/martian/proxy.go Serve`: one sequential loop: `Accept`; `go handleLoop(conn)`.  Nothing in the
    loop uses the connection (`net.go Listener.Accept` only wraps it: conntrack, `tls.Server`), so neither
    the stacking nor the limits nor anything a peer sends enters the loop.
  * `handleLoop` (the connection's own goroutine) begins with `log.Debug(…, conn.RemoteAddr())`; Go
    evaluates the argument whatever the log level.  On a PROXY-protocol listener that call is the first use
    of the connection: it blocks until the header has been read or has timed out, i.e. the header wait is
    the first phase of the connection's own process and its limit counts from the start of the goroutine;
    `maybeHandshakeTLS` / the first `readRequest` follow once it returned.  (Before the repair of F8 the
    log line stood in the accept loop of `Serve`, which therefore waited for the header of every
    connection before accepting the next one.)
-/
import FwdVerif.Lib.Wire

namespace FwdVerif
namespace C15

/-- configured limits in milliseconds; `0` = not set -/
structure Limits where
  idle       : Nat   -- HTTPServerConfig.IdleTimeout
  readHeader : Nat   -- HTTPServerConfig.ReadHeaderTimeout
  read       : Nat   -- HTTPServerConfig.ReadTimeout
  tls        : Nat   -- TLSServerConfig.HandshakeTimeout (listener handshake and MITM handshake)
  proxyHdr   : Nat   -- ProxyProtocolConfig.ReadHeaderTimeout
  write      : Nat   -- HTTPServerConfig.WriteTimeout
deriving DecidableEq, Repr

/-- listener stacking (net.go `Listener.Listen/Accept`: tcp → PROXY protocol → conntrack → TLS) -/
structure Stacking where
  proxy : Bool   -- ProxyProtocolConfig ≠ nil
  tls   : Bool   -- Protocol = https
  mitm  : Bool   -- MITM configured (CONNECT is answered locally and the tunnel is intercepted)
deriving DecidableEq, Repr

inductive Phase
  | proxyHeader | tlsHandshake | idle | header | body | mitmPeek | mitmHandshake | waitingForOrigin
  | writing   -- `writeResponse` is relaying the response: from `writeStart` until the last byte is flushed
  | tunnel    -- `bicopy`: CONNECT / upgrade tunnel, until a peer ends it
deriving DecidableEq, Repr

/-- martian `idleTimeout()` -/
def idleLimit (L : Limits) : Nat := if L.idle > 0 then L.idle else L.read

/-- martian `readHeaderTimeout()` -/
def headerLimit (L : Limits) : Nat := if L.readHeader > 0 then L.readHeader else L.read

/-- the limit that governs a phase (`0` = none) -/
def limitOf (L : Limits) : Phase → Nat
  | .proxyHeader => L.proxyHdr
  | .tlsHandshake => L.tls
  | .idle => idleLimit L
  | .header => headerLimit L
  | .body => L.read
  | .mitmPeek => idleLimit L
  | .mitmHandshake => L.tls
  | .waitingForOrigin => 0
  | .writing => L.write
  | .tunnel => 0

/-- `now.Add(d)` when `d > 0`, the zero time (no deadline) otherwise -/
def dl (d s : Nat) : Option Nat := if d > 0 then some (s + d) else none

/-- one client connection: the phase it is in, the instant its deadline counts from and the absolute
    instant at which a pending read / handshake is abandoned and the connection closed -/
structure Conn where
  phase    : Phase
  anchor   : Nat
  deadline : Option Nat
deriving DecidableEq, Repr

def enter (L : Limits) (p : Phase) (t : Nat) : Conn := ⟨p, t, dl (limitOf L p) t⟩

/-- the state of a connection at the instant its goroutine (`handleLoop`) starts -/
def accepted (S : Stacking) (L : Limits) (t : Nat) : Conn :=
  if S.proxy then enter L .proxyHeader t
  else if S.tls then enter L .tlsHandshake t
  else enter L .idle t

inductive ReqKind
  | noBody        -- request without body (waits for the origin next)
  | withBody      -- request with a body still to be read
  | connectMitm   -- CONNECT that is intercepted (200 written locally, then the tunnel is peeked)
deriving DecidableEq, Repr

/-- what the peers do -/
inductive Ev
  | data                -- bytes arrived that do not complete the unit the phase waits for
  | complete            -- the unit is complete: PROXY header / handshake / request body / the response
                        -- of the origin has been relayed
  | head (k : ReqKind)  -- the request head is complete
  | respStart           -- the origin's response head (the dialled tunnel, an error response) is at hand:
                        -- `writeResponse` is entered — the instant `writeStart`
  | tunnelUp            -- the 2xx to CONNECT / the 101 has been written: `bicopy` begins
deriving DecidableEq, Repr

/-- after `http.ReadRequest` returned at `t`: the deadline becomes `wholeReqDeadline` (anchored at the first
    byte `t0`, which is the header phase's anchor); an intercepted CONNECT is answered at once and
    `handleMITM` arms the idle deadline anew for the first tunnel byte -/
def afterHead (L : Limits) (c : Conn) (t : Nat) : ReqKind → Conn
  | .noBody => ⟨.waitingForOrigin, c.anchor, none⟩
  | .withBody => ⟨.body, c.anchor, dl L.read c.anchor⟩
  | .connectMitm => enter L .mitmPeek t

/-- transition on an event observed at `t` (events that make no sense in a phase are ignored) -/
def next (S : Stacking) (L : Limits) (c : Conn) (t : Nat) (e : Ev) : Conn :=
  match c.phase, e with
  | .proxyHeader, .complete => if S.tls then enter L .tlsHandshake t else enter L .idle t
  | .tlsHandshake, .complete => enter L .idle t
  | .idle, .data => enter L .header t
  | .idle, .head k => afterHead L (enter L .header t) t k
  | .header, .head k => afterHead L c t k
  | .body, .complete => ⟨.waitingForOrigin, c.anchor, none⟩
  | .mitmPeek, .data => enter L .mitmHandshake t
  | .mitmHandshake, .complete => enter L .idle t
  | .waitingForOrigin, .complete => enter L .idle t
  | .waitingForOrigin, .respStart => enter L .writing t
  | .writing, .complete => enter L .idle t
  | .waitingForOrigin, .tunnelUp => enter L .tunnel t
  | .writing, .tunnelUp => enter L .tunnel t
  | _, _ => c

inductive Outcome
  | closed (t : Nat) (p : Phase) (anchor : Nat)   -- closed by the proxy at `t`, stalled in phase `p`
  | stays (c : Conn)                              -- still open, in state `c`, with no deadline armed
deriving DecidableEq, Repr

/-- Run a connection over a script of timed events; after the last event the peers do nothing more.
    An event that lies before the instant the current phase began (bytes already waiting in the socket
    buffer) is seen at that instant. -/
def run (S : Stacking) (L : Limits) : Conn → List (Nat × Ev) → Outcome
  | c, [] =>
    match c.deadline with
    | some d => .closed d c.phase c.anchor
    | none => .stays c
  | c, (t, e) :: rest =>
    match c.deadline with
    | some d => if d ≤ max t c.anchor then .closed d c.phase c.anchor
                else run S L (next S L c (max t c.anchor) e) rest
    | none => run S L (next S L c (max t c.anchor) e) rest

/-- events that are no progress in a phase: stray bytes of an incomplete PROXY header, handshake record,
    request head or body.  In `idle` and `mitmPeek` the very first byte is progress. -/
def noProgress (p : Phase) (e : Ev) : Bool :=
  e == .data && p != .idle && p != .mitmPeek

/-! ## The deadline set of the client socket -/

/-- the timers that can close a client connection -/
inductive Timer
  | read        -- `SetReadDeadline`: idle wait, request head, whole request, first tunnel byte; PROXY header
  | handshake   -- the context of the listener's or the MITM handshake
  | write       -- `SetWriteDeadline`
deriving DecidableEq, Repr

/-- the operation the proxy has pending on the client socket in a phase, named by the timer that bounds
    it; `none` = the proxy does nothing with the client socket (it waits for the origin).  A deadline
    can only close the connection while an operation of its kind is pending. -/
def timerOf : Phase → Option Timer
  | .proxyHeader | .idle | .header | .body | .mitmPeek => some .read
  | .tlsHandshake | .mitmHandshake => some .handshake
  | .writing => some .write
  | .waitingForOrigin | .tunnel => none

/-- the instant at which timer `k` closes the connection in state `c` (`none` = that timer cannot) -/
def armed (c : Conn) (k : Timer) : Option Nat :=
  if timerOf c.phase = some k then c.deadline else none

/-- NOT the code any more (F46, repaired): the state in which `tunnel` began before the read deadline was
    cleared — the whole-request deadline of the request that opened the tunnel (anchored at its first
    byte, the anchor of `waitingForOrigin`) stays armed while `bicopy` reads the client socket -/
def tunnelInherited (L : Limits) (c : Conn) : Conn := ⟨.tunnel, c.anchor, dl L.read c.anchor⟩

/-! ## A variant that is NOT the code: the write deadline armed when the request has been read

`SetWriteDeadline(now + WriteTimeout)` at the end of `readRequest` (net/http arms its write deadline
there: "reset whenever a new request's header is read") and lifted only after `writeResponse`.  The clock
then runs during the round trip to the origin / the dial of the CONNECT target; `writeResponse` writes under
whatever is left of it, and when nothing is left the first write fails and the connection is closed at the
very instant the origin answers.  `Theorems/C15.lean` refutes this variant by a kernel-checked witness. -/

/-- state of the variant: the connection as before and the write deadline armed on its socket -/
structure VConn where
  conn : Conn
  wd   : Option Nat
deriving DecidableEq, Repr

def nextV (S : Stacking) (L : Limits) (v : VConn) (t : Nat) (e : Ev) : VConn :=
  let c' := next S L v.conn t e
  match v.conn.phase, e with
  | .idle, .head .connectMitm | .header, .head .connectMitm => ⟨c', none⟩   -- the 200 is written at once
  | .idle, .head _ | .header, .head _ => ⟨c', dl L.write t⟩                 -- end of `readRequest`
  | .waitingForOrigin, .respStart => ⟨{ c' with deadline := v.wd }, v.wd⟩   -- not armed anew
  | .waitingForOrigin, .complete | .writing, .complete => ⟨c', none⟩        -- lifted after `writeResponse`
  | _, _ => ⟨c', v.wd⟩

/-- the proxy starts writing to the client at `t` although the write deadline has expired -/
def writesTooLate (v : VConn) (t : Nat) (e : Ev) : Bool :=
  v.conn.phase == .waitingForOrigin && (e == .respStart || e == .complete) &&
    (match v.wd with | some d => decide (d ≤ t) | none => false)

/-- `run` for the variant: as `run`, and a response that is at hand after the write deadline expired
    closes the connection at that instant (the flush fails, nothing reaches the client) -/
def runV (S : Stacking) (L : Limits) : VConn → List (Nat × Ev) → Outcome
  | v, [] =>
    match v.conn.deadline with
    | some d => .closed d v.conn.phase v.conn.anchor
    | none => .stays v.conn
  | v, (t, e) :: rest =>
    let u := max t v.conn.anchor
    match v.conn.deadline with
    | some d => if d ≤ u then .closed d v.conn.phase v.conn.anchor
                else if writesTooLate v u e then .closed u v.conn.phase v.conn.anchor
                else runV S L (nextV S L v u e) rest
    | none => if writesTooLate v u e then .closed u v.conn.phase v.conn.anchor
              else runV S L (nextV S L v u e) rest

/-! ## The accept loop -/

/-- a peer: when its TCP connection is established (it enters the accept queue) and what it sends -/
structure Peer where
  arrive : Nat
  script : List (Nat × Ev)
deriving DecidableEq, Repr

/-- `Serve` on a listener of stacking `S` with limits `L`: sequential, `Accept; go handleLoop(conn)`.
    `free` = instant at which the loop next calls `Accept`.  Per peer in queue order: (instant `Accept`
    returned it, instant its goroutine was started).  The loop never uses the connection, so `S`, `L` and
    the peers' scripts do not occur in the body. -/
def serve (S : Stacking) (L : Limits) : Nat → List Peer → List (Nat × Nat)
  | _, [] => []
  | free, p :: ps =>
    let a := max free p.arrive
    (a, a) :: serve S L a ps

/-- service start (the connection has its own goroutine) of every peer -/
def starts (S : Stacking) (L : Limits) (free : Nat) (ps : List Peer) : List Nat :=
  (serve S L free ps).map (·.2)

/-- what happens to the `k`-th peer (`none` = there is no such peer): its own process starts with the
    first use of the connection (on a PROXY listener: the header wait) at the instant its goroutine starts -/
def outcomeOf (S : Stacking) (L : Limits) (free : Nat) (ps : List Peer) (k : Nat) : Option Outcome :=
  match (serve S L free ps)[k]?, ps[k]? with
  | some (_, s), some p => some (run S L (accepted S L s) p.script)
  | _, _ => none

/-- the accept instants as a function of the arrival instants alone -/
def runningMax : Nat → List Nat → List Nat
  | _, [] => []
  | free, a :: as => max free a :: runningMax (max free a) as

/-! ## Decidable forms of the property's clauses on what the implementation did -/

/-- closed `elapsed` ms after the phase began, limit `limit`: not earlier than the limit (up to clock
    granularity `eps`) and not later than `limit + slack` -/
def holdsClose (limit elapsed eps slack : Nat) : Bool :=
  limit ≤ elapsed + eps && elapsed ≤ limit + slack

def closeVerdict (limit elapsed eps slack : Nat) : String :=
  if ¬ (limit ≤ elapsed + eps) then "false early"
  else if ¬ (elapsed ≤ limit + slack) then "false late"
  else "true"

end C15
end FwdVerif
