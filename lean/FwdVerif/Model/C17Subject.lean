/-
  C17 — the SUBJECT of a domain rule list: which string the proxy hands to the matcher.

  `ruleset.RegexpMatcher` (Model/C17.lean) decides `Match(s)` for a string `s`; the property speaks
  about the request's HOST.  The link between the two is in `http_proxy.go`, at three call sites:

      denyDomains    : r.Match(req.URL.Hostname())                          ⇒ 403
      directDomains  : hp.config.DirectDomains.Match(req.URL.Hostname())    ⇒ no upstream proxy
      MITMFilter     : hp.config.MITMDomains.Match(req.URL.Hostname())      ⇒ CONNECT intercepted

  `req.URL.Host` is the request's authority as `http.ReadRequest` left it (absolute-form: the
  URL's authority without userinfo, `%25` of a zone unescaped; CONNECT: the request target;
  origin-form: martian copies the Host header into it).  `URL.Hostname()` cuts a `:digits*` suffix
  after the last colon and then one pair of enclosing brackets — modelled by `C07.urlHostname`,
  which is reused here (one model of the library function, validated by C07 and, through the
  matcher arguments recorded on every run, by C17).  Case is left as given: none of the three call
  sites lower-cases.

  `Target` is the structured view of a well-formed authority (host, written in brackets or not,
  optional port); `subject` is what the code feeds the matcher for it.  `splitFallback` is NOT what
  the code does: it is the plausible alternative extraction (`net.SplitHostPort`, raw authority
  when that fails) kept for the kernel-checked witnesses that tell the two apart.  Core-only.
-/
import FwdVerif.Model.C17
import FwdVerif.Model.C07

namespace FwdVerif
namespace C17

open Ascii

/-! ### Request targets -/

/-- the authority of a request target, taken apart: `host`, `[host]`, `host:port`, `[host]:port`
    (`port = some []` is the authority with an empty port, `host:`) -/
structure Target where
  host : Bytes
  bracketed : Bool := false
  port : Option Bytes := none
  deriving Repr, DecidableEq

/-- the text `req.URL.Host` holds for a target -/
def Target.authority (t : Target) : Bytes :=
  (if t.bracketed then 91 :: (t.host ++ [93]) else t.host) ++
    (match t.port with
     | none => []
     | some p => 58 :: p)

/-! ### Well-formed targets (RFC 3986 `host [ ":" port ]`, byte classes)

    reg-name / IPv4address : unreserved and sub-delims — in particular no `:` `[` `]` `@` `/` `%`
    IP-literal             : `[` IPv6address [ `%` zone ] `]`; the address is hex digits, `:` and
                             `.` (embedded IPv4) with at least one `:`, the zone unreserved bytes
    port                   : digits (possibly none) -/

def isUnreserved (c : UInt8) : Bool :=
  isAlpha c || isDigit c || c == 45 || c == 46 || c == 95 || c == 126

def isSubDelim (c : UInt8) : Bool :=
  c == 33 || c == 36 || c == 38 || c == 39 || c == 40 || c == 41 || c == 42 || c == 43 ||
  c == 44 || c == 59 || c == 61

/-- a byte of a registered name or a dotted quad -/
def isRegNameByte (c : UInt8) : Bool := isUnreserved c || isSubDelim c

/-- a byte of the address part of an IPv6 literal -/
def isV6Byte (c : UInt8) : Bool := C07.isHex c || c == 58 || c == 46

/-- what stands between the brackets: address, then optionally `%` and a non-empty zone -/
def v6Literal (h : Bytes) : Bool :=
  let addr := h.takeWhile (· != 37)
  let rest := h.dropWhile (· != 37)
  !addr.isEmpty && addr.all isV6Byte && addr.contains 58 &&
    (match rest with
     | [] => true
     | _ :: zone => !zone.isEmpty && zone.all isUnreserved)

def regName (h : Bytes) : Bool := !h.isEmpty && h.all isRegNameByte

def Target.wf (t : Target) : Bool :=
  (if t.bracketed then v6Literal t.host else regName t.host) &&
    (match t.port with
     | none => true
     | some p => p.all isDigit)

/-- the target is well-formed -/
def WF (t : Target) : Prop := t.wf = true

instance (t : Target) : Decidable (WF t) := by unfold WF; infer_instance

/-! ### What the code feeds the matcher -/

/-- `req.URL.Hostname()` of an authority -/
def subjectOf (authority : Bytes) : Bytes := C07.urlHostname authority

/-- the subject of a target: the string the three call sites hand to their list -/
def subject (t : Target) : Bytes := subjectOf t.authority

/-- the three call sites of `http_proxy.go` -/
inductive Site where
  | deny | direct | mitm
  deriving DecidableEq, Repr

/-- the argument of `Match` at a call site, for a request whose `URL.Host` is `authority`: all
    three sites take `req.URL.Hostname()` -/
def Site.subject (_ : Site) (authority : Bytes) : Bytes := subjectOf authority

/-- the verdict of a list at a call site -/
def siteVerdict (s : Site) (m : Matcher) (authority : Bytes) : Bool := m.matches (s.subject authority)

/-- the verdict of a list on a target -/
def listVerdict (m : Matcher) (t : Target) : Bool := m.matches (subject t)

/-- the lists of a proxy that has an upstream proxy and MITM configured; `none` = flag not given -/
structure Lists where
  deny : Option Matcher := none
  direct : Option Matcher := none
  mitm : Option Matcher := none

/-- what becomes of a request as far as the three lists decide it -/
inductive Outcome where
  | denied        -- 403 by `denyDomains` (middleware stack, before anything is dialled)
  | intercepted   -- CONNECT answered by the proxy itself, TLS terminated with a generated certificate
  | direct        -- sent / tunnelled to the target itself although an upstream proxy is configured
  | upstream      -- sent / tunnelled through the upstream proxy
  deriving DecidableEq, Repr

def optMatch (m : Option Matcher) (dflt : Bool) (s : Bytes) : Bool :=
  match m with
  | none => dflt
  | some m => m.matches s

/-- order of evaluation in the code: request modifiers (deny) first; a CONNECT then asks
    `shouldMITM` (no filter = every CONNECT); only a request that is sent on asks the proxy
    function, which `directDomains` wraps -/
def outcome (L : Lists) (connect : Bool) (authority : Bytes) : Outcome :=
  if optMatch L.deny false (Site.deny.subject authority) then .denied
  else if connect && optMatch L.mitm true (Site.mitm.subject authority) then .intercepted
  else if optMatch L.direct false (Site.direct.subject authority) then .direct
  else .upstream

/-! ### NOT the code: extraction by `net.SplitHostPort` with the raw authority as fall-back -/

/-- `host, _, err := net.SplitHostPort(a); if err != nil { return a }; return host` -/
def splitFallback (authority : Bytes) : Bytes :=
  match C07.splitHostPort authority with
  | some (h, _) => h
  | none => authority

end C17
end FwdVerif
