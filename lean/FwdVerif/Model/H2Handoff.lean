/-
  C10 — the entry path of the HTTP/2 relay: `proxy_conn.go` `readRequest` / `handleMITM` / `write`
  and the deadlines they arm on the client socket.  Core-only.

  The relay (`h2.Config.Proxy`) never touches a deadline: it reads the client connection with
  `Framer.ReadFrame` for as long as the connection lives.  A deadline on a `net.Conn` is an absolute
  time; traffic does not move it.  So whatever `handleMITM` leaves armed when it hands the connection
  over ends one direction of the relay at that time, however busy the connection is.

  Times are milliseconds on one clock; a timeout of 0 is "not set"; a deadline `none` is the zero
  `time.Time` (no deadline).
-/
namespace FwdVerif
namespace H2

/-- the HTTP/1 timeouts of `martian.Proxy` -/
structure Timeouts where
  idle : Nat := 0
  read : Nat := 0
  readHeader : Nat := 0
  write : Nat := 0
  mitmHandshake : Nat := 0
  deriving DecidableEq, Repr

/-- `Proxy.idleTimeout()`: IdleTimeout, or ReadTimeout when that is zero -/
def Timeouts.idleEff (t : Timeouts) : Nat := if t.idle ≠ 0 then t.idle else t.read

/-- `Proxy.readHeaderTimeout()`: ReadHeaderTimeout, or ReadTimeout when that is zero -/
def Timeouts.readHeaderEff (t : Timeouts) : Nat := if t.readHeader ≠ 0 then t.readHeader else t.read

/-- deadlines armed on the client socket -/
structure Deadlines where
  rd : Option Nat := none
  wr : Option Nat := none
  deriving DecidableEq, Repr

/-- `time.Now().Add(d)` when `d > 0`, the zero time otherwise -/
def arm (now d : Nat) : Option Nat := if d = 0 then none else some (now + d)

/-- `readRequest`, entered at `t0`, first octet of the request at `t1`: idle deadline, `Peek(1)`,
    header deadline, `http.ReadRequest`, then the whole-request deadline when it differs -/
def readRequest (t : Timeouts) (_t0 t1 : Nat) (d : Deadlines) : Deadlines :=
  let hdr := arm t1 t.readHeaderEff
  let whole := arm t1 t.read
  { d with rd := if hdr = whole then hdr else whole }

/-- `proxyConn.write`: `SetWriteDeadline(now + WriteTimeout)` and, deferred, `SetWriteDeadline(zero)` —
    both only when WriteTimeout is set -/
def writeResponse (t : Timeouts) (d : Deadlines) : Deadlines :=
  if t.write = 0 then d else { d with wr := none }

/-- what the client does with the tunnel after the `200` -/
inductive Tunnel where
  /-- first octet is not a TLS handshake record: HTTP/1 in the clear, back to `readRequest` -/
  | plain
  /-- TLS, ALPN http/1.1 (or none): back to `readRequest` on the TLS connection -/
  | tlsHttp1
  /-- TLS, ALPN h2: `return p.MITMConfig.H2Config().Proxy(p.closeCh, tlsconn, req.URL)` -/
  | tlsH2
  deriving DecidableEq, Repr

/-- who reads the client socket next -/
inductive Reader where
  | readRequest
  | relay
  deriving DecidableEq, Repr

/-- `handleMITM` from the `200` (written at `t2`) to the point where the connection is passed on;
    the first tunnel octet arrives in time.  `condClear = false` is the code as it is: the idle
    deadline armed for the `Peek(1)` is cleared unconditionally.  `condClear = true` is the variant
    that clears it only when a MITM handshake timeout is configured ("otherwise let the idle
    deadline bound the handshake"). -/
def handleMITM (condClear : Bool) (t : Timeouts) (t2 : Nat) (d : Deadlines) (k : Tunnel) : Deadlines × Reader :=
  let d1 := writeResponse t d
  let d2 := { d1 with rd := arm t2 t.idleEff }
  let d3 := if condClear && t.mitmHandshake = 0 then d2 else { d2 with rd := none }
  -- the TLS handshake is bounded by a context (MITMTLSHandshakeTimeout), not by a deadline
  match k with
  | .tlsH2 => (d3, .relay)
  | _ => (d3, .readRequest)

/-- a connection from its first request: `CONNECT` read by `readRequest`, then `handleMITM` -/
def connectThenMITM (condClear : Bool) (t : Timeouts) (t0 t1 t2 : Nat) (k : Tunnel) : Deadlines × Reader :=
  handleMITM condClear t t2 (readRequest t t0 t1 {}) k

/-- some deadline has passed at time `at` -/
def Deadlines.firedBy (d : Deadlines) (at_ : Nat) : Bool :=
  (match d.rd with | some x => decide (x ≤ at_) | none => false) ||
  (match d.wr with | some x => decide (x ≤ at_) | none => false)

end H2
end FwdVerif
