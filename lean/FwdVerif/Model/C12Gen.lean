/-
  GENERATED — do not edit.  Written by harness/srcgen (the Prepare step of every `bin/check`
  of the property) from http_proxy_errors.go of $VERIF_REPO.  Core-only.
-/
namespace FwdVerif
namespace C12Gen

/-- one handler of `errorResponse`: the constant status codes it assigns to `code`, the non-constant
    expressions it assigns to it, the labels it assigns (`lit*` = a concatenation starting with `lit`) -/
structure HandlerFact where
  name : String
  codes : List Nat
  dynCodes : List String
  labels : List String
  deriving Repr, DecidableEq

/-- the handler list of `errorResponse`, in source order -/
def handlerFacts : List HandlerFact := [
  ⟨"handleWindowsNetError", [502], [], ["net_"]⟩,
  ⟨"handleNetError", [504, 502], [], ["net_*"]⟩,
  ⟨"handleTLSRecordHeader", [502], [], ["tls_record_header"]⟩,
  ⟨"handleTLSCertificateError", [502], [], ["tls_certificate"]⟩,
  ⟨"handleTLSECHRejectionError", [502], [], ["tls_ech_rejection"]⟩,
  ⟨"handleTLSAlertError", [502], [], ["tls_alert"]⟩,
  ⟨"handleMartianErrorStatus", [], ["martianErr.Status"], ["martian_error"]⟩,
  ⟨"handleAuthenticationError", [407], [], ["proxy_authentication"]⟩,
  ⟨"handleDenyError", [403], [], ["-"]⟩,
  ⟨"handleProhibitedError", [451], [], ["-"]⟩,
  ⟨"handleContextCancelationError", [500], [], ["request_ctx_canceled"]⟩,
  ⟨"handleStatusText", [], ["i"], ["https_status_text"]⟩,
  ⟨"handleTimeoutError", [504], [], ["timeout"]⟩,
  ⟨"handleEOFError", [502], [], ["unexpected_eof"]⟩
]

/-- `if code == 0 { … }` after the loop -/
def fallbackCode : Nat := 500
def fallbackLabel : String := "unexpected_error"

end C12Gen
end FwdVerif
