/-
  C02 — the status line of a forwarded response, byte for byte.

  `Model/Resp.lean` carries the reason phrase through as an opaque value.  This file mirrors the code
  that actually handles it, in code order:

    net/http `ReadResponse`            `strings.Cut(line, " ")`, `Status = TrimLeft(rest, " ")`, the code
                                       token is what precedes the next blank of `Status`, must be three
                                       bytes long and satisfy `strconv.Atoi` with a result ≥ 0,
                                       `ParseHTTPVersion(proto)`;  `Response.Status` keeps the CODE AND
                                       THE PHRASE ("404 Not Found")
    net/http `Response.Write`          (responses with a body)  `text = TrimPrefix(Status, Itoa(code)+" ")`,
                                       `"HTTP/%d.%d %03d %s\r\n"`; the `StatusText` branch for an empty
                                       `Status`
    martian `writeHeaderOnlyResponse`  (HEAD, 1xx, 204, 304)  the project's own copy of the same lines

  The two writers are two definitions on purpose (`responseWriteLine`, `headerOnlyLine`): the property
  needs them to agree, and a change to one of them is a change to one definition here.
  `headerOnlyLineTrimLeft` is the cutset variant (`strings.TrimLeft(text, code+" ")`) kept for the
  witness theorem.

  Core-only.
-/
import FwdVerif.Model.RespSpec

namespace FwdVerif
namespace Resp
namespace StatusLine

open Req (natToDec)

/-- `strings.Cut(s, " ")`: text before the first blank, text after it, found -/
def cutSp : Bytes → Bytes × Bytes × Bool
  | [] => ([], [], false)
  | c :: cs =>
    if c == 32 then ([], cs, true)
    else let r := cutSp cs; (c :: r.1, r.2.1, r.2.2)

/-- `strings.TrimLeft(s, " ")` -/
def trimLeftSp (s : Bytes) : Bytes := s.dropWhile (· == 32)

/-- `strings.TrimLeft(s, cutset)`: drops leading bytes as long as they occur in `cutset` -/
def trimLeftSet (s cutset : Bytes) : Bytes := s.dropWhile (fun c => cutset.contains c)

/-- `strings.TrimPrefix(s, p)` -/
def trimPrefix (s p : Bytes) : Bytes := if p.isPrefixOf s then s.drop p.length else s

def digitVal? (c : UInt8) : Option Nat :=
  if 48 ≤ c.toNat ∧ c.toNat ≤ 57 then some (c.toNat - 48) else none

/-- `strconv.Atoi` on a three-byte token followed by `ReadResponse`'s `StatusCode < 0` test: the
    accepted status code.  Atoi takes one leading sign; `-00` is 0 and passes, other negative values
    are refused. -/
def atoi3 : Bytes → Option Nat
  | [a, b, c] =>
    if a == 45 then
      match digitVal? b, digitVal? c with
      | some x, some y => if x * 10 + y = 0 then some 0 else none
      | _, _ => none
    else if a == 43 then
      match digitVal? b, digitVal? c with
      | some x, some y => some (x * 10 + y)
      | _, _ => none
    else
      match digitVal? a, digitVal? b, digitVal? c with
      | some x, some y, some z => some (x * 100 + y * 10 + z)
      | _, _, _ => none
  | _ => none

/-- `http.ParseHTTPVersion`: `HTTP/` digit `.` digit -/
def parseVersion : Bytes → Option (Nat × Nat)
  | [72, 84, 84, 80, 47, a, 46, b] =>
    match digitVal? a, digitVal? b with
    | some x, some y => some (x, y)
    | _, _ => none
  | _ => none

/-- what `ReadResponse` keeps of the status line -/
structure Read where
  major : Nat
  minor : Nat
  code : Nat                          -- `Response.StatusCode`
  status : Bytes                      -- `Response.Status`: code token, blank, phrase — as received
  deriving Repr, DecidableEq

/-- `ReadResponse` on the first line (line terminator already removed by `ReadLine`, which trims
    nothing else); `none` = "malformed HTTP response / status code / version" -/
def readStatusLine (line : Bytes) : Option Read :=
  let c := cutSp line
  if !c.2.2 then none
  else
    let status := trimLeftSp c.2.1
    let tok := (cutSp status).1
    if tok.length != 3 then none
    else match atoi3 tok with
      | none => none
      | some code =>
        match parseVersion c.1 with
        | none => none
        | some (ma, mi) => some { major := ma, minor := mi, code := code, status := status }

/-- `strconv.Itoa` of a non-negative number -/
def itoa (n : Nat) : Bytes := natToDec n

/-- `%03d` -/
def pad3 (n : Nat) : Bytes := List.replicate (3 - (itoa n).length) 48 ++ itoa n

/-- `"HTTP/%d.%d %03d %s\r\n"` -/
def formatLine (major minor code : Nat) (text : Bytes) : Bytes :=
  [72, 84, 84, 80, 47] ++ itoa major ++ [46] ++ itoa minor ++ [32] ++ pad3 code ++ [32] ++ text ++ crlf

/-- "status code " -/
def statusCodeWords : Bytes := [115, 116, 97, 116, 117, 115, 32, 99, 111, 100, 101, 32]

/-- `http.Response.Write`, status line.  `statusText` stands for `http.StatusText`. -/
def responseWriteLine (statusText : Nat → Bytes) (r : Read) : Bytes :=
  let text :=
    if r.status.isEmpty then
      let t := statusText r.code
      if t.isEmpty then statusCodeWords ++ itoa r.code else t
    else trimPrefix r.status (itoa r.code ++ [32])
  formatLine r.major r.minor r.code text

/-- martian `writeHeaderOnlyResponse`, status line -/
def headerOnlyLine (statusText : Nat → Bytes) (r : Read) : Bytes :=
  let text :=
    if r.status.isEmpty then
      let t := statusText r.code
      if t.isEmpty then statusCodeWords ++ itoa r.code else t
    else trimPrefix r.status (itoa r.code ++ [32])
  formatLine r.major r.minor r.code text

/-- the header-only writer with `strings.TrimLeft(text, code+" ")` in the place of `TrimPrefix`
    (NOT the code; the subject of `c02_status_line_cutset_witness`) -/
def headerOnlyLineTrimLeft (statusText : Nat → Bytes) (r : Read) : Bytes :=
  let text :=
    if r.status.isEmpty then
      let t := statusText r.code
      if t.isEmpty then statusCodeWords ++ itoa r.code else t
    else trimLeftSet r.status (itoa r.code ++ [32])
  formatLine r.major r.minor r.code text

/-- the status line the client is sent for the origin's status line `line`; `ho` = the response is
    written by the header-only writer (`isHeaderOnlySpec`: HEAD request, 1xx, 204, 304) -/
def clientLine (statusText : Nat → Bytes) (ho : Bool) (line : Bytes) : Option Bytes :=
  (readStatusLine line).map fun r => if ho then headerOnlyLine statusText r else responseWriteLine statusText r

/-- the origin's status line in the regular form: `HTTP/1.<minor> SP <3-digit code> SP <phrase>` -/
def originLine (minor status : Nat) (reason : Bytes) : Bytes :=
  72 :: 84 :: 84 :: 80 :: 47 :: 49 :: 46 :: digit minor :: 32 :: (dec3 status ++ 32 :: reason)

/-- … with `k` extra blanks between the version and the code -/
def originLineBlanks (k minor status : Nat) (reason : Bytes) : Bytes :=
  72 :: 84 :: 84 :: 80 :: 47 :: 49 :: 46 :: digit minor :: 32 :: (List.replicate k 32 ++ dec3 status ++ 32 :: reason)

/-- … and the form without any phrase, not even the blank: `HTTP/1.<minor> SP <code>` -/
def originLineBare (minor status : Nat) : Bytes :=
  72 :: 84 :: 84 :: 80 :: 47 :: 49 :: 46 :: digit minor :: 32 :: dec3 status

end StatusLine
end Resp
end FwdVerif
