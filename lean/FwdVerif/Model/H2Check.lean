/-
  C09 / C10 — what the harness observes, the trace acceptor and the decidable property checker.
  Core-only.

  A *step* of a trace is one frame written by one raw endpoint, followed by a barrier, together with
  everything both endpoints received before the barrier came back:

    fwdQ   frames that reached the other endpoint through the relay's queue / writer goroutine
    fwdD   frames the relay wrote to the other endpoint directly (SETTINGS, ACK, PING, GOAWAY)
    backQ  queue frames released towards the sender of the step (after its WINDOW_UPDATE / SETTINGS)
    backD  frames written directly to the sender (WINDOW_UPDATE credit)

  `accept` replays the step on the model, taking Go's map-iteration order from the order in which
  streams first appear in the observed frames (a WINDOW_UPDATE on stream 0 and a SETTINGS frame that
  names INITIAL_WINDOW_SIZE — however often — make ONE scan of the queues), and demands equality.  Equality with the model under
  *some* order means: every observed frame was the head of its stream's queue, fitted both windows
  when released, per-stream order is FIFO, and nothing that fits is left queued (maximality).

  `check` evaluates the property clauses on ops + observations alone (it never looks at the model
  state): each endpoint's own ledger of the credit it granted, its advertised MAX_FRAME_SIZE, the
  credit returned for every DATA frame, per-stream logical fidelity and order, connection-level
  frames, no stranding at quiescence, delivery at the end.
-/
import FwdVerif.Model.H2Relay

namespace FwdVerif
namespace H2

/-- payloads are lengths only in the driver -/
abbrev U := Unit

def blob (n : Nat) : List U := List.replicate n ()

/-- an observed frame plus the harness's annotation: id of the header list the receiver's own HPACK
    decoder produced for the block this frame completes (0 = none) -/
structure Obs where
  f : Frame U
  list : Nat := 0
  deriving Repr

structure Step where
  side : Side
  op : Op U
  /-- annotation: id of the header list the sender encoded (on the frame completing the block) -/
  list : Nat := 0
  fwdQ : List Obs := []
  fwdD : List Obs := []
  backQ : List Obs := []
  backD : List Obs := []
  deriving Repr

/-! ### Acceptor -/

def Frame.sidOf : Frame U → Nat
  | .data s _ _ | .headers s _ _ _ _ | .continuation s _ _ | .pushPromise s _ _ _
  | .priority s _ | .rst s _ | .windowUpdate s _ => s
  | _ => 0

/-- order of first appearance of stream ids -/
def firstSeen : List Nat → List Nat → List Nat
  | acc, [] => acc.reverse
  | acc, s :: ss => if acc.contains s then firstSeen acc ss else firstSeen (s :: acc) ss

def orderOf (obs : List Obs) : List Nat := firstSeen [] (obs.map fun o => Frame.sidOf o.f)

def wire (qs : List (QFrame U)) : List (Frame U) := qs.flatMap QFrame.send

def frameTag : Frame U → String
  | .data s e p => s!"D,{s},{Wire.ofBool e},{p.length}"
  | .headers s e h p f => s!"H,{s},{Wire.ofBool e},{Wire.ofBool h},{p.dep},{Wire.ofBool p.excl},{p.weight},{f.length}"
  | .continuation s h f => s!"C,{s},{Wire.ofBool h},{f.length}"
  | .pushPromise s p h f => s!"P,{s},{p},{Wire.ofBool h},{f.length}"
  | .priority s p => s!"Y,{s},{p.dep},{Wire.ofBool p.excl},{p.weight}"
  | .rst s c => s!"R,{s},{c}"
  | .settings kvs => "S" ++ String.join (kvs.map fun kv => s!",{kv.1},{kv.2}")
  | .settingsAck => "A"
  | .ping a d => s!"G,{Wire.ofBool a},{d}"
  | .goAway l c d => s!"Z,{l},{c},{d.length}"
  | .windowUpdate s i => s!"W,{s},{i}"

def framesTag (fs : List (Frame U)) : String :=
  if fs.isEmpty then "~" else ";".intercalate (fs.map frameTag)

inductive Verdict where
  | ok (r : Relay U)
  | reject (part : String) (expected got : String)

/-- the iteration orders the acceptor replays a step with -/
def ordFor (st : Step) : Nat → List Nat :=
  match st.op with
  -- one scan at most, on the opposite relay: `updateWindow` on stream 0, `applySettings` for the
  -- INITIAL_WINDOW_SIZE value in force
  | .windowUpdate _ _ | .settings _ => fun _ => orderOf st.backQ
  | _ => fun _ => orderOf st.fwdQ

/-- one step of the acceptor -/
def accept (r : Relay U) (st : Step) : Verdict :=
  let x := r.step st.side (ordFor st) st.op
  let out := x.2
  let fwd := wire out.fwd
  let back := wire out.back
  if out.panic then .reject "panic" "model: nil continuationState dereferenced" ""
  else if fwd != st.fwdQ.map (·.f) then .reject "fwdQ" (framesTag fwd) (framesTag (st.fwdQ.map (·.f)))
  else if back != st.backQ.map (·.f) then .reject "backQ" (framesTag back) (framesTag (st.backQ.map (·.f)))
  else if out.fwdDirect != st.fwdD.map (·.f) then
    .reject "fwdD" (framesTag out.fwdDirect) (framesTag (st.fwdD.map (·.f)))
  else if out.backDirect != st.backD.map (·.f) then
    .reject "backD" (framesTag out.backDirect) (framesTag (st.backD.map (·.f)))
  else .ok x.1

/-- header-block sequence numbers in emission order, per direction (F21 exposure) -/
def seqsOf (qs : List (QFrame U)) : List Nat :=
  qs.filterMap fun q => match q with
    | .headers _ _ _ _ n => some n
    | .push _ _ _ n => some n
    | _ => none

def sortedNat : List Nat → Bool
  | a :: b :: t => a < b && sortedNat (b :: t)
  | _ => true

structure AccState where
  r : Relay U := {}
  /-- encode sequence numbers of emitted header blocks, client→server and server→client -/
  csSeqs : List Nat := []
  scSeqs : List Nat := []
  /-- some block was queued (not released by the step that encoded it) -/
  queuedHdr : Bool := false

def AccState.push (a : AccState) (st : Step) (r' : Relay U) (out : Out U) : AccState :=
  let toServer := match st.side with | .client => out.fwd | .server => out.back
  let toClient := match st.side with | .client => out.back | .server => out.fwd
  { r := r', csSeqs := a.csSeqs ++ seqsOf toServer, scSeqs := a.scSeqs ++ seqsOf toClient,
    queuedHdr := a.queuedHdr }

/-- run the acceptor over a trace: `Except (index, part, expected, got)` -/
def acceptAll : AccState → Nat → List Step → Except (Nat × String × String × String) AccState
  | a, _, [] => .ok a
  | a, i, st :: rest =>
    match accept a.r st with
    | .reject p e g => .error (i, p, e, g)
    | .ok r' =>
      -- recompute the output for the bookkeeping of sequence numbers (cheap)
      let out := (a.r.step st.side (ordFor st) st.op).2
      acceptAll (a.push st r' out) (i + 1) rest

/-! ### Property checker (ops and observations only) -/

/-- a logical element of a stream, as the sender emitted it -/
inductive Elem where
  | data (len : Nat) (es : Bool) (origin : Nat)
  | hdrs (list : Nat) (es : Bool) (prio : Prio) (continued : Bool) (origin : Nat)
  | push (promised list : Nat) (origin : Nat)
  | prio (p : Prio)
  | rst (code : Nat)
  deriving DecidableEq, Repr

/-- trace step at which the sender wrote the frame completing this element -/
def Elem.origin : Elem → Option Nat
  | .data _ _ o | .hdrs _ _ _ _ o | .push _ _ o => some o
  | _ => none

/-- what one endpoint knows as the *receiver* of a direction -/
structure RecvSide where
  initWin : Int := 65535            -- its SETTINGS_INITIAL_WINDOW_SIZE
  maxFrame : Nat := 16384           -- its SETTINGS_MAX_FRAME_SIZE
  maxFrameEver : Nat := 16384
  wu : List (Nat × Nat) := []       -- Σ WINDOW_UPDATE increments it sent, per stream (0 = connection)
  got : List (Nat × Nat) := []      -- Σ DATA octets it received, per stream
  gotTotal : Nat := 0
  /-- elements sent to it and not (fully) received yet, per stream, oldest first -/
  pending : List (Nat × List Elem) := []
  broken : List Nat := []           -- streams on which matching was given up
  /-- HEADERS / PUSH_PROMISE under reassembly: (sid, is push, promised, es, prio) -/
  asm : Option (Nat × Bool × Nat × Bool × Prio) := none
  /-- connection-level frames sent to it and not received yet -/
  connPending : List (Frame U) := []
  /-- pending continued block on the sending side: (sid, is push, promised, es, prio) -/
  sendAsm : Option (Nat × Bool × Nat × Bool × Prio) := none
  deriving Repr

def alGet (m : List (Nat × Nat)) (k : Nat) : Nat :=
  match m with
  | [] => 0
  | (a, v) :: t => if a = k then v else alGet t k

def alAdd (m : List (Nat × Nat)) (k n : Nat) : List (Nat × Nat) :=
  match m with
  | [] => [(k, n)]
  | (a, v) :: t => if a = k then (a, v + n) :: t else (a, v) :: alAdd t k n

def plGet (m : List (Nat × List Elem)) (k : Nat) : List Elem :=
  match m with
  | [] => []
  | (a, v) :: t => if a = k then v else plGet t k

def plSet (m : List (Nat × List Elem)) (k : Nat) (v : List Elem) : List (Nat × List Elem) :=
  match m with
  | [] => [(k, v)]
  | (a, w) :: t => if a = k then (a, v) :: t else (a, w) :: plSet t k v

def RecvSide.win (x : RecvSide) (s : Nat) : Int := x.initWin + alGet x.wu s - alGet x.got s
def RecvSide.conn (x : RecvSide) : Int := 65535 + alGet x.wu 0 - x.gotTotal

structure Fail where
  clause : String
  step : Nat
  detail : String

def Fail.render (f : Fail) : String := s!"{f.clause}@{f.step}@{f.detail}"

structure Chk where
  cl : RecvSide := {}   -- the client as receiver (direction server→client)
  sv : RecvSide := {}   -- the server as receiver
  fails : List Fail := []

def Chk.recv (c : Chk) : Side → RecvSide
  | .client => c.cl
  | .server => c.sv

def Chk.setRecv (c : Chk) (s : Side) (x : RecvSide) : Chk :=
  match s with
  | .client => { c with cl := x }
  | .server => { c with sv := x }

def Side.other : Side → Side
  | .client => .server
  | .server => .client

def Side.tag : Side → String
  | .client => "c"
  | .server => "s"

def prioSame (a b : Prio) : Bool := a == b || (a.isZero && b.isZero)

/-- payload octets of a frame as counted against SETTINGS_MAX_FRAME_SIZE -/
def payloadSize (f : Frame U) : Nat := f.payloadLen

/-- match a received DATA frame against the pending elements of its stream -/
def consumeData : Nat → Nat → Bool → List Elem → Option (List Elem) × String
  | 0, _, _, p => (some p, "fuel")
  | fuel + 1, l, e, .data r es o :: rest =>
    if l < r then
      if e then (none, "endstream-early") else (some (.data (r - l) es o :: rest), "")
    else if l = r then
      if e = es then (some rest, "")
      else if e && !es then
        match rest with
        | .data 0 true _ :: rest' => (some rest', "")
        | _ => (none, "endstream")
      else (none, "endstream-missing")
    else
      if es then (none, "endstream-swallowed") else consumeData fuel (l - r) e rest
  | _, _, _, [] => (none, "extra")
  | _, _, _, _ => (none, "kind")

/-- record what the sender `side` emitted towards receiver state `x` -/
def noteSent (x : RecvSide) (i : Nat) (st : Step) : RecvSide :=
  let addElem (x : RecvSide) (sid : Nat) (e : Elem) : RecvSide :=
    { x with pending := plSet x.pending sid (plGet x.pending sid ++ [e]) }
  match st.op with
  | .data sid p _ es => addElem x sid (.data p.length es i)
  | .headers sid es eh prio _ _ =>
    if eh then addElem x sid (.hdrs st.list es prio false i)
    else { x with sendAsm := some (sid, false, 0, es, prio) }
  | .pushPromise sid promised eh _ _ =>
    if eh then addElem x sid (.push promised st.list i)
    else { x with sendAsm := some (sid, true, promised, false, {}) }
  | .continuation sid eh _ _ =>
    if eh then
      match x.sendAsm with
      | some (_, false, _, es, prio) => addElem { x with sendAsm := none } sid (.hdrs st.list es prio true i)
      | some (_, true, promised, _, _) => addElem { x with sendAsm := none } sid (.push promised st.list i)
      | none => x
    else x
  | .priority sid p => addElem x sid (.prio p)
  | .rst sid c => addElem x sid (.rst c)
  | .settings kvs => { x with connPending := x.connPending ++ [.settings kvs] }
  | .settingsAck => { x with connPending := x.connPending ++ [.settingsAck] }
  | .ping a d => { x with connPending := x.connPending ++ [.ping a d] }
  | .goAway l c d => { x with connPending := x.connPending ++ [.goAway l c d] }
  | .windowUpdate _ _ => x
  | .unknown _ => x

/-- record what the endpoint `x` itself advertised with this op (it is the sender of the op) -/
def noteOwn (x : RecvSide) (op : Op U) : RecvSide :=
  match op with
  | .windowUpdate s inc => { x with wu := alAdd x.wu s inc }
  | .settings kvs =>
    kvs.foldl (fun x kv =>
      if kv.1 = settingInitialWindowSize then { x with initWin := kv.2 }
      else if kv.1 = settingMaxFrameSize then
        { x with maxFrame := kv.2, maxFrameEver := max x.maxFrameEver kv.2 }
      else x) x
  | _ => x

/-- a completed logical element arrives on stream `sid` -/
def matchElem (x : RecvSide) (i : Nat) (who : String) (sid : Nat) (got : Elem) : RecvSide × List Fail :=
  if x.broken.contains sid then (x, []) else
  let giveUp (what : String) : RecvSide × List Fail :=
    ({ x with broken := sid :: x.broken }, [⟨"fidelity", i, s!"{who}:{sid}:{what}"⟩])
  -- a difference in content is reported and matching goes on; a difference in kind ends it
  let differ (rest : List Elem) (what : String) : RecvSide × List Fail :=
    ({ x with pending := plSet x.pending sid rest }, [⟨"fidelity", i, s!"{who}:{sid}:{what}"⟩])
  match plGet x.pending sid, got with
  | [], _ => giveUp "extra"
  | .hdrs l es p c _ :: rest, .hdrs l' es' p' _ _ =>
    if l ≠ l' then differ rest "list"
    else if !prioSame p p' then differ rest "prio"
    else if es ≠ es' then differ rest s!"endstream:continued={Wire.ofBool c}:sent={Wire.ofBool es}"
    else ({ x with pending := plSet x.pending sid rest }, [])
  | .push pr l _ :: rest, .push pr' l' _ =>
    if pr ≠ pr' then differ rest "promised" else if l ≠ l' then differ rest "list"
    else ({ x with pending := plSet x.pending sid rest }, [])
  | .prio p :: rest, .prio p' =>
    if p = p' then ({ x with pending := plSet x.pending sid rest }, []) else differ rest "prio"
  | .rst c :: rest, .rst c' =>
    if c = c' then ({ x with pending := plSet x.pending sid rest }, []) else differ rest "code"
  | _, _ => giveUp "kind"

/-- the receiver `x` gets one frame through the queue path -/
def recvFrame (x : RecvSide) (i : Nat) (who : String) (o : Obs) : RecvSide × List Fail :=
  let size := payloadSize o.f
  -- the frame belongs to the oldest element still expected on its stream: that tells when the
  -- sender wrote it (used by the harness to recognise frames built before a limit was lowered)
  let origin : Nat := match plGet x.pending (Frame.sidOf o.f) with
    | e :: _ => (e.origin).getD i
    | [] => i
  let fsz : List Fail :=
    if size > x.maxFrame then [⟨"frame-size", i, s!"{who}:{frameTag o.f}:limit={x.maxFrame}:size={size}:sent={origin}"⟩] else []
  -- CONTINUATION contiguity
  let framing : List Fail :=
    match x.asm, o.f with
    | some (s, _, _, _, _), .continuation s' _ _ =>
      if s = s' then [] else [⟨"framing", i, s!"{who}:continuation-on-{s'}-expected-{s}"⟩]
    | some _, f => [⟨"framing", i, s!"{who}:{frameTag f}-inside-header-block"⟩]
    | none, .continuation s' _ _ => [⟨"framing", i, s!"{who}:unexpected-continuation-on-{s'}"⟩]
    | none, _ => []
  let x := if framing.isEmpty then x else { x with asm := none }
  let (x, fs) : RecvSide × List Fail :=
    match o.f with
    | .data sid es p =>
      let l := p.length
      -- an empty DATA frame carries no flow-controlled octet: it cannot exceed any credit, also when a
      -- window is negative (RFC 7540 §6.9.1 allows it with no space available)
      let led : List Fail :=
        (if l > 0 ∧ (l : Int) > x.win sid then [⟨"ledger-stream", i, s!"{who}:{sid}:len={l}:window={x.win sid}"⟩] else []) ++
        (if l > 0 ∧ (l : Int) > x.conn then [⟨"ledger-conn", i, s!"{who}:{sid}:len={l}:window={x.conn}"⟩] else [])
      let x := { x with got := alAdd x.got sid l, gotTotal := x.gotTotal + l }
      if x.broken.contains sid then (x, led) else
      let pend := plGet x.pending sid
      match consumeData (pend.length + 1) l es pend with
      | (some rest, _) => ({ x with pending := plSet x.pending sid rest }, led)
      | (none, what) =>
        ({ x with broken := sid :: x.broken }, led ++ [⟨"fidelity", i, s!"{who}:{sid}:data-{what}"⟩])
    | .headers sid es eh prio _ =>
      if eh then matchElem x i who sid (.hdrs o.list es prio false 0)
      else ({ x with asm := some (sid, false, 0, es, prio) }, [])
    | .pushPromise sid promised eh _ =>
      if eh then matchElem x i who sid (.push promised o.list 0)
      else ({ x with asm := some (sid, true, promised, false, {}) }, [])
    | .continuation sid eh _ =>
      if eh then
        match x.asm with
        | some (_, false, _, es, prio) => matchElem { x with asm := none } i who sid (.hdrs o.list es prio true 0)
        | some (_, true, promised, _, _) => matchElem { x with asm := none } i who sid (.push promised o.list 0)
        | none => (x, [])
      else (x, [])
    | .priority sid p => matchElem x i who sid (.prio p)
    | .rst sid c => matchElem x i who sid (.rst c)
    | f => (x, [⟨"framing", i, s!"{who}:{frameTag f}-on-queue-path"⟩])
  (x, fsz ++ framing ++ fs)

def recvFrames (x : RecvSide) (i : Nat) (who : String) : List Obs → RecvSide × List Fail
  | [] => (x, [])
  | o :: os =>
    let r := recvFrame x i who o
    let r' := recvFrames r.1 i who os
    (r'.1, r.2 ++ r'.2)

/-- the receiver gets directly written frames: connection-level frames, in the sender's order -/
def recvDirect (x : RecvSide) (i : Nat) (who : String) : List Obs → RecvSide × List Fail
  | [] => (x, [])
  | o :: os =>
    match o.f with
    | .windowUpdate _ _ => recvDirect x i who os      -- credit is judged with the DATA op
    | f =>
      match x.connPending with
      | g :: rest =>
        if f = g then recvDirect { x with connPending := rest } i who os
        else
          let r := recvDirect { x with connPending := rest } i who os
          (r.1, ⟨"conn-frames", i, s!"{who}:got={frameTag f}:sent={frameTag g}"⟩ :: r.2)
      | [] =>
        let r := recvDirect x i who os
        (r.1, ⟨"conn-frames", i, s!"{who}:unsolicited={frameTag f}"⟩ :: r.2)

def wusOf (os : List Obs) : List (Nat × Nat) :=
  os.filterMap fun o => match o.f with
    | .windowUpdate s n => some (s, n)
    | _ => none

/-- stranded streams of receiver `x` at a quiescent point -/
def stranded (x : RecvSide) (i : Nat) (who : String) : List Fail :=
  x.pending.filterMap fun (sid, els) =>
    if x.broken.contains sid then none else
    match els with
    | [] => none
    | .data r _ _ :: _ =>
      let need : Int := min r x.maxFrameEver
      if x.win sid ≥ need ∧ x.conn ≥ need ∧ x.win sid ≥ 0 then
        some ⟨"strand", i, s!"{who}:{sid}:data-head:need={need}:window={x.win sid}:conn={x.conn}"⟩
      else none
    | _ :: _ =>
      if x.win sid ≥ 0 then some ⟨"strand", i, s!"{who}:{sid}:zero-cost-head:window={x.win sid}"⟩ else none

def checkStep (c : Chk) (i : Nat) (st : Step) : Chk :=
  let snd := st.side
  let rcv := st.side.other
  -- the sender's own advertisements take effect first (they are what releases frames)
  let c := c.setRecv snd (noteOwn (c.recv snd) st.op)
  let c := c.setRecv rcv (noteSent (c.recv rcv) i st)
  -- frames that reached the receiver
  let r1 := recvFrames (c.recv rcv) i (rcv.tag) st.fwdQ
  let r2 := recvDirect r1.1 i (rcv.tag) st.fwdD
  let c := c.setRecv rcv r2.1
  -- frames that reached the sender
  let r3 := recvFrames (c.recv snd) i (snd.tag) st.backQ
  let r4 := recvDirect r3.1 i (snd.tag) st.backD
  let c := c.setRecv snd r4.1
  -- credit returned to the sender
  let credit : List Fail :=
    match st.op with
    | .data sid p pad _ =>
      let L := flowLen p pad
      let want : List (Nat × Nat) := if L = 0 then [] else [(0, L), (sid, L)]
      if wusOf st.backD = want then [] else
        [⟨"credit", i, s!"{snd.tag}:{sid}:flow-controlled={L}:returned={framesTag (st.backD.map (·.f))}"⟩]
    | _ =>
      if (wusOf st.backD).isEmpty then [] else
        [⟨"credit-spurious", i, s!"{snd.tag}:{framesTag (st.backD.map (·.f))}"⟩]
  let wuFwd : List Fail :=
    if (wusOf st.fwdD).isEmpty then [] else [⟨"credit-spurious", i, s!"{rcv.tag}:{framesTag (st.fwdD.map (·.f))}"⟩]
  let str := stranded (c.recv rcv) i rcv.tag ++ stranded (c.recv snd) i snd.tag
  -- connection-level frames are written while the frame is processed: none may be outstanding
  let lost : List Fail :=
    match (c.recv rcv).connPending with
    | [] => []
    | f :: _ => [⟨"conn-frames", i, s!"{rcv.tag}:not-relayed={frameTag f}"⟩]
  let c := c.setRecv rcv { c.recv rcv with connPending := [] }
  { c with fails := c.fails ++ r1.2 ++ r2.2 ++ r3.2 ++ r4.2 ++ credit ++ wuFwd ++ str ++ lost }

def checkAll : Chk → Nat → List Step → Chk
  | c, _, [] => c
  | c, i, st :: rest => checkAll (checkStep c i st) (i + 1) rest

/-- at the end of a schedule whose epilogue opened every window: nothing may be left undelivered -/
def undelivered (x : RecvSide) (n : Nat) (who : String) : List Fail :=
  (x.pending.filterMap fun (sid, els) =>
    if els.isEmpty ∨ x.broken.contains sid then none
    else some ⟨"delivery", n, s!"{who}:{sid}:{els.length}-elements-undelivered"⟩) ++
  (match x.connPending with
   | [] => []
   | f :: _ => [⟨"conn-frames", n, s!"{who}:{x.connPending.length}-not-relayed:first={frameTag f}"⟩])

def check (final : Bool) (steps : List Step) : List Fail :=
  let c := checkAll {} 0 steps
  c.fails ++ (if final then undelivered c.cl steps.length "c" ++ undelivered c.sv steps.length "s" else [])

end H2
end FwdVerif
