/-
  C02 — specification side of the response framing theorems.

  * `serialize r chunks trailers`: the bytes the proxy's writers put on the client connection for the
    `ClientResp` that `processResponse` describes (status line, field lines, blank line, body as
    `r.framing` says).  `chunks` is the body cut into the (non-empty) pieces the chunked writer
    happens to emit; for the other framings only `chunks.flatten` matters.
  * `parseResponse reqMethod`: an HTTP/1.x response parser written from RFC 7230 §3 / §3.3.3 / §4.1,
    independent of the proxy model: it looks at nothing but the bytes and the request method.
  * `parseSeq`: a client reading several responses from one connection.
  * `connBytes`: what a connection carries for a list of exchanges (nothing after a response that
    closes the connection).

  Field names are written in lower case (the model's view is case-normalised; HTTP field names are
  case-insensitive and the parser lower-cases what it reads).

  Core-only.
-/
import FwdVerif.Model.Resp

namespace FwdVerif
namespace Resp

open Ascii
open Req (trimOWS splitComma)

/-! ### writer -/

def crlf : Bytes := [13, 10]

def digit (n : Nat) : UInt8 := UInt8.ofNat (48 + n % 10)

/-- `%03d` of a status code -/
def dec3 (n : Nat) : Bytes := [digit (n / 100), digit (n / 10), digit n]

/-- `HTTP/1.<minor> SP <status> SP <reason> CRLF` -/
def statusLine (minor status : Nat) (reason : Bytes) : Bytes :=
  72 :: 84 :: 84 :: 80 :: 47 :: 49 :: 46 :: digit minor :: 32 ::
    digit (status / 100) :: digit (status / 10) :: digit status :: 32 :: (reason ++ crlf)

/-- `name: value CRLF` -/
def fieldLine (n v : Bytes) : Bytes := n ++ 58 :: 32 :: (v ++ crlf)

/-- one line per value, in order -/
def flatFields (fs : List (Bytes × List Bytes)) : List (Bytes × Bytes) :=
  fs.flatMap fun e => e.2.map fun v => (e.1, v)

def fieldLines (fs : List (Bytes × Bytes)) : Bytes :=
  fs.flatMap fun f => fieldLine f.1 f.2

def hexDigitByte (d : Nat) : UInt8 := if d < 10 then UInt8.ofNat (48 + d) else UInt8.ofNat (87 + d)

def hexAux : Nat → Nat → Bytes → Bytes
  | 0, _, acc => acc
  | f + 1, n, acc =>
    if n < 16 then hexDigitByte n :: acc else hexAux f (n / 16) (hexDigitByte (n % 16) :: acc)

/-- `%x` -/
def hexNat (n : Nat) : Bytes := hexAux (n + 1) n []

/-- `<size in hex> CRLF <data> CRLF` -/
def encodeChunk (c : Bytes) : Bytes := hexNat c.length ++ crlf ++ c ++ crlf

/-- chunks, last-chunk, trailer section, CRLF (RFC 7230 §4.1) -/
def encodeChunked (chunks : List Bytes) (trailers : List (Bytes × Bytes)) : Bytes :=
  chunks.flatMap encodeChunk ++ 48 :: crlf ++ fieldLines trailers ++ crlf

/-- status line and field lines, without the terminating blank line -/
def headBytes (r : ClientResp) : Bytes :=
  statusLine r.minor r.status r.reason ++ fieldLines (flatFields r.fields)

/-- the bytes on the client connection for one response -/
def serialize (r : ClientResp) (chunks : List Bytes) (trailers : List (Bytes × Bytes)) : Bytes :=
  match r.framing with
  | .none => headBytes r ++ crlf
  | .cl _ => headBytes r ++ crlf ++ chunks.flatten
  | .chunked _ => headBytes r ++ crlf ++ encodeChunked chunks trailers
  | .eof => headBytes r ++ crlf ++ chunks.flatten           -- then the connection ends

/-- the body bytes a response carries on the wire -/
def wireBody (r : ClientResp) (chunks : List Bytes) : Bytes :=
  match r.framing with
  | .none => []
  | _ => chunks.flatten

/-- the body is sent in the chunked transfer coding -/
def isChunked : Framing → Prop
  | .chunked _ => True
  | _ => False

instance (f : Framing) : Decidable (isChunked f) := by
  cases f <;> unfold isChunked <;> exact inferInstance

def wireTrailers (r : ClientResp) (trailers : List (Bytes × Bytes)) : List (Bytes × Bytes) :=
  match r.framing with
  | .chunked _ => trailers
  | _ => []

/-! ### reader (RFC 7230) -/

structure ParsedResp where
  minor : Nat
  status : Nat
  reason : Bytes
  fields : List (Bytes × Bytes)       -- lower-case name, OWS-trimmed value, wire order
  body : Bytes
  trailers : List (Bytes × Bytes)
  deriving DecidableEq, Repr

/-- split at the first CRLF -/
def splitLine : Bytes → Option (Bytes × Bytes)
  | [] => none
  | [_] => none
  | a :: b :: rest =>
    if a == 13 && b == 10 then some ([], rest)
    else match splitLine (b :: rest) with
      | some (l, r) => some (a :: l, r)
      | none => none

/-- `HTTP/1.<d> SP <ddd> [SP reason]` → (minor, status, reason) -/
def parseStatusLine (l : Bytes) : Option (Nat × Nat × Bytes) :=
  if l.take 7 != [72, 84, 84, 80, 47, 49, 46] then none else
  match l.drop 7 with
  | m :: sp :: a :: b :: c :: rest =>
    if !(isDigit m && sp == 32 && isDigit a && isDigit b && isDigit c) then none else
    let status := (a.toNat - 48) * 100 + (b.toNat - 48) * 10 + (c.toNat - 48)
    match rest with
    | [] => some (m.toNat - 48, status, [])
    | sp2 :: reason => if sp2 == 32 then some (m.toNat - 48, status, reason) else none
  | _ => none

/-- `field-name ":" OWS field-value OWS`; the name must be a non-empty token (no white space before
    the colon, RFC 7230 §3.2.4) -/
def parseFieldLine (l : Bytes) : Option (Bytes × Bytes) :=
  let name := l.takeWhile (fun c => c != 58)
  if name.isEmpty || !name.all isTokenByte then none else
  match l.drop name.length with
  | _ :: v => some (lower name, trimOWS v)
  | [] => none

/-- field lines up to and including the blank line -/
def parseFieldsAux : Nat → Bytes → Option (List (Bytes × Bytes) × Bytes)
  | 0, _ => none
  | fuel + 1, inp =>
    match splitLine inp with
    | none => none
    | some (l, rest) =>
      if l.isEmpty then some ([], rest) else
      match parseFieldLine l with
      | none => none
      | some f =>
        match parseFieldsAux fuel rest with
        | none => none
        | some (fs, rest') => some (f :: fs, rest')

def parseFields (inp : Bytes) : Option (List (Bytes × Bytes) × Bytes) :=
  parseFieldsAux (inp.length + 1) inp

def fieldValues (fs : List (Bytes × Bytes)) (n : Bytes) : List Bytes :=
  (fs.filter fun f => f.1 == n).map (·.2)

def parseDec (v : Bytes) : Option Nat :=
  if v.isEmpty || !v.all isDigit then none
  else some (v.foldl (fun a c => a * 10 + (c.toNat - 48)) 0)

inductive BodyKind where
  | none | len (n : Nat) | chunked | eof
  deriving DecidableEq, Repr

/-- RFC 7230 §3.3.3 for a response to a request with method `m`; `none` = invalid framing -/
def bodyKind (m : Bytes) (status : Nat) (fs : List (Bytes × Bytes)) : Option BodyKind :=
  -- 1. HEAD, 1xx, 204, 304: no body
  if m == [72, 69, 65, 68] || status / 100 == 1 || status == 204 || status == 304 then some .none
  -- 2. 2xx to CONNECT: tunnel
  else if m == [67, 79, 78, 78, 69, 67, 84] && status / 100 == 2 then some .none
  else
    -- 3. Transfer-Encoding: chunked when it is the final coding, else until close
    let codings := (fieldValues fs [116, 114, 97, 110, 115, 102, 101, 114, 45, 101, 110, 99, 111, 100, 105, 110, 103]).flatMap
      fun v => (splitComma v).map trimOWS
    if !codings.isEmpty then
      match codings.getLast? with
      | some t => if eqFold t [99, 104, 117, 110, 107, 101, 100] then some .chunked else some .eof
      | none => some .eof
    else
      -- 4./5. Content-Length: all values the same valid decimal
      match fieldValues fs [99, 111, 110, 116, 101, 110, 116, 45, 108, 101, 110, 103, 116, 104] with
      | [] => some .eof                                                         -- 7. until close
      | c :: rest =>
        match parseDec c with
        | none => none
        | some n => if rest.all (fun x => parseDec x == some n) then some (.len n) else none

def isHexByte (c : UInt8) : Bool := isDigit c || (97 ≤ c && c ≤ 102) || (65 ≤ c && c ≤ 70)

def hexVal (c : UInt8) : Nat :=
  if isDigit c then c.toNat - 48 else if 97 ≤ c then c.toNat - 87 else c.toNat - 55

def parseHex (v : Bytes) : Nat := v.foldl (fun a c => a * 16 + hexVal c) 0

/-- RFC 7230 §4.1: chunks (extensions ignored), last-chunk, trailer section → (body, trailers, rest) -/
def decodeChunkedAux : Nat → Bytes → Option (Bytes × List (Bytes × Bytes) × Bytes)
  | 0, _ => none
  | fuel + 1, inp =>
    match splitLine inp with
    | none => none
    | some (line, rest) =>
      let hex := line.takeWhile isHexByte
      let ext := line.drop hex.length
      if hex.isEmpty || !(ext.isEmpty || ext.head? == some 59) then none else
      let n := parseHex hex
      if n == 0 then
        match parseFields rest with
        | none => none
        | some (tr, rest') => some ([], tr, rest')
      else if rest.length < n + 2 then none
      else if (rest.drop n).take 2 != crlf then none
      else
        match decodeChunkedAux fuel (rest.drop (n + 2)) with
        | none => none
        | some (b, tr, r) => some (rest.take n ++ b, tr, r)

def decodeChunked (inp : Bytes) : Option (Bytes × List (Bytes × Bytes) × Bytes) :=
  decodeChunkedAux (inp.length + 1) inp

/-- read one response to a request with method `m` from the front of `inp`; the second component is
    what is left for the next message -/
def parseResponse (m : Bytes) (inp : Bytes) : Option (ParsedResp × Bytes) :=
  match splitLine inp with
  | none => none
  | some (sl, rest) =>
    match parseStatusLine sl with
    | none => none
    | some (minor, status, reason) =>
      match parseFields rest with
      | none => none
      | some (fs, rest) =>
        match bodyKind m status fs with
        | none => none
        | some .none =>
          some ({ minor, status, reason, fields := fs, body := [], trailers := [] }, rest)
        | some (.len n) =>
          if rest.length < n then none
          else some ({ minor, status, reason, fields := fs, body := rest.take n, trailers := [] }, rest.drop n)
        | some .chunked =>
          match decodeChunked rest with
          | none => none
          | some (b, tr, rest') =>
            some ({ minor, status, reason, fields := fs, body := b, trailers := tr }, rest')
        | some .eof =>
          some ({ minor, status, reason, fields := fs, body := rest, trailers := [] }, [])

/-- a client reading the responses to requests with methods `ms`, in order -/
def parseSeq : List Bytes → Bytes → Option (List ParsedResp × Bytes)
  | [], inp => some ([], inp)
  | m :: ms, inp =>
    match parseResponse m inp with
    | none => none
    | some (p, rest) =>
      match parseSeq ms rest with
      | none => none
      | some (ps, r) => some (p :: ps, r)

/-! ### what the theorems relate -/

/-- a field as a reader normalises it -/
def normField (f : Bytes × Bytes) : Bytes × Bytes := (lower f.1, trimOWS f.2)

/-- what a conforming reader is expected to obtain from `serialize r chunks trailers` -/
def expected (r : ClientResp) (chunks : List Bytes) (trailers : List (Bytes × Bytes)) : ParsedResp :=
  { minor := r.minor, status := r.status, reason := r.reason,
    fields := (flatFields r.fields).map normField,
    body := wireBody r chunks, trailers := (wireTrailers r trailers).map normField }

/-- syntactic well-formedness of what is written (Go's writers guarantee it: names come from
    `textproto` canonicalisation of tokens, CR/LF in values are replaced by spaces) -/
structure LineWF (f : Bytes × Bytes) : Prop where
  name_ne : f.1 ≠ []
  name_tok : f.1.all isTokenByte = true
  value_nolf : (10 : UInt8) ∉ f.2

structure HeadWF (r : ClientResp) : Prop where
  minor_lt : r.minor < 10
  status_lt : r.status < 1000
  reason_nolf : (10 : UInt8) ∉ r.reason
  lines : ∀ f ∈ flatFields r.fields, LineWF f

/-- the field lines of `r` declare the framing `r.framing` to a reader that knows the request
    method `m` -/
def FramingDeclared (m : Bytes) (r : ClientResp) : Prop :=
  match r.framing with
  | .none => bodyKind m r.status ((flatFields r.fields).map normField) = some .none
  | .cl n => bodyKind m r.status ((flatFields r.fields).map normField) = some (.len n)
  | .chunked _ => bodyKind m r.status ((flatFields r.fields).map normField) = some .chunked
  | .eof => bodyKind m r.status ((flatFields r.fields).map normField) = some .eof

/-- body pieces fit the framing: non-empty chunks; exactly `n` bytes under `Content-Length: n` -/
def BodyFits (r : ClientResp) (chunks : List Bytes) : Prop :=
  (∀ c ∈ chunks, c ≠ []) ∧
  match r.framing with
  | .cl n => chunks.flatten.length = n
  | _ => True

/-- one exchange on a client connection as the writers see it -/
structure Exchange where
  method : Bytes
  resp : ClientResp
  chunks : List Bytes
  trailers : List (Bytes × Bytes)

def Exchange.wire (x : Exchange) : Bytes := serialize x.resp x.chunks x.trailers
def Exchange.expected (x : Exchange) : ParsedResp := Resp.expected x.resp x.chunks x.trailers

/-- the exchanges that are actually served on one connection: up to and including the first
    response that closes it -/
def served : List Exchange → List Exchange
  | [] => []
  | x :: xs => if x.resp.keepAlive then x :: served xs else [x]

/-- all bytes the connection carries -/
def connBytes (xs : List Exchange) : Bytes := (served xs).flatMap Exchange.wire

/-! ### views used by the preservation theorems -/

namespace Name
def connection : Bytes := [99, 111, 110, 110, 101, 99, 116, 105, 111, 110]
def upgrade : Bytes := [117, 112, 103, 114, 97, 100, 101]
def contentLength : Bytes := [99, 111, 110, 116, 101, 110, 116, 45, 108, 101, 110, 103, 116, 104]
def transferEncoding : Bytes := [116, 114, 97, 110, 115, 102, 101, 114, 45, 101, 110, 99, 111, 100, 105, 110, 103]
def trailer : Bytes := [116, 114, 97, 105, 108, 101, 114]
def contentEncoding : Bytes := [99, 111, 110, 116, 101, 110, 116, 45, 101, 110, 99, 111, 100, 105, 110, 103]
def keepAlive : Bytes := [107, 101, 101, 112, 45, 97, 108, 105, 118, 101]
def proxyAuthenticate : Bytes := [112, 114, 111, 120, 121, 45, 97, 117, 116, 104, 101, 110, 116, 105, 99, 97, 116, 101]
def proxyAuthorization : Bytes := [112, 114, 111, 120, 121, 45, 97, 117, 116, 104, 111, 114, 105, 122, 97, 116, 105, 111, 110]
def proxyConnection : Bytes := [112, 114, 111, 120, 121, 45, 99, 111, 110, 110, 101, 99, 116, 105, 111, 110]
def te : Bytes := [116, 101]
def close : Bytes := [99, 108, 111, 115, 101]
def gzip : Bytes := [103, 122, 105, 112]
def chunked : Bytes := [99, 104, 117, 110, 107, 101, 100]
def HEAD : Bytes := [72, 69, 65, 68]
def CONNECT : Bytes := [67, 79, 78, 78, 69, 67, 84]
end Name

/-- values of the origin's field lines named `n` (any case), in wire order -/
def inValues (o : OriginResp) (n : Bytes) : List Bytes :=
  (o.fields.filter fun f => lower f.1 == lower n).map (·.2)

/-- values of the field lines named `n` that the client receives, in wire order -/
def outValues (r : ClientResp) (n : Bytes) : List Bytes :=
  fieldValues (flatFields r.fields) (lower n)

/-- the (lower-case) names of the field lines the client receives -/
def outNames (r : ClientResp) : List Bytes := r.fields.map (·.1)

/-- hop-by-hop by definition (RFC 7230 §6.1 and the de-facto ones), besides the names the
    proxy manages itself -/
def staticHopByHop : List Bytes :=
  [Name.keepAlive, Name.proxyAuthenticate, Name.proxyAuthorization, Name.proxyConnection, Name.te]

/-- names whose lines the proxy regenerates for its own side of the connection -/
def managedNames : List Bytes :=
  [Name.connection, Name.upgrade, Name.contentLength, Name.transferEncoding, Name.trailer]

/-- names the origin's `Connection` lines nominate as hop-by-hop (lower case) -/
def nominated (o : OriginResp) : List Bytes :=
  (inValues o Name.connection).flatMap fun v => (splitComma v).map fun t => lower (Req.trimSpace t)

/-- the origin's `Connection` lines carry the `close` option -/
def originSaysClose (o : OriginResp) : Bool :=
  Req.valuesContainToken (inValues o Name.connection) Name.close

/-- first `Content-Encoding` of the origin's response is gzip -/
def originGzip (o : OriginResp) : Bool :=
  eqFold ((inValues o Name.contentEncoding).headD []) Name.gzip

/-- the origin's response is chunked as far as the transport is concerned (HTTP/1.1, a single
    `Transfer-Encoding: chunked`) -/
def originChunked (o : OriginResp) : Bool :=
  o.minor != 0 &&
    match inValues o Name.transferEncoding with
    | [v] => eqFold v Name.chunked
    | _ => false

/-- trailer names the origin declares -/
def originTrailers (o : OriginResp) : List Bytes :=
  ((inValues o Name.trailer).flatMap fun v => (splitComma v).map fun k => lower (trimOWS k)).filter
    fun k => !k.isEmpty

/-- RFC 7230 §3.3.3 (1): responses that never have a body -/
def bodiless (m : Bytes) (status : Nat) : Bool :=
  m == Name.HEAD || status / 100 == 1 || status == 204 || status == 304

/-- field names of the origin's response are tokens -/
def OriginWF (o : OriginResp) : Prop := ∀ f ∈ o.fields, f.1.all isTokenByte = true

/-- the origin's response head is syntactically well formed: HTTP/1.0–1.9, status < 1000, no LF in
    the reason phrase, every field line has a non-empty token name and a value without LF -/
structure OriginHeadWF (o : OriginResp) : Prop where
  minor_lt : o.minor < 10
  status_lt : o.status < 1000
  reason_nolf : (10 : UInt8) ∉ o.reason
  lines : ∀ f ∈ o.fields, LineWF f

end Resp
end FwdVerif
