/-
  C18, WHEN an instance's identity comes into being: the Via modifier's tag while the FIRST requests of
  a freshly constructed instance pass through it, under an arbitrary schedule.

  The code (`header.NewViaModifier`, reached from `NewHTTPProxy` through `httpspec.NewStack(config.Name)`)
  draws the random boundary in the constructor: the tag is a field that is written before the modifier
  is handed to anybody and only read afterwards.  The machine below has ONE step function for the
  look-up a request performs (`tagStep`) and two constructors:

    `constructEager`  the code: the cell holds the tag from the start — the look-up is a single read;
    `constructLazy`   counter-model: the cell is empty, the first request that finds it empty draws a
                      boundary and stores it — load / generate / store are three separate steps, no
                      compare-and-swap.

  A schedule is a list of request numbers: request `k` takes its next step.  The scheduler is a
  parameter the theorems quantify over (Theorems/C18.lean, section J).
-/
import FwdVerif.Model.C18

namespace FwdVerif
namespace C18

/-- where one request stands in the look-up of the instance's tag -/
inductive TagPc where
  /-- has not reached the Via modifier yet -/
  | idle
  /-- (lazy construction only) loaded the cell and found it empty -/
  | sawNil
  /-- (lazy construction only) generated a tag of its own and has not stored it yet -/
  | drew (t : Bytes)
  /-- holds the tag its chain is searched for and its request is forwarded with -/
  | has (t : Bytes)
  deriving DecidableEq, Repr

/-- the Via modifier of one instance while requests pass through it: the tag cell, the number of
    boundaries drawn from the entropy source so far, the position of every request -/
structure TagState where
  cell : Option Bytes
  draws : Nat
  reqs : List TagPc
  deriving DecidableEq, Repr

/-- `requestedBy + "-" + boundary` -/
def mkTag (name boundary : Bytes) : Bytes := name ++ 45 :: boundary

/-- request `k` takes its next step; `rnd n` is the `n`-th boundary the entropy source hands out -/
def tagStep (name : Bytes) (rnd : Nat → Bytes) (s : TagState) (k : Nat) : TagState :=
  match s.reqs[k]? with
  | none => s
  | some .idle =>
    match s.cell with
    | some t => { s with reqs := s.reqs.set k (.has t) }
    | none => { s with reqs := s.reqs.set k .sawNil }
  | some .sawNil =>
    { s with draws := s.draws + 1, reqs := s.reqs.set k (.drew (mkTag name (rnd s.draws))) }
  | some (.drew t) => { s with cell := some t, reqs := s.reqs.set k (.has t) }
  | some (.has _) => s

def tagRun (name : Bytes) (rnd : Nat → Bytes) (s : TagState) (sched : List Nat) : TagState :=
  sched.foldl (tagStep name rnd) s

/-- the code: `NewViaModifier` draws the boundary and fills in the tag; `n` requests are still to come -/
def constructEager (name : Bytes) (rnd : Nat → Bytes) (n : Nat) : TagState :=
  { cell := some (mkTag name (rnd 0)), draws := 1, reqs := List.replicate n .idle }

/-- counter-model: the constructor leaves the cell empty -/
def constructLazy (n : Nat) : TagState :=
  { cell := none, draws := 0, reqs := List.replicate n .idle }

/-- the tag request `k` holds, once it holds one -/
def tagOf (s : TagState) (k : Nat) : Option Bytes :=
  match s.reqs[k]? with
  | some (.has t) => some t
  | _ => none

/-- the tags held by the requests, in request order -/
def tagsHeld (s : TagState) : List Bytes :=
  s.reqs.filterMap fun p => match p with
    | .has t => some t
    | _ => none

/-- number of different tags among the requests that hold one -/
def distinctTags (s : TagState) : Nat := (tagsHeld s).eraseDups.length

/-! ### The construction step itself, as a function of what the entropy source answered

  `randomBoundary` (via_modifier.go) asks `io.ReadFull(rand.Reader, buf[:10])` once.  The answer is
  modelled as `Option Bytes`: `none` = the read FAILED (an error before ten bytes had arrived: a source
  that fails at once, fails or ends after `k < 10` bytes, with any mixture of short reads before), `some b`
  = the bytes it delivered.  The code panics on a failed read — the constructor does not return, no
  instance exists; on ten bytes the tag is `name-hex(b)`.  Nothing else (clock, process id, a
  pseudo-random generator) enters the tag. -/

/-- `hex.EncodeToString`: one nibble as a lower-case hex digit -/
def hexNib (n : Nat) : UInt8 := if n < 10 then UInt8.ofNat (48 + n) else UInt8.ofNat (87 + n)

/-- `hex.EncodeToString` -/
def hexEnc : Bytes → Bytes
  | [] => []
  | b :: rest => hexNib (b.toNat / 16) :: hexNib (b.toNat % 16) :: hexEnc rest

/-- number of bytes of entropy in a boundary (`var buf [10]byte`) -/
def boundaryBytes : Nat := 10

/-- a constructed Via modifier: the name it was asked for and the tag it carries from then on -/
structure Instance where
  name : Bytes
  tag : Bytes
  deriving DecidableEq, Repr

/-- the code: `NewViaModifier name` when the entropy source answered `ans` (`none` = the read failed:
    `panic(err)`, the constructor does not return) -/
def mkInstance (name : Bytes) : Option Bytes → Option Instance
  | none => none
  | some b => if b.length = boundaryBytes then some { name := name, tag := mkTag name (hexEnc b) } else none

/-- big-endian bytes of `n`, `k` of them (`binary.BigEndian.PutUint16/64`) -/
def beBytes : Nat → Nat → Bytes
  | 0, _ => []
  | k + 1, n => UInt8.ofNat (n / 256 ^ k % 256) :: beBytes k n

/-- counter-model (NOT the code): a constructor that does not give up when the entropy source fails but
    makes the boundary of the process id and the time in seconds -/
def mkInstanceFallback (pid sec : Nat) (name : Bytes) : Option Bytes → Option Instance
  | none => some { name := name, tag := mkTag name (hexEnc (beBytes 2 pid ++ beBytes 8 sec)) }
  | some b => mkInstance name (some b)

/-- the instances that exist after a series of constructor calls, in order of construction -/
def liveInstances (mk : Option Bytes → Option Instance) (answers : List (Option Bytes)) : List Instance :=
  answers.filterMap mk

end C18
end FwdVerif
