/-
  C17 — the rule list under CONCURRENT use.  Only additions; nothing in `Model/C17.lean` is changed.
  Core-only.

  One `ruleset.RegexpMatcher` per list is built at start-up and then shared: every connection's
  goroutine calls `Match` on it (`http_proxy.go`: denyDomains, directDomains, MITMFilter), and
  `Inverse()` returns a matcher that ALIASES the two slices.  A run of the process is an
  interleaving of the callers' query sequences, chosen by the scheduler.

  1. The code.  `(*RegexpMatcher).match` reads the two slices and stores nothing.  `step` is one
     call seen as a transition of the shared state (the matcher): the state comes back as it was.
     `run` folds `step` over the calls in the order the process gets to them; `Interleaving` /
     `Schedule` say which caller issued which call.  `Theorems/C17.lean` (section "concurrent use"):
     whatever the interleaving, every answer is `matches rules host`.

  2. The counter-model: a SELF-ORGANISING list ("transpose" heuristic).  `match` moves the include
     rule that hit one position towards the front:

         for n, i := range r.include { if i.MatchString(s) {
             if n > 0 { r.include[n-1], r.include[n] = r.include[n], r.include[n-1] }
             return true } }

     The tuple assignment is two loads followed by two plain stores.  `TState` is the shared state
     (the include slice, the exclude slice, and per goroutine the swap it has loaded but not yet
     stored), `TOp` the steps a goroutine takes: `walk` (both loops and, on a hit at `n > 0`, the two
     loads — taken as one step, which only REMOVES interleavings of the real code), `storeLo`
     (`include[n-1] = …`), `storeHi` (`include[n] = …`).  One goroutine at a time (`atomicOps`) a
     swap only permutes the slice and every answer is the specified one; two goroutines whose
     stores interleave can store one rule twice and lose its neighbour, after which the list says
     `false` of the lost rule's hosts for ever (`Theorems/C17.lean`).
-/
import FwdVerif.Model.C17

namespace FwdVerif
namespace C17

/-! ### 1. the code: `Match` never writes -/

/-- one call: `Match(host)` on the matcher itself, or on the matcher `Inverse()` returned for it
    (which shares the two slices) -/
structure Query where
  viaInverse : Bool
  host : Bytes
  deriving Repr, DecidableEq

/-- what a call answers when it is the only one -/
def answer (m : Matcher) (q : Query) : Bool :=
  if q.viaInverse then m.inv.matches q.host else m.matches q.host

/-- one call as a transition of the state all callers share: `match` has no store, the matcher
    comes back as it was -/
def step (m : Matcher) (q : Query) : Matcher × Bool := (m, answer m q)

/-- the calls in the order the process gets to them -/
def run : Matcher → List Query → Matcher × List Bool
  | m, [] => (m, [])
  | m, q :: qs =>
    let r := step m q
    let rest := run r.1 qs
    (rest.1, r.2 :: rest.2)

/-- `Interleaving callers es`: `es` merges the lists `callers`, keeping the order inside each of
    them (at every step the head of some caller's remaining list is taken) -/
inductive Interleaving {α : Type} : List (List α) → List α → Prop where
  | done {cs : List (List α)} : (∀ c ∈ cs, c = []) → Interleaving cs []
  | take {pre post : List (List α)} {c es : List α} (x : α) :
      Interleaving (pre ++ c :: post) es → Interleaving (pre ++ (x :: c) :: post) (x :: es)

/-- a schedule: which caller (goroutine) issues which call, in the order the process gets to them -/
abbrev Schedule := List (Nat × Query)

/-- the calls of caller `c`, in its own order -/
def callerQueries (c : Nat) (s : Schedule) : List Query := (s.filter (·.1 == c)).map (·.2)

/-- the process folded over a schedule: every answer labelled with its caller -/
def runSchedule (m : Matcher) (s : Schedule) : List (Nat × Bool) :=
  (s.map (·.1)).zip (run m (s.map (·.2))).2

/-- what caller `c` is told, in order -/
def callerAnswers (c : Nat) (res : List (Nat × Bool)) : List Bool := (res.filter (·.1 == c)).map (·.2)

/-- the specified answer to a call under the rule list `l`: union of the includes minus the
    excludes, negated when asked through `Inverse()` -/
def specAnswer (l : List Rule) (q : Query) : Bool :=
  if q.viaInverse then !specMatch l q.host else specMatch l q.host

/-! ### 2. the counter-model: a self-organising include list with a non-atomic swap -/

/-- the swap a goroutine has loaded and not yet stored: the index `n > 0` of the rule that hit and
    the two values it read -/
structure Pending where
  n : Nat
  lo : Rx      -- read from `include[n-1]`
  hi : Rx      -- read from `include[n]`

/-- the state all goroutines share (`Inverse()` aliases the slices, so callers through the inverse
    matcher act on the same state) -/
structure TState where
  incl : List Rx
  excl : List Rx
  pend : List (Nat × Pending) := []

inductive TOp where
  | walk (g : Nat) (q : Query)   -- both loops of `match`; on a hit at `n > 0` the two loads of the tuple assignment
  | storeLo (g : Nat)            -- `include[n-1] =` the value loaded from `include[n]`
  | storeHi (g : Nat)            -- `include[n] =` the value loaded from `include[n-1]`; the call returns

/-- index of the first rule that matches (the `for n, i := range` loop) -/
def firstHit : List Rx → Bytes → Option Nat
  | [], _ => none
  | x :: xs, s => if searchRx x s then some 0 else (firstHit xs s).map (· + 1)

def pendOf (st : TState) (g : Nat) : Option Pending := (st.pend.find? (·.1 == g)).map (·.2)

/-- `Match` negates what `match` says when the call goes through the inverse matcher -/
def viaAnswer (q : Query) (raw : Bool) : Bool := if q.viaInverse then !raw else raw

def tstep (st : TState) : TOp → TState × Option Bool
  | .walk g q =>
    if anySearch st.excl q.host then (st, some (viaAnswer q false))
    else match firstHit st.incl q.host with
      | none => (st, some (viaAnswer q false))
      | some 0 => (st, some (viaAnswer q true))
      | some (n + 1) =>
        match st.incl[n]?, st.incl[n + 1]? with
        | some a, some b =>
          ({ st with pend := (g, ⟨n + 1, a, b⟩) :: st.pend.filter (·.1 != g) }, some (viaAnswer q true))
        | _, _ => (st, some (viaAnswer q true))
  | .storeLo g =>
    match pendOf st g with
    | some p => ({ st with incl := st.incl.set (p.n - 1) p.hi }, none)
    | none => (st, none)
  | .storeHi g =>
    match pendOf st g with
    | some p => ({ st with incl := st.incl.set p.n p.lo, pend := st.pend.filter (·.1 != g) }, none)
    | none => (st, none)

/-- the steps in the order the scheduler runs them; the answers of the `walk` steps -/
def trun : TState → List TOp → TState × List Bool
  | st, [] => (st, [])
  | st, op :: ops =>
    let r := tstep st op
    let rest := trun r.1 ops
    (rest.1, match r.2 with | some a => a :: rest.2 | none => rest.2)

/-- one whole call of goroutine `g` with nothing in between -/
def atomicOps (c : Nat × Query) : List TOp := [.walk c.1 c.2, .storeLo c.1, .storeHi c.1]

/-- the matcher a state stands for (what `Match` would compute from the slices as they are) -/
def TState.matcher (st : TState) : Matcher := { incl := st.incl, excl := st.excl }

/-- no rule of the state — in the slice or loaded by a goroutine that has yet to store it —
    matches `s`: the list has forgotten every rule that did -/
def Blind (st : TState) (s : Bytes) : Prop :=
  (∀ x ∈ st.incl, searchRx x s = false) ∧
    ∀ gp ∈ st.pend, searchRx gp.2.lo s = false ∧ searchRx gp.2.hi s = false

/-- the state of the self-organising variant for a rule list -/
def tinit (l : List Rule) : Option TState :=
  match fromList l with
  | .ok m => some { incl := m.incl, excl := m.excl }
  | _ => none

instance (st : TState) (s : Bytes) : Decidable (Blind st s) := by unfold Blind; infer_instance

/-- after the schedule `ops` the self-organising variant's state for the list `l` is blind to `s` -/
def blindAfter (l : List Rule) (ops : List TOp) (s : Bytes) : Bool :=
  match tinit l with
  | some st => decide (Blind (trun st ops).1 s)
  | none => false

/-- the answers the self-organising variant gives under a schedule of steps -/
def raceAnswers (l : List Rule) (ops : List TOp) : Option (List Bool) :=
  (tinit l).map fun st => (trun st ops).2

end C17
end FwdVerif
