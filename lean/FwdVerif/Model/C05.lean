/-
  C05 — routing: which next hop the configuration selects for a target.

  Mirrors
    http_proxy.go   configureProxy (base proxy function: custom | static URL | PAC | none, wrapped by
                    directDomains, then directLocalhost; the wrappers return nil for a nil base),
                    pacProxy (first PAC entry → proxy URL)
    pac/proxy.go    Proxies.First, parseProxy, parseMode, Proxy.URL
    internal/martian/proxy_connect.go  connect (scheme dispatch of the CONNECT path)
    net/http Transport.dialConn        (scheme dispatch of the transport: anything that is not socks5
                                        is spoken to as an HTTP proxy)
    net.go          DialRedirectFromHostPortPairs
    http_proxy.go   NewHTTPProxy (hosts-file aliases appended to the localhost names)
    pac/pac.go      FindProxyForURL(u, "") : the script sees `u.String()` and `u.Hostname()`
    pac/pool.go     the resolver pool — the only state a proxy instance keeps between two routing
                    decisions; the decision does not read it
    ruleset/regexp.go  `--direct-domains` is a rule list of Go regular expressions (includes minus
                    excludes); its verdict is C17's model of `ruleset.RegexpMatcher` (`directMatch`:
                    the RE2-fragment parser with Go's flag scoping, every rule evaluated on its own)
  PAC scripts are decision lists over the URL and the host (`UrlScript`; the host table `PacScript`
  is the special case whose conditions are all `host == k`); a proxy instance is folded over a list
  of requests (`runSeq`).  `shExpMatch` is C14's model of `ascii_pac_utils.js`.
  Core-only.
-/
import FwdVerif.Model.Req
import FwdVerif.Model.C14
import FwdVerif.Model.C17

namespace FwdVerif
namespace C05

open Ascii
open Req (bs trimSpace hostname urlPort netSplitHostPort netJoinHostPort canonicalAddr
  isLoopbackLiteral Upstream basicAuthValue)

/-! ### PAC result strings (`pac/proxy.go`) -/

inductive Mode where
  | direct | proxy | http | https | socks | socks4 | socks5
  deriving Repr, DecidableEq

/-- `parseMode`: exact, case-sensitive keywords; anything else is DIRECT -/
def parseMode (s : Bytes) : Mode :=
  if s == bs "DIRECT" then .direct else if s == bs "PROXY" then .proxy else if s == bs "HTTP" then .http
  else if s == bs "HTTPS" then .https else if s == bs "SOCKS" then .socks else if s == bs "SOCKS4" then .socks4
  else if s == bs "SOCKS5" then .socks5 else .direct

/-- `strings.ToLower(m.String())` with PROXY mapped to HTTP (`Proxy.URL`) -/
def Mode.scheme : Mode → Bytes
  | .direct => bs "direct" | .proxy => bs "http" | .http => bs "http" | .https => bs "https"
  | .socks => bs "socks" | .socks4 => bs "socks4" | .socks5 => bs "socks5"

/-- `strings.Cut(s, sep)` for a one-byte separator -/
def cutByte (sep : UInt8) (s : Bytes) : Option (Bytes × Bytes) :=
  match Req.indexOfByte sep s with
  | some i => some (s.take i, s.drop (i + 1))
  | none => none

structure PacProxy where
  mode : Mode
  host : Bytes
  port : Bytes
  deriving Repr, DecidableEq

/-- `strconv.ParseUint(port, 10, 16)` succeeds: one or more decimal digits (no sign, no `_`), value
    at most 65535 (leading zeros allowed) -/
def validPort (p : Bytes) : Bool :=
  !p.isEmpty && p.all isDigit && decide (p.foldl (fun n c => n * 10 + (c.toNat - 48)) 0 ≤ 65535)

/-- `host != "" && !strings.ContainsAny(host, " \t")` -/
def validHost (h : Bytes) : Bool := !h.isEmpty && !h.any (fun c => c == 32 || c == 9)

/-- `parseProxy`: `none` = error, `some none` = DIRECT.  After `net.SplitHostPort` the host must be
    non-empty without blank/tab and the port a decimal number ≤ 65535 — whatever the keyword. -/
def parseProxy (s : Bytes) : Option (Option PacProxy) :=
  let s := trimSpace s
  if s.isEmpty then some none
  else if s == bs "DIRECT" then some none
  else match cutByte 32 s with
    | none => none                                   -- missing host:port
    | some (mode, hostport) =>
      match netSplitHostPort hostport with
      | none => none
      | some (h, p) =>
        if !validHost h then none                    -- invalid host
        else if !validPort p then none               -- invalid port
        else some (some { mode := parseMode mode, host := h, port := p })

/-- `Proxies.First`: only what precedes the first `;` is looked at -/
def pacFirst (s : Bytes) : Option (Option PacProxy) :=
  if s.isEmpty then some none
  else parseProxy ((cutByte 59 s).map (·.1) |>.getD s)

/-! ### proxy URLs and the proxy function -/

/-- the parts of a proxy `*url.URL` that matter: scheme, `Host` (host:port), user and password -/
structure ProxyURL where
  scheme : Bytes
  host : Bytes
  user : Option (Bytes × Bytes) := none
  deriving Repr, DecidableEq

/-- `Proxy.URL()`: nil for DIRECT (also for an unknown keyword, which parses as DIRECT) -/
def PacProxy.url (p : PacProxy) : Option ProxyURL :=
  if p.mode == .direct then none
  else some { scheme := p.mode.scheme, host := netJoinHostPort p.host p.port }

inductive RouteError where
  | pacScript                         -- the script threw, returned a non-string or a non-ASCII string
  | pacEntry                          -- first entry without host:port / unparsable host:port
  | unsupportedScheme (scheme : Bytes)   -- CONNECT path: proxy URL scheme other than http, https, socks5
  deriving Repr, DecidableEq

/-- what the PAC script returns for a host -/
inductive PacResult where
  | ok (s : Bytes)
  | fail                              -- exception or non-string result
  deriving Repr, DecidableEq

/-- PAC scripts of the shape `if (host == k₁) return r₁; … return dflt;` (keys compared with the
    `host` argument = `url.Hostname()`) -/
structure PacScript where
  table : List (Bytes × PacResult) := []
  dflt : PacResult := .ok []
  deriving Repr

def PacScript.eval (p : PacScript) (host : Bytes) : PacResult :=
  match p.table.find? (fun e => e.1 == host) with
  | some e => e.2
  | none => p.dflt

inductive Base where
  | none
  | custom (table : List (Bytes × Option ProxyURL)) (dflt : Option ProxyURL)   -- `UpstreamProxyFunc`
  | static (u : ProxyURL)                                                   -- `UpstreamProxy`
  | pac (p : PacScript)
  deriving Repr

structure HostPortPair where
  srcHost : Bytes := []
  srcPort : Bytes := []
  dstHost : Bytes := []
  dstPort : Bytes := []
  deriving Repr, DecidableEq

structure RouteCfg where
  base : Base := .none
  directDomains : Option (List C17.Rule) := none    -- `--direct-domains` (none = not configured): the rules as written
  localhostDirect : Bool := false                   -- `--proxy-localhost direct`
  localhostNames : List Bytes := []
  connectTo : List HostPortPair := []
  deriving Repr

abbrev ProxyFn := Bytes → Except RouteError (Option ProxyURL)

/-- `hp.config.DirectDomains.Match(host)`, the matcher being what `NewRegexpMatcherFromList` builds
    from the `--direct-domains` values: C17's model of `ruleset.RegexpMatcher` (every rule compiled
    and evaluated ON ITS OWN, exclusions first).  A list from which no matcher can be built (no
    include rule) is refused when the flag is read, so no proxy instance carries one; it is given
    the verdict of a matcher that matches nothing. -/
def directMatch (rules : List C17.Rule) (host : Bytes) : Bool := (C17.matchesOf rules host).getD false

/-- the recognised PAC proxy types nothing in the proxy can speak -/
def Mode.unsupported : Mode → Bool
  | .socks | .socks4 => true
  | _ => false

/-- `HTTPProxy.pacProxy` without the credential lookup (that is C06's `pacAttach`): a first entry of
    type `SOCKS`/`SOCKS4` fails the request (`PAC: unsupported proxy type`) -/
def pacProxy (p : PacScript) : ProxyFn := fun host =>
  match p.eval host with
  | .fail => .error .pacScript
  | .ok s =>
    if s.any (fun c => c ≥ 128) then .error .pacScript else
    match pacFirst s with
    | none => .error .pacEntry
    | some none => .ok none
    | some (some e) => if e.mode.unsupported then .error (.unsupportedScheme e.mode.scheme) else .ok e.url

def baseFn : Base → Option ProxyFn
  | .none => none
  | .custom t d => some fun host =>
      match t.find? (fun e => e.1 == host) with
      | some e => .ok e.2
      | none => .ok d
  | .static u => some fun _ => .ok (some u)
  | .pac p => some (pacProxy p)

/-- `directDomains(fn)`: nil stays nil -/
def wrapDirectDomains (rc : RouteCfg) : Option ProxyFn → Option ProxyFn
  | none => none
  | some f =>
    match rc.directDomains with
    | none => some f
    | some rules => some fun host => if directMatch rules host then .ok none else f host

/-- `directLocalhost(fn)`: nil stays nil -/
def wrapDirectLocalhost (rc : RouteCfg) : Option ProxyFn → Option ProxyFn
  | none => none
  | some f =>
    if rc.localhostDirect then
      some fun host => if Req.isLocalhostNames rc.localhostNames host then .ok none else f host
    else some f

/-- `hp.proxyFunc` as `configureProxy` composes it -/
def proxyFunc (rc : RouteCfg) : Option ProxyFn :=
  wrapDirectLocalhost rc (wrapDirectDomains rc (baseFn rc.base))

/-- the proxy selected for a target host name (`req.URL.Hostname()`); `none` = go direct -/
def selectProxy (rc : RouteCfg) (host : Bytes) : Except RouteError (Option ProxyURL) :=
  match proxyFunc rc with
  | none => .ok none
  | some f => f host

/-! ### scheme dispatch -/

inductive ProxyKind where
  | http | https | socks5
  deriving Repr, DecidableEq

inductive Hop where
  | direct (addr : Bytes)
  | viaProxy (kind : ProxyKind) (addr : Bytes)   -- `addr` = what the dialer is asked for
  deriving Repr, DecidableEq

def Hop.addr : Hop → Bytes
  | .direct a => a
  | .viaProxy _ a => a

/-- CONNECT path (`martian.Proxy.connect`): `authority` is the request-target -/
def routeConnect (rc : RouteCfg) (authority : Bytes) : Except RouteError Hop :=
  match selectProxy rc (hostname authority) with
  | .error e => .error e
  | .ok none => .ok (.direct authority)
  | .ok (some u) =>
    if u.scheme == bs "http" then .ok (.viaProxy .http u.host)
    else if u.scheme == bs "https" then .ok (.viaProxy .https u.host)
    else if u.scheme == bs "socks5" then
      let port := urlPort u.host
      .ok (.viaProxy .socks5 (netJoinHostPort (hostname u.host) (if port.isEmpty then bs "1080" else port)))
    else .error (.unsupportedScheme u.scheme)

/-- transport path (`http.Transport`): SOCKS5 for `socks5`/`socks5h`, TLS to the proxy for `https`,
    and HTTP-proxy protocol for every other scheme -/
def routeRequest (rc : RouteCfg) (scheme urlHost : Bytes) : Except RouteError Hop :=
  match selectProxy rc (hostname urlHost) with
  | .error e => .error e
  | .ok none => .ok (.direct (canonicalAddr scheme urlHost))
  | .ok (some u) =>
    if u.scheme == bs "socks5" || u.scheme == bs "socks5h" then .ok (.viaProxy .socks5 (canonicalAddr u.scheme u.host))
    else if u.scheme == bs "https" then .ok (.viaProxy .https (canonicalAddr u.scheme u.host))
    else .ok (.viaProxy .http (canonicalAddr u.scheme u.host))

/-- what the property asks of a PAC-selected proxy type: the recognised but unsupported types fail
    the request on both paths -/
def routeRequestSpec (rc : RouteCfg) (scheme urlHost : Bytes) : Except RouteError Hop :=
  match selectProxy rc (hostname urlHost) with
  | .ok (some u) =>
    if u.scheme == bs "socks" || u.scheme == bs "socks4" then .error (.unsupportedScheme u.scheme)
    else routeRequest rc scheme urlHost
  | _ => routeRequest rc scheme urlHost

/-- proxy URLs that do not come from a PAC script are validated when the configuration is read
    (`config.go`: `http`, `https`, `socks5` only; a custom `UpstreamProxyFunc` is held to the same
    contract): in particular none of them has the scheme `socks` or `socks4` -/
def legacySocks (u : ProxyURL) : Bool := u.scheme == bs "socks" || u.scheme == bs "socks4"

def Base.validated : Base → Bool
  | .none => true
  | .pac _ => true
  | .static u => !legacySocks u
  | .custom t d => t.all (fun e => (e.2.map legacySocks) != some true) && (d.map legacySocks) != some true

/-! ### `--connect-to` (`DialRedirectFromHostPortPairs`) -/

def HostPortPair.matches (s : HostPortPair) (host port : Bytes) : Bool :=
  (s.srcHost.isEmpty || s.srcHost == host) && (s.srcPort.isEmpty || s.srcPort == port)

/-- first matching rule; empty source fields match anything, empty destination fields keep the
    original; an address `net.SplitHostPort` rejects is left alone -/
def redirect (rules : List HostPortPair) (addr : Bytes) : Bytes :=
  match netSplitHostPort addr with
  | none => addr
  | some (host, port) =>
    match rules.find? (fun s => s.matches host port) with
    | none => addr
    | some s => netJoinHostPort (if s.dstHost.isEmpty then host else s.dstHost)
                                (if s.dstPort.isEmpty then port else s.dstPort)

/-- address the socket is opened to for a hop -/
def dialAddr (rc : RouteCfg) (h : Hop) : Bytes := redirect rc.connectTo h.addr

/-! ### bridge to the request pipeline -/

def authValue (u : ProxyURL) : Option Bytes := u.user.map fun c => basicAuthValue c.1 c.2

/-- a proxy URL as the pipeline's `Upstream` -/
def proxyUpstream (u : ProxyURL) : Upstream :=
  if u.scheme == bs "http" then .http u.host (authValue u)
  else if u.scheme == bs "https" then .https u.host (authValue u)
  else if u.scheme == bs "socks5" then .socks5 u.host u.user
  else .other u.scheme u.host (authValue u)

/-- the `Req.Upstream` a selection amounts to -/
def toUpstream : Except RouteError (Option ProxyURL) → Upstream
  | .error _ => .failed
  | .ok none => .none
  | .ok (some u) => proxyUpstream u

/-! ### localhost names (`NewHTTPProxy`) -/

/-- `hp.localhost` as `newHTTPProxy` initialises it -/
def builtinLocalhost : List Bytes := [bs "localhost", bs "0.0.0.0", bs "::"]

/-- `hp.localhost` after `NewHTTPProxy` appended `hostsfile.LocalhostAliases()`: the names the hosts
    file maps to a loopback address (as spelt there), each lower-cased -/
def hpLocalhost (aliases : List Bytes) : List Bytes := builtinLocalhost ++ aliases.map lower

/-- `HTTPProxy.isLocalhost` with the alias list as a parameter -/
def isLocalhost (aliases : List Bytes) (host : Bytes) : Bool := Req.isLocalhostNames (hpLocalhost aliases) host

/-! ### PAC scripts that decide on the whole URL -/

/-- conditions of the generated scripts, as JavaScript:
    `host == "k"`, `shExpMatch(host, "pat")`, `shExpMatch(url, "pat")`, `url.substring(0, n) == "p"`
    (`n = |p|`), `url.indexOf("s") >= 0`, `!(c)`, `(a) && (b)` -/
inductive UrlCond where
  | hostIs (k : Bytes)
  | hostGlob (pat : Bytes)
  | urlGlob (pat : Bytes)
  | urlPrefix (p : Bytes)
  | urlContains (s : Bytes)
  | not (c : UrlCond)
  | and (a b : UrlCond)
  deriving Repr

/-- every glob pattern lies in the fragment C14's `shExpMatch` models -/
def UrlCond.modelled : UrlCond → Bool
  | .hostGlob pat => (C14.compileGlob pat).isSome
  | .urlGlob pat => (C14.compileGlob pat).isSome
  | .not c => c.modelled
  | .and a b => a.modelled && b.modelled
  | _ => true

def UrlCond.holds (url host : Bytes) : UrlCond → Bool
  | .hostIs k => host == k
  | .hostGlob pat => (C14.shExpMatch host pat).getD false
  | .urlGlob pat => (C14.shExpMatch url pat).getD false
  | .urlPrefix p => url.take p.length == p
  | .urlContains s => Req.isInfix s url
  | .not c => !(c.holds url host)
  | .and a b => a.holds url host && b.holds url host

/-- `if (cond) { return r | throw | return 42 }` -/
structure UrlRule where
  cond : UrlCond
  result : PacResult
  deriving Repr

/-- `function FindProxyForURL(url, host) { if (c₁) {r₁} … if (cₙ) {rₙ} dflt }` -/
structure UrlScript where
  rules : List UrlRule := []
  dflt : PacResult := .ok []
  deriving Repr

def UrlScript.modelled (s : UrlScript) : Bool := s.rules.all fun r => r.cond.modelled

/-- the first rule whose condition holds decides -/
def UrlScript.eval (s : UrlScript) (url host : Bytes) : PacResult :=
  match s.rules.find? (fun r => r.cond.holds url host) with
  | some r => r.result
  | none => s.dflt

/-- a host table as a URL script -/
def UrlScript.ofTable (p : PacScript) : UrlScript :=
  { rules := p.table.map fun e => { cond := .hostIs e.1, result := e.2 }, dflt := p.dflt }

/-- what `pacProxy` makes of the script's answer -/
def pacAnswer : PacResult → Except RouteError (Option ProxyURL)
  | .fail => .error .pacScript
  | .ok s =>
    if s.any (fun c => c ≥ 128) then .error .pacScript else
    match pacFirst s with
    | none => .error .pacEntry
    | some none => .ok none
    | some (some e) => if e.mode.unsupported then .error (.unsupportedScheme e.mode.scheme) else .ok e.url

/-! ### one proxy instance and the requests it serves -/

/-- what the proxy function sees of a request: `r.URL` when `hp.proxyFunc(r)` runs
    (`http.Transport` for a forwarded request, `martian.Proxy.connect` for CONNECT) -/
structure RouteReq where
  connect : Bool := false
  scheme : Bytes := []                -- `http` | `https` (request read inside an intercepted tunnel); empty for CONNECT
  urlHost : Bytes                     -- `r.URL.Host`: the authority as the client wrote it
  path : Bytes := []                  -- escaped path (empty for CONNECT)
  query : Option Bytes := none
  deriving Repr, DecidableEq

/-- `r.URL.String()` — `//host:port` for CONNECT, whose URL has neither scheme nor path -/
def RouteReq.url (q : RouteReq) : Bytes :=
  (if q.scheme.isEmpty then [] else q.scheme ++ [58]) ++ bs "//" ++ q.urlHost ++ q.path ++
    (match q.query with | some x => 63 :: x | none => [])

/-- the `host` argument of the script: `u.Hostname()` -/
def RouteReq.host (q : RouteReq) : Bytes := hostname q.urlHost

/-- configuration of one proxy instance: a `RouteCfg`, whose PAC base may be a URL script (then
    `rc.base` is not looked at) -/
structure InstCfg where
  rc : RouteCfg
  script : Option UrlScript := none
  deriving Repr

/-- the routing configuration as it answers request `q`: `FindProxyForURL` is called with `q`'s own
    URL and host, so for this request the PAC base is the script's answer for them -/
def InstCfg.at (c : InstCfg) (q : RouteReq) : RouteCfg :=
  match c.script with
  | none => c.rc
  | some s => { c.rc with base := .pac { table := [], dflt := s.eval q.url q.host } }

/-- where request `q` is sent -/
def route (c : InstCfg) (q : RouteReq) : Except RouteError Hop :=
  if q.connect then routeConnect (c.at q) q.urlHost else routeRequest (c.at q) q.scheme q.urlHost

/-- the script's answer for `q`, when the instance has a script -/
def scriptAnswer (c : InstCfg) (q : RouteReq) : Option PacResult := c.script.map fun s => s.eval q.url q.host

/-- everything a proxy instance keeps between two routing decisions: the resolver pool (`sync.Pool`
    of script VMs) — `made` VMs created so far, `idle` of them lying in the pool -/
structure InstState where
  idle : Nat := 0
  made : Nat := 0
  deriving Repr, DecidableEq

/-- `pool.get()` … `pool.Put(pr)` around one evaluation -/
def InstState.evaluate (st : InstState) : InstState :=
  if st.idle == 0 then { idle := 1, made := st.made + 1 } else st

/-- one request: the pool is used when the instance has a script; the decision does not read the state -/
def step (c : InstCfg) (st : InstState) (q : RouteReq) : InstState × Except RouteError Hop :=
  ((if c.script.isSome then st.evaluate else st), route c q)

/-- the decisions of one proxy instance for a list of requests, in order -/
def runSeq (c : InstCfg) : InstState → List RouteReq → List (Except RouteError Hop)
  | _, [] => []
  | st, q :: qs => (step c st q).2 :: runSeq c (step c st q).1 qs

/-! ### the process environment

`http.ProxyFromEnvironment` reads `HTTP_PROXY` / `HTTPS_PROXY` / `NO_PROXY` (and their lower-case
spellings) of the process: what it would answer is the `Ambient` below.  `NewHTTPTransport` builds the
transport with `Proxy: nil`; `martian.Proxy.init` then installs `hp.proxyFunc` in the transport when
there is one and otherwise keeps what the transport has (`p.ProxyURL = t.Proxy`).  So the function
the transport and the CONNECT path consult is `effectiveProxy`: with a transport field that is nil
the environment never reaches a routing decision. -/

/-- what the environment names: the proxy for `http` URLs, for `https` URLs, and the hosts exempted -/
structure Ambient where
  httpProxy : Option ProxyURL := none
  httpsProxy : Option ProxyURL := none
  noProxy : List Bytes := []
  deriving Repr

/-- `http.ProxyFromEnvironment` for a request with this scheme and host (`httpproxy.Config.ProxyFunc`:
    loopback targets and `NO_PROXY` entries are exempt; a URL without scheme — CONNECT — gets none) -/
def Ambient.proxyFor (env : Ambient) (scheme host : Bytes) : Option ProxyURL :=
  if lower host == bs "localhost" || isLoopbackLiteral (lower host) || env.noProxy.contains (lower host) then none
  else if scheme == bs "https" then env.httpsProxy else if scheme == bs "http" then env.httpProxy else none

/-- the `Proxy` field of the `*http.Transport` `NewHTTPTransport` returns: nil, whatever the
    environment (`none` = nil; a function otherwise gets scheme and host) -/
def transportProxyField (_env : Ambient) : Option (Bytes → ProxyFn) := none

/-- the counter-model: a transport cloned from `http.DefaultTransport` keeps `ProxyFromEnvironment` -/
def inheritedProxyField (env : Ambient) : Option (Bytes → ProxyFn) :=
  some fun scheme host => .ok (env.proxyFor scheme host)

/-- `martian.Proxy.init`: the configured proxy function wins; without one the transport's stays -/
def effectiveProxy (field : Option (Bytes → ProxyFn)) (rc : RouteCfg) (scheme host : Bytes) :
    Except RouteError (Option ProxyURL) :=
  match proxyFunc rc with
  | some f => f host
  | none =>
    match field with
    | some g => g scheme host
    | none => .ok none

/-- scheme dispatch of both paths over an arbitrary selection (`routeConnect` / `routeRequest` are the
    instances with `selectProxy`) -/
def dispatch (sel : Except RouteError (Option ProxyURL)) (connect : Bool) (scheme urlHost : Bytes) :
    Except RouteError Hop :=
  match sel with
  | .error e => .error e
  | .ok none => .ok (.direct (if connect then urlHost else canonicalAddr scheme urlHost))
  | .ok (some u) =>
    if connect then
      if u.scheme == bs "http" then .ok (.viaProxy .http u.host)
      else if u.scheme == bs "https" then .ok (.viaProxy .https u.host)
      else if u.scheme == bs "socks5" then
        let port := urlPort u.host
        .ok (.viaProxy .socks5 (netJoinHostPort (hostname u.host) (if port.isEmpty then bs "1080" else port)))
      else .error (.unsupportedScheme u.scheme)
    else
      if u.scheme == bs "socks5" || u.scheme == bs "socks5h" then .ok (.viaProxy .socks5 (canonicalAddr u.scheme u.host))
      else if u.scheme == bs "https" then .ok (.viaProxy .https (canonicalAddr u.scheme u.host))
      else .ok (.viaProxy .http (canonicalAddr u.scheme u.host))

/-- where request `q` is sent by an instance whose transport was built with `field`, in a process
    whose environment is `env` -/
def routeWith (field : Ambient → Option (Bytes → ProxyFn)) (env : Ambient) (c : InstCfg) (q : RouteReq) :
    Except RouteError Hop :=
  dispatch (effectiveProxy (field env) (c.at q) q.scheme (hostname q.urlHost)) q.connect q.scheme q.urlHost

/-- the proxy as it is: `route` with the environment as an explicit input -/
def routeIn (env : Ambient) (c : InstCfg) (q : RouteReq) : Except RouteError Hop :=
  routeWith transportProxyField env c q

/-! ### the dialer (`Dialer.DialContext`, `dialContext`)

`DialContext` maps the address once through `--connect-to` and hands the MAPPED address to
`dialContext`, which makes up to `Retry.Attempts` attempts (at least one), all of them to that
address, and stops at the first that succeeds.  What the network answers to the successive attempts
is the parameter `outcomes` (`true` = connected; attempts beyond the list fail). -/

structure DialCfg where
  connectTo : List HostPortPair := []
  attempts : Nat := 1                 -- `Retry.Attempts`; 0 (and negative) means one attempt
  deriving Repr

/-- one attempt: the address handed to `net.Dialer.DialContext` and whether it connected -/
structure Attempt where
  addr : Bytes
  ok : Bool
  deriving Repr, DecidableEq

def attemptLoop (addrOf : Nat → Bytes) : Nat → Nat → List Bool → List Attempt
  | _, 0, _ => []
  | i, n + 1, [] => { addr := addrOf i, ok := false } :: attemptLoop addrOf (i + 1) n []
  | i, n + 1, o :: os =>
    if o then [{ addr := addrOf i, ok := true }]
    else { addr := addrOf i, ok := false } :: attemptLoop addrOf (i + 1) n os

def DialCfg.tries (cfg : DialCfg) : Nat := if cfg.attempts == 0 then 1 else cfg.attempts

/-- the attempts `Dialer.DialContext(addr)` makes, in order -/
def dialAttempts (cfg : DialCfg) (addr : Bytes) (outcomes : List Bool) : List Attempt :=
  attemptLoop (fun _ => redirect cfg.connectTo addr) 0 cfg.tries outcomes

/-- the dial succeeds when its last attempt connected -/
def dialOk (as : List Attempt) : Bool :=
  match as.getLast? with
  | some a => a.ok
  | none => false

/-- the counter-model: the first attempt goes to the mapped address, retries to the one requested -/
def dialAttemptsUnmappedRetry (cfg : DialCfg) (addr : Bytes) (outcomes : List Bool) : List Attempt :=
  attemptLoop (fun i => if i == 0 then redirect cfg.connectTo addr else addr) 0 cfg.tries outcomes

/-! ### the counter-model: a direct-domains matcher that joins the rules of a list

One automaton per list instead of one per rule: the source texts of the include rules joined with
`|` and compiled as ONE expression, the same for the exclude rules (C17's `joinSrc`/`joinedSearch`,
the construction `ruleset` had before F10/F26 were repaired).  `|` binds weakest, so anchors and
repetitions stay inside their rule — but an unscoped flag group `(?i)` of one rule stays in force
for every rule joined after it. -/

def directMatchJoined (rules : List C17.Rule) (host : Bytes) : Bool :=
  let incl := (C17.includes rules).map (·.src)
  let excl := (C17.excludes rules).map (·.src)
  !incl.isEmpty && !(!excl.isEmpty && C17.joinedSearch excl host) && C17.joinedSearch incl host

/-- `selectProxy` with the joined matcher in place of `directMatch` -/
def selectProxyJoined (rc : RouteCfg) (host : Bytes) : Except RouteError (Option ProxyURL) :=
  match baseFn rc.base with
  | none => .ok none
  | some f =>
    if (match rc.directDomains with | some rules => directMatchJoined rules host | none => false) then .ok none
    else if rc.localhostDirect && Req.isLocalhostNames rc.localhostNames host then .ok none
    else f host

/-! ### the counter-model: an instance that remembers answers under a key -/

def assoc {κ β : Type} [DecidableEq κ] (k : κ) : List (κ × β) → Option β
  | [] => none
  | (k', b) :: t => if k' = k then some b else assoc k t

/-- answers of `f` served through a cache keyed by `key` that stores the answers `keep` admits
    (e.g. a cache of PAC answers per host in the resolver pool) -/
def memoRun {α β κ : Type} [DecidableEq κ] (key : α → κ) (keep : β → Bool) (f : α → β) :
    List (κ × β) → List α → List β
  | _, [] => []
  | cache, q :: qs =>
    match assoc (key q) cache with
    | some b => b :: memoRun key keep f cache qs
    | none => f q :: memoRun key keep f (if keep (f q) then (key q, f q) :: cache else cache) qs

/-! ### the dialer a CONNECT is tunnelled through (`connectHTTP`)

For an `http` / `https` upstream `connectHTTP` builds a `dialvia.HTTPProxyDialer` from the proxy URL
the proxy function returned for THIS request: the dialer embeds whether TLS is spoken to the proxy,
the address it dials (`proxyURL.Host`, host and port) and the credentials it sends
(`proxyURL.User`).  One is built per request; nothing about an upstream is kept between requests. -/

structure Dialer where
  kind : ProxyKind
  addr : Bytes                        -- `proxyURL.Host`
  auth : Option Bytes                 -- `Proxy-Authorization` it sends
  deriving Repr, DecidableEq

/-- `dialvia.HTTPSProxy(…, proxyURL, …)` for `https`, `dialvia.HTTPProxy(…, proxyURL)` otherwise -/
def dialerFor (u : ProxyURL) : Dialer :=
  { kind := if u.scheme == bs "https" then .https else .http, addr := u.host, auth := authValue u }

/-- where a dialer opens its connection to -/
def Dialer.hop (d : Dialer) : Hop := .viaProxy d.kind d.addr

/-- the dialers of a sequence of CONNECT requests for which the proxy function selected `us`, in
    order: each request gets the dialer of its own upstream -/
def connectDialers (us : List ProxyURL) : List Dialer := us.map dialerFor

/-- the counter-model: dialers kept by the instance in a map under `key` and reused -/
def connectDialersMemo {κ : Type} [DecidableEq κ] (key : ProxyURL → κ) (us : List ProxyURL) : List Dialer :=
  memoRun key (fun _ => true) dialerFor [] us

/-- a key made of the scheme and the host NAME of the proxy URL (what the dialer's TLS configuration
    depends on) — without the port -/
def keySchemeHostname (u : ProxyURL) : Bytes := u.scheme ++ bs "://" ++ hostname u.host

/-- the key that identifies a dialer: everything `dialerFor` reads -/
def keyFullAddress (u : ProxyURL) : Bytes × Bytes × Option (Bytes × Bytes) := (u.scheme, u.host, u.user)

end C05
end FwdVerif
