/-
  C05 — routing: which next hop the configuration selects for a target.

  Mirrors
    http_proxy.go   configureProxy (base proxy function: custom | static URL | PAC | none, wrapped by
                    directDomains, then directLocalhost; the wrappers return nil for a nil base),
                    pacProxy (first PAC entry → proxy URL)
    pac/proxy.go    Proxies.First, parseProxy, parseMode, Proxy.URL
    internal/martian/proxy_connect.go  connect (scheme dispatch of the CONNECT path)
    net/http Transport.dialConn        (scheme dispatch of the transport: anything that is not socks5
                                        is spoken to as an HTTP proxy)
    net.go          DialRedirectFromHostPortPairs
  Core-only.
-/
import FwdVerif.Model.Req

namespace FwdVerif
namespace C05

open Ascii
open Req (bs trimSpace hostname urlPort netSplitHostPort netJoinHostPort canonicalAddr DomRule domMatch
  isLoopbackLiteral Upstream basicAuthValue)

/-! ### PAC result strings (`pac/proxy.go`) -/

inductive Mode where
  | direct | proxy | http | https | socks | socks4 | socks5
  deriving Repr, DecidableEq

/-- `parseMode`: exact, case-sensitive keywords; anything else is DIRECT -/
def parseMode (s : Bytes) : Mode :=
  if s == bs "DIRECT" then .direct else if s == bs "PROXY" then .proxy else if s == bs "HTTP" then .http
  else if s == bs "HTTPS" then .https else if s == bs "SOCKS" then .socks else if s == bs "SOCKS4" then .socks4
  else if s == bs "SOCKS5" then .socks5 else .direct

/-- `strings.ToLower(m.String())` with PROXY mapped to HTTP (`Proxy.URL`) -/
def Mode.scheme : Mode → Bytes
  | .direct => bs "direct" | .proxy => bs "http" | .http => bs "http" | .https => bs "https"
  | .socks => bs "socks" | .socks4 => bs "socks4" | .socks5 => bs "socks5"

/-- `strings.Cut(s, sep)` for a one-byte separator -/
def cutByte (sep : UInt8) (s : Bytes) : Option (Bytes × Bytes) :=
  match Req.indexOfByte sep s with
  | some i => some (s.take i, s.drop (i + 1))
  | none => none

structure PacProxy where
  mode : Mode
  host : Bytes
  port : Bytes
  deriving Repr, DecidableEq

/-- `parseProxy`: `none` = error, `some none` = DIRECT -/
def parseProxy (s : Bytes) : Option (Option PacProxy) :=
  let s := trimSpace s
  if s.isEmpty then some none
  else if s == bs "DIRECT" then some none
  else match cutByte 32 s with
    | none => none                                   -- missing host:port
    | some (mode, hostport) =>
      match netSplitHostPort hostport with
      | none => none
      | some (h, p) => some (some { mode := parseMode mode, host := h, port := p })

/-- `Proxies.First`: only what precedes the first `;` is looked at -/
def pacFirst (s : Bytes) : Option (Option PacProxy) :=
  if s.isEmpty then some none
  else parseProxy ((cutByte 59 s).map (·.1) |>.getD s)

/-! ### proxy URLs and the proxy function -/

/-- the parts of a proxy `*url.URL` that matter: scheme, `Host` (host:port), user and password -/
structure ProxyURL where
  scheme : Bytes
  host : Bytes
  user : Option (Bytes × Bytes) := none
  deriving Repr, DecidableEq

/-- `Proxy.URL()`: nil for DIRECT (also for an unknown keyword, which parses as DIRECT) -/
def PacProxy.url (p : PacProxy) : Option ProxyURL :=
  if p.mode == .direct then none
  else some { scheme := p.mode.scheme, host := netJoinHostPort p.host p.port }

inductive RouteError where
  | pacScript                         -- the script threw, returned a non-string or a non-ASCII string
  | pacEntry                          -- first entry without host:port / unparsable host:port
  | unsupportedScheme (scheme : Bytes)   -- CONNECT path: proxy URL scheme other than http, https, socks5
  deriving Repr, DecidableEq

/-- what the PAC script returns for a host -/
inductive PacResult where
  | ok (s : Bytes)
  | fail                              -- exception or non-string result
  deriving Repr, DecidableEq

/-- PAC scripts of the shape `if (host == k₁) return r₁; … return dflt;` (keys compared with the
    `host` argument = `url.Hostname()`) -/
structure PacScript where
  table : List (Bytes × PacResult) := []
  dflt : PacResult := .ok []
  deriving Repr

def PacScript.eval (p : PacScript) (host : Bytes) : PacResult :=
  match p.table.find? (fun e => e.1 == host) with
  | some e => e.2
  | none => p.dflt

inductive Base where
  | none
  | custom (table : List (Bytes × Option ProxyURL)) (dflt : Option ProxyURL)   -- `UpstreamProxyFunc`
  | static (u : ProxyURL)                                                   -- `UpstreamProxy`
  | pac (p : PacScript)
  deriving Repr

structure HostPortPair where
  srcHost : Bytes := []
  srcPort : Bytes := []
  dstHost : Bytes := []
  dstPort : Bytes := []
  deriving Repr, DecidableEq

structure RouteCfg where
  base : Base := .none
  directDomains : Option (List DomRule) := none     -- `--direct-domains` (none = not configured)
  localhostDirect : Bool := false                   -- `--proxy-localhost direct`
  localhostNames : List Bytes := []
  connectTo : List HostPortPair := []
  deriving Repr

abbrev ProxyFn := Bytes → Except RouteError (Option ProxyURL)

/-- the recognised PAC proxy types nothing in the proxy can speak -/
def Mode.unsupported : Mode → Bool
  | .socks | .socks4 => true
  | _ => false

/-- `HTTPProxy.pacProxy` without the credential lookup (that is C06's `pacAttach`): a first entry of
    type `SOCKS`/`SOCKS4` fails the request (`PAC: unsupported proxy type`) -/
def pacProxy (p : PacScript) : ProxyFn := fun host =>
  match p.eval host with
  | .fail => .error .pacScript
  | .ok s =>
    if s.any (fun c => c ≥ 128) then .error .pacScript else
    match pacFirst s with
    | none => .error .pacEntry
    | some none => .ok none
    | some (some e) => if e.mode.unsupported then .error (.unsupportedScheme e.mode.scheme) else .ok e.url

def baseFn : Base → Option ProxyFn
  | .none => none
  | .custom t d => some fun host =>
      match t.find? (fun e => e.1 == host) with
      | some e => .ok e.2
      | none => .ok d
  | .static u => some fun _ => .ok (some u)
  | .pac p => some (pacProxy p)

/-- `directDomains(fn)`: nil stays nil -/
def wrapDirectDomains (rc : RouteCfg) : Option ProxyFn → Option ProxyFn
  | none => none
  | some f =>
    match rc.directDomains with
    | none => some f
    | some rules => some fun host => if domMatch rules host then .ok none else f host

/-- `directLocalhost(fn)`: nil stays nil -/
def wrapDirectLocalhost (rc : RouteCfg) : Option ProxyFn → Option ProxyFn
  | none => none
  | some f =>
    if rc.localhostDirect then
      some fun host => if Req.isLocalhostNames rc.localhostNames host then .ok none else f host
    else some f

/-- `hp.proxyFunc` as `configureProxy` composes it -/
def proxyFunc (rc : RouteCfg) : Option ProxyFn :=
  wrapDirectLocalhost rc (wrapDirectDomains rc (baseFn rc.base))

/-- the proxy selected for a target host name (`req.URL.Hostname()`); `none` = go direct -/
def selectProxy (rc : RouteCfg) (host : Bytes) : Except RouteError (Option ProxyURL) :=
  match proxyFunc rc with
  | none => .ok none
  | some f => f host

/-! ### scheme dispatch -/

inductive ProxyKind where
  | http | https | socks5
  deriving Repr, DecidableEq

inductive Hop where
  | direct (addr : Bytes)
  | viaProxy (kind : ProxyKind) (addr : Bytes)   -- `addr` = what the dialer is asked for
  deriving Repr, DecidableEq

def Hop.addr : Hop → Bytes
  | .direct a => a
  | .viaProxy _ a => a

/-- CONNECT path (`martian.Proxy.connect`): `authority` is the request-target -/
def routeConnect (rc : RouteCfg) (authority : Bytes) : Except RouteError Hop :=
  match selectProxy rc (hostname authority) with
  | .error e => .error e
  | .ok none => .ok (.direct authority)
  | .ok (some u) =>
    if u.scheme == bs "http" then .ok (.viaProxy .http u.host)
    else if u.scheme == bs "https" then .ok (.viaProxy .https u.host)
    else if u.scheme == bs "socks5" then
      let port := urlPort u.host
      .ok (.viaProxy .socks5 (netJoinHostPort (hostname u.host) (if port.isEmpty then bs "1080" else port)))
    else .error (.unsupportedScheme u.scheme)

/-- transport path (`http.Transport`): SOCKS5 for `socks5`/`socks5h`, TLS to the proxy for `https`,
    and HTTP-proxy protocol for every other scheme -/
def routeRequest (rc : RouteCfg) (scheme urlHost : Bytes) : Except RouteError Hop :=
  match selectProxy rc (hostname urlHost) with
  | .error e => .error e
  | .ok none => .ok (.direct (canonicalAddr scheme urlHost))
  | .ok (some u) =>
    if u.scheme == bs "socks5" || u.scheme == bs "socks5h" then .ok (.viaProxy .socks5 (canonicalAddr u.scheme u.host))
    else if u.scheme == bs "https" then .ok (.viaProxy .https (canonicalAddr u.scheme u.host))
    else .ok (.viaProxy .http (canonicalAddr u.scheme u.host))

/-- what the property asks of a PAC-selected proxy type: the recognised but unsupported types fail
    the request on both paths -/
def routeRequestSpec (rc : RouteCfg) (scheme urlHost : Bytes) : Except RouteError Hop :=
  match selectProxy rc (hostname urlHost) with
  | .ok (some u) =>
    if u.scheme == bs "socks" || u.scheme == bs "socks4" then .error (.unsupportedScheme u.scheme)
    else routeRequest rc scheme urlHost
  | _ => routeRequest rc scheme urlHost

/-- proxy URLs that do not come from a PAC script are validated when the configuration is read
    (`config.go`: `http`, `https`, `socks5` only; a custom `UpstreamProxyFunc` is held to the same
    contract): in particular none of them has the scheme `socks` or `socks4` -/
def legacySocks (u : ProxyURL) : Bool := u.scheme == bs "socks" || u.scheme == bs "socks4"

def Base.validated : Base → Bool
  | .none => true
  | .pac _ => true
  | .static u => !legacySocks u
  | .custom t d => t.all (fun e => (e.2.map legacySocks) != some true) && (d.map legacySocks) != some true

/-! ### `--connect-to` (`DialRedirectFromHostPortPairs`) -/

def HostPortPair.matches (s : HostPortPair) (host port : Bytes) : Bool :=
  (s.srcHost.isEmpty || s.srcHost == host) && (s.srcPort.isEmpty || s.srcPort == port)

/-- first matching rule; empty source fields match anything, empty destination fields keep the
    original; an address `net.SplitHostPort` rejects is left alone -/
def redirect (rules : List HostPortPair) (addr : Bytes) : Bytes :=
  match netSplitHostPort addr with
  | none => addr
  | some (host, port) =>
    match rules.find? (fun s => s.matches host port) with
    | none => addr
    | some s => netJoinHostPort (if s.dstHost.isEmpty then host else s.dstHost)
                                (if s.dstPort.isEmpty then port else s.dstPort)

/-- address the socket is opened to for a hop -/
def dialAddr (rc : RouteCfg) (h : Hop) : Bytes := redirect rc.connectTo h.addr

/-! ### bridge to the request pipeline -/

def authValue (u : ProxyURL) : Option Bytes := u.user.map fun c => basicAuthValue c.1 c.2

/-- a proxy URL as the pipeline's `Upstream` -/
def proxyUpstream (u : ProxyURL) : Upstream :=
  if u.scheme == bs "http" then .http u.host (authValue u)
  else if u.scheme == bs "https" then .https u.host (authValue u)
  else if u.scheme == bs "socks5" then .socks5 u.host u.user
  else .other u.scheme u.host (authValue u)

/-- the `Req.Upstream` a selection amounts to -/
def toUpstream : Except RouteError (Option ProxyURL) → Upstream
  | .error _ => .failed
  | .ok none => .none
  | .ok (some u) => proxyUpstream u

end C05
end FwdVerif
