/-
  C12 §13 — the interception point: `mitm.Config.cert` (internal/martian/mitm/mitm.go), the generator of the
  leaf certificates `tls.Config.GetCertificate` hands out during the handshake of an intercepted tunnel.  Core-only.

  Anchors (forwarder):
    mitm.go  Config.TLSForHost   the name of the ClientHello (SNI), the CONNECT authority when it has none
    mitm.go  Config.cert         `net.SplitHostPort` strips a port; a certificate in the cache is returned;
                                 otherwise a template (CommonName and dNSName / iPAddress = the name) is signed
                                 (`x509.CreateCertificate`), parsed back and put into the cache
    crypto/x509, encoding/asn1   a dNSName must be an IA5String, a CommonName valid UTF-8: a name with a byte
                                 ≥ 0x80 is refused (`cannot be encoded as an IA5String`, `string not valid
                                 UTF-8`); an IP literal has no such byte.  go1.23 refuses nothing else: empty
                                 labels, blanks, `*`, `_`, over-long labels and names are all signed
    proxy_conn.go handleMITM     a generation that fails fails THIS handshake (alert internal_error, close)

  The generator is a shared resource of the listener: every handshake of every client goes through it.  The
  model carries an explicit `locked` flag for whatever serialises generation: a generation that finds the
  generator locked does not return (`blocked`; the handshake hangs until the MITM handshake time-out cuts the
  client off).  In the code as it is nothing is ever left locked (`CertVariant.code`); a generator that takes a
  lock and returns on the error path without releasing it is `CertVariant.keepLockOnError`.
-/
import FwdVerif.Model.C12

namespace FwdVerif
namespace C12

/-! ## §13 the certificate generator of the intercepting listener -/

/-- `host, _, err := net.SplitHostPort(hostname); if err == nil { hostname = host }` -/
def certHost (hostname : Bytes) : Bytes :=
  match Req.netSplitHostPort hostname with
  | some (h, _) => h
  | none => hostname

/-- what `x509.CreateCertificate` refuses of a name: a byte outside ASCII (not an IA5String as dNSName; as
    CommonName not UTF-8, or UTF-8 but the dNSName still refused; such a name is no IP literal) -/
def certRefused (host : Bytes) : Bool := host.any (fun b => b ≥ 0x80)

/-- what a call of the generator comes to -/
inductive CertResult where
  | cached     -- the certificate was in the cache
  | issued     -- signed, cached, returned
  | refused    -- no certificate can be made for the name: this handshake fails
  | blocked    -- the generator is locked: the call does not return
  deriving DecidableEq, Repr

structure CertState where
  locked : Bool := false
  cache : List Bytes := []
  deriving DecidableEq, Repr

/-- what the generator does with its lock when the generation fails -/
inductive CertVariant where
  | code              -- the tree: nothing stays locked on any return
  | keepLockOnError   -- NOT the code: the error return forgets the unlock
  deriving DecidableEq, Repr

def certGenV (v : CertVariant) (s : CertState) (hostname : Bytes) : CertState × CertResult :=
  let h := certHost hostname
  if s.cache.contains h then (s, .cached)
  else if s.locked then (s, .blocked)
  else if certRefused h then
    match v with
    | .code => (s, .refused)
    | .keepLockOnError => ({ s with locked := true }, .refused)
  else ({ s with cache := h :: s.cache }, .issued)

/-- `Config.cert` as it is -/
def certGen (s : CertState) (hostname : Bytes) : CertState × CertResult := certGenV .code s hostname

/-- the generator over the names of a sequence of handshakes -/
def certRunV (v : CertVariant) : CertState → List Bytes → CertState × List CertResult
  | s, [] => (s, [])
  | s, n :: rest =>
    let r := certGenV v s n
    let rr := certRunV v r.1 rest
    (rr.1, r.2 :: rr.2)

def certRun (s : CertState) (names : List Bytes) : CertState × List CertResult := certRunV .code s names

end C12
end FwdVerif
