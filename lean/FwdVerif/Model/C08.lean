/-
  C08 — PROXY-protocol listener (`/repo/proxyproto/{proxy,v1,v2,net}.go`).

  The model is a transliteration of `ReadHeader`, `readV1Header`, `readUntilCRLF`,
  `parseV1Header`, `split`, `readV2Header` over an input byte list (the stream).  The only reads the
  code performs are `io.ReadFull(r, b)` and 1-byte `r.Read`, so segmentation does not appear: a
  stream that ends (or stalls) before the requested bytes arrive is the error outcome.

  The 232-byte stack buffer `buf` is a `List UInt8` of length 232; every Go slice / index expression
  on it is evaluated through `sl` / `ix`, which yield the outcome `panic` when Go's bound check
  would fail.  Panic-freedom is therefore a theorem (`c08_no_panic`), not an artefact of totality.

  The model follows the code after the repairs of F5 and F4 (DESIGN.md §6): the optimistic read of a
  `TCP6` line is 9 bytes (line length 22 = the shortest line, `PROXY TCP6 :: :: 1 2\r\n`), and
  `Conn.LocalAddr`/`RemoteAddr` fall back to the socket's own address when the accepted header
  carries no Destination/Source (v2 PROXY command with an unlisted family byte, v2 command nibble
  other than 0/1).  Such headers are still *accepted* by the reader with nil addresses; only the
  address selection changed.

  `net.ParseIP` (Go 1.23: `netip.ParseAddr` minus zones, result `As16`) and `strconv.Atoi` are
  modelled as the code uses them and validated against Go in the correspondence run (`parseip`,
  `atoi` verbs).  Core-only.
-/
import FwdVerif.Lib.Wire

namespace FwdVerif
namespace C08

/-! ### Outcomes -/

/-- Which `return nil, err` of the code was taken. -/
inductive Err where
  | eofIdent      -- "while reading proxy proto identifier": fewer than 13 bytes
  | notProxy      -- "expected proxy protocol; found …"
  | v1Short       -- optimistic TCP4/TCP6 read or the byte-wise scan ran out of input
  | v1GaveUp      -- "gave up after 107 bytes"
  | v1Proto       -- "unrecognized protocol"
  | v1BadIP       -- "invalid ip … at pos …"
  | v1BadPort     -- "invalid port … at pos …"
  | v1Corrupted   -- "address line … corrupted" (fewer than four fields)
  | v2Short       -- family/length bytes or the announced remainder ran out of input
  | v2Version     -- "unexpected version number"
  | v2TooLong     -- "header lengh of … is greater than the allowed 2048 bytes"
  | v2NoAddr      -- PROXY command with zero length
  | v2Short4      -- "expected 12 bytes for IPV4 address"
  | v2Short6      -- "expected 36 bytes for IPV6 address"
  | v2Unix        -- "received UNIX socket proxy command, Currently not supported"
  deriving DecidableEq, Repr

/-- coarse error classes compared with the implementation -/
inductive ErrClass where
  | short       -- the stream ended / stalled inside the header
  | notProxy    -- no PROXY signature
  | malformed   -- signature present, header refused
  deriving DecidableEq, Repr

def Err.cls : Err → ErrClass
  | .eofIdent | .v1Short | .v2Short => .short
  | .notProxy => .notProxy
  | _ => .malformed

inductive Res (α : Type) where
  | ok (a : α)
  | err (e : Err)
  | panic
  deriving DecidableEq, Repr

@[inline] def Res.bind {α β : Type} (x : Res α) (f : α → Res β) : Res β :=
  match x with
  | .ok a => f a
  | .err e => .err e
  | .panic => .panic

instance : Monad Res where
  pure := .ok
  bind := Res.bind

/-! ### Go slice / index expressions with their bound checks -/

/-- `b[lo:hi]` -/
def sl (b : Bytes) (lo hi : Nat) : Res Bytes :=
  if lo ≤ hi ∧ hi ≤ b.length then .ok ((b.take hi).drop lo) else .panic

/-- `b[lo:]` -/
def slFrom (b : Bytes) (lo : Nat) : Res Bytes :=
  if lo ≤ b.length then .ok (b.drop lo) else .panic

/-- `b[i]` -/
def ix (b : Bytes) (i : Nat) : Res UInt8 :=
  match b[i]? with
  | some x => .ok x
  | none => .panic

/-- `io.ReadFull(r, buf[lo:hi])`: the slice expression is evaluated first (bound check), then
    exactly `hi-lo` bytes are taken from the stream; a shorter stream is the error `e`.
    Returns the updated buffer and the rest of the stream. -/
def readFullInto (buf s : Bytes) (lo hi : Nat) (e : Err) : Res (Bytes × Bytes) :=
  if lo ≤ hi ∧ hi ≤ buf.length then
    if hi - lo ≤ s.length then
      .ok (buf.take lo ++ s.take (hi - lo) ++ buf.drop hi, s.drop (hi - lo))
    else .err e
  else .panic

/-- `binary.BigEndian.Uint16(b)` (`_ = b[1]` bound check) -/
def be16 (b : Bytes) : Res Nat :=
  match b with
  | x :: y :: _ => .ok (x.toNat * 256 + y.toNat)
  | _ => .panic

/-! ### Header -/

/-- `*net.TCPAddr` / `*net.UDPAddr`; `ip` is the `net.IP` byte slice (16 bytes on every path of
    this code), `port` is a Go `int` (the code does not range-check it). -/
structure Addr where
  udp : Bool
  ip : Bytes
  port : Int
  deriving DecidableEq, Repr

/-- `proxyproto.Header` (`none` = nil `net.Addr`, `[]` = nil slice). -/
structure Header where
  source : Option Addr
  dest : Option Addr
  isLocal : Bool
  version : Nat
  rawTLVs : Bytes
  unknown : Bytes
  deriving DecidableEq, Repr

def v1Ident : Bytes := [80, 82, 79, 88, 89, 32]                         -- "PROXY "
def v2Ident : Bytes := [13, 10, 13, 10, 0, 13, 10, 81, 85, 73, 84, 10]   -- "\r\n\r\n\x00\r\nQUIT\n"
def crlf : Bytes := [13, 10]
def sUnknown : Bytes := [85, 78, 75, 78, 79, 87, 78]                    -- "UNKNOWN"
def sTCP4 : Bytes := [84, 67, 80, 52]
def sTCP6 : Bytes := [84, 67, 80, 54]

def bufCap : Nat := 232
def bufInit : Bytes := List.replicate 232 0

/-! ### `strconv.Atoi` -/

def isDigit (c : UInt8) : Bool := 48 ≤ c && c ≤ 57

/-- decimal value of a digit string, `none` on a non-digit -/
def digitsVal : Bytes → Nat → Option Nat
  | [], acc => some acc
  | c :: cs, acc => if isDigit c then digitsVal cs (acc * 10 + (c.toNat - 48)) else none

/-- the digits after the optional sign -/
def atoiDigits (neg : Bool) (ds : Bytes) : Option Int :=
  if ds.isEmpty then none else
  match digitsVal ds 0 with
  | none => none
  | some v =>
    if neg then (if v ≤ 9223372036854775808 then some (-(v : Int)) else none)
    else (if v ≤ 9223372036854775807 then some (v : Int) else none)

/-- `strconv.Atoi` on a 64-bit platform: optional sign, at least one digit, digits only (no
    underscores in base 10), value in the int64 range (the fast path for < 19 bytes cannot
    overflow; the slow path `ParseInt(s, 10, 0)` reports a range error as an error). -/
def atoi (s : Bytes) : Option Int :=
  match s with
  | [] => none
  | c :: r =>
    if c == 45 then atoiDigits true r
    else if c == 43 then atoiDigits false r
    else atoiDigits false (c :: r)

/-! ### `net.ParseIP` -/

/-- `parseIPv4Fields`: `val`, `pos`, `digLen` as in the Go loop; `acc` = `fields[0:pos]`.
    (`i == 0 || s[i-1] == '.'` is `digLen == 0`: the counter is reset exactly at the start and after
    a dot, and any other non-digit has already failed.) -/
def v4Loop : Bytes → Nat → Nat → Nat → Bytes → Option Bytes
  | [], val, pos, _, acc => if pos < 3 then none else some (acc ++ [UInt8.ofNat val])
  | c :: cs, val, pos, digLen, acc =>
    if isDigit c then
      if digLen == 1 && val == 0 then none
      else
        let val' := val * 10 + (c.toNat - 48)
        if val' > 255 then none else v4Loop cs val' pos (digLen + 1) acc
    else if c == 46 then
      if digLen == 0 || cs.isEmpty then none
      else if pos == 3 then none
      else v4Loop cs 0 (pos + 1) 0 (acc ++ [UInt8.ofNat val])
    else none

/-- `parseIPv4Fields(s)` → the four octets -/
def parseV4Fields (s : Bytes) : Option Bytes := v4Loop s 0 0 0 []

def hexVal (c : UInt8) : Option Nat :=
  if 48 ≤ c && c ≤ 57 then some (c.toNat - 48)
  else if 97 ≤ c && c ≤ 102 then some (c.toNat - 87)
  else if 65 ≤ c && c ≤ 70 then some (c.toNat - 55)
  else none

/-- the inlined hex-number loop of `parseIPv6`: `(acc, off, unread)`; `none` = the group has more
    than 4 digits (`off > 3`) or overflows 16 bits -/
def hexGroup : Bytes → Nat → Nat → Option (Nat × Nat × Bytes)
  | [], off, acc => some (acc, off, [])
  | c :: cs, off, acc =>
    match hexVal c with
    | none => some (acc, off, c :: cs)
    | some d =>
      let acc' := acc * 16 + d
      if off > 3 then none
      else if acc' > 65535 then none
      else hexGroup cs (off + 1) acc'

/-- main loop of `parseIPv6` (`for i < 16`), `ip` = the bytes stored so far (`i = ip.length`),
    `ell` = position of the ellipsis; result `(ip, ell, unread)` at loop exit.  Each turn stores at
    least two bytes, so 8 units of fuel are never exhausted. -/
def v6Loop : Nat → Bytes → Bytes → Option Nat → Option (Bytes × Option Nat × Bytes)
  | 0, s, ip, ell => some (ip, ell, s)
  | fuel + 1, s, ip, ell =>
    if ip.length ≥ 16 then some (ip, ell, s) else
    match hexGroup s 0 0 with
    | none => none
    | some (acc, off, rest) =>
      if off == 0 then none
      else if rest.head? == some 46 then
        -- followed by a dot: trailing IPv4
        if ell.isNone && ip.length != 12 then none
        else if ip.length + 4 > 16 then none
        else match parseV4Fields s with
          | none => none
          | some f4 => some (ip ++ f4, ell, [])
      else
        let ip' := ip ++ [UInt8.ofNat (acc / 256), UInt8.ofNat (acc % 256)]
        match rest with
        | [] => some (ip', ell, [])
        | c :: s1 =>
          if c != 58 then none
          else match s1 with
            | [] => none                           -- colon must be followed by more characters
            | c2 :: s2 =>
              if c2 == 58 then
                if ell.isSome then none
                else if s2.isEmpty then some (ip', some ip'.length, [])
                else v6Loop fuel s2 ip' (some ip'.length)
              else v6Loop fuel s1 ip' ell

/-- `parseIPv6` for a string without `%` -/
def parseV6 (s : Bytes) : Option Bytes :=
  let start : Option (Bytes × Option Nat) :=
    match s with
    | 58 :: 58 :: r => some (r, some 0)
    | _ => some (s, none)
  match start with
  | none => none
  | some (s0, ell0) =>
    if ell0.isSome && s0.isEmpty then some (List.replicate 16 0) else
    match v6Loop 8 s0 [] ell0 with
    | none => none
    | some (ip, ell, rest) =>
      if !rest.isEmpty then none
      else if ip.length < 16 then
        match ell with
        | none => none
        | some e => some (ip.take e ++ List.replicate (16 - ip.length) 0 ++ ip.drop e)
      else if ell.isSome then none
      else some ip

def v4InV6Prefix : Bytes := [0, 0, 0, 0, 0, 0, 0, 0, 0, 0, 255, 255]

/-- first of `.`, `:`, `%` in the string (the dispatch loop of `netip.ParseAddr`) -/
def firstSpecial : Bytes → Option UInt8
  | [] => none
  | c :: cs => if c == 46 || c == 58 || c == 37 then some c else firstSpecial cs

/-- `net.ParseIP(string(b))` as 16 bytes.  A `%` anywhere refuses the string: either
    `netip.ParseAddr` fails, or it yields a zoned address, which `net.parseIP` rejects. -/
def parseIP (s : Bytes) : Option Bytes :=
  match firstSpecial s with
  | some 46 => (parseV4Fields s).map (v4InV6Prefix ++ ·)
  | some 58 => if s.contains 37 then none else parseV6 s
  | _ => none

/-- the text is dispatched to the IPv4 / IPv6 parser -/
def isV4Text (f : Bytes) : Bool := firstSpecial f == some 46
def isV6Text (f : Bytes) : Bool := firstSpecial f == some 58

/-! ### v1 -/

/-- `split`: the fields between single spaces (`bytes.IndexByte(buf, ' ')`, `buf[:m]`,
    `buf[m+1:]` with `0 ≤ m < len(buf)`: in range by construction). -/
def splitSp : Bytes → List Bytes
  | [] => [[]]
  | c :: cs =>
    if c == 32 then [] :: splitSp cs
    else match splitSp cs with
      | f :: fs => (c :: f) :: fs
      | [] => [[c]]

/-- the callback of `parseV1Header` run over the fields in order (`pos` = 0,1,2,3; later
    positions are ignored by the `switch`); state = (src.IP, dest.IP, src.Port, dest.Port, done) -/
structure V1Acc where
  srcIP : Bytes := []
  dstIP : Bytes := []
  srcPort : Int := 0
  dstPort : Int := 0
  done : Bool := false
  deriving DecidableEq, Repr

def v1Fields : List Bytes → Nat → V1Acc → Res V1Acc
  | [], _, a => .ok a
  | f :: fs, pos, a =>
    match pos with
    | 0 => match parseIP f with
      | none => .err .v1BadIP
      | some ip => v1Fields fs 1 { a with srcIP := ip }
    | 1 => match parseIP f with
      | none => .err .v1BadIP
      | some ip => v1Fields fs 2 { a with dstIP := ip }
    | 2 => match atoi f with
      | none => .err .v1BadPort
      | some p => v1Fields fs 3 { a with srcPort := p }
    | 3 => match atoi f with
      | none => .err .v1BadPort
      | some p => v1Fields fs 4 { a with dstPort := p, done := true }
    | n + 4 => v1Fields fs (n + 5) a

/-- `parseV1Header(buf)` -/
def parseV1Header (b : Bytes) : Res Header := do
  let t ← slFrom b 11                                  -- buf[11:]
  let a ← v1Fields (splitSp t) 0 {}
  if !a.done then .err .v1Corrupted
  else pure { source := some ⟨false, a.srcIP, a.srcPort⟩, dest := some ⟨false, a.dstIP, a.dstPort⟩,
              isLocal := false, version := 1, rawTLVs := [], unknown := [] }

/-- loop of `readUntilCRLF` with `fuel = 107 - idx` (the loop condition `idx < 107`);
    returns `buf[0:idx-1]` and the rest of the stream -/
def untilLoop : Nat → Bytes → Bytes → Nat → Res (Bytes × Bytes)
  | 0, _, _, _ => .err .v1GaveUp
  | fuel + 1, buf, s, idx => do
    let _ ← sl buf idx (idx + 1)                       -- r.Read(buf[idx:idx+1])
    match s with
    | [] => .err .v1Short                              -- c != 1 (EOF / stalled)
    | c :: s' =>
      let buf' := buf.take idx ++ c :: buf.drop (idx + 1)
      let w ← sl buf' (idx - 1) (idx + 1)              -- buf[idx-1:idx+1]
      if w == crlf then do
        let b ← sl buf' 0 (idx - 1)                    -- buf[0:idx-1]
        pure (b, s')
      else untilLoop fuel buf' s' (idx + 1)

def readUntilCRLF (buf s : Bytes) (idx : Nat) : Res (Bytes × Bytes) :=
  untilLoop (107 - idx) buf s idx

/-- `readV1Header(buf, r)`; `buf[0:13]` already holds the first 13 bytes -/
def readV1Header (buf s : Bytes) : Res (Header × Bytes) := do
  let p7 ← sl buf 6 13
  if p7 == sUnknown then do
    let (b, rest) ← readUntilCRLF buf s 13
    pure ({ source := none, dest := none, isLocal := true, version := 1, rawTLVs := [], unknown := b }, rest)
  else do
  let p4 ← sl buf 6 10
  if p4 == sTCP4 then do
    let (buf, s) ← readFullInto buf s 13 32 .v1Short
    let e ← sl buf 30 32
    if e == crlf then do
      let b ← sl buf 0 30
      let h ← parseV1Header b
      pure (h, s)
    else do
      let (b, rest) ← readUntilCRLF buf s 32
      let h ← parseV1Header b
      pure (h, rest)
  else do
  let p4' ← sl buf 6 10
  if p4' == sTCP6 then do
    -- minimum TCP6 line `PROXY TCP6 :: :: 2 3\r\n` = 22 bytes, 13 already read: 9 more
    let (buf, s) ← readFullInto buf s 13 22 .v1Short
    let e ← sl buf 20 22
    if e == crlf then do
      let b ← sl buf 0 20
      let h ← parseV1Header b
      pure (h, s)
    else do
      let (b, rest) ← readUntilCRLF buf s 22
      let h ← parseV1Header b
      pure (h, rest)
  else do
    let _ ← sl buf 6 10                                -- '%s' of buf[6:10] in the error text
    .err .v1Proto

/-! ### v2 -/

def mkAddr (udp : Bool) (ip : Bytes) (port : Nat) : Option Addr := some ⟨udp, ip, (port : Int)⟩

/-- `readV2Header` after the 16 fixed bytes: `b12` = version/command byte, `fam` = family byte,
    `length` = announced length of the remainder, `s` = the stream after the 16 bytes -/
def v2Rest (b12 fam : UInt8) (length : Nat) (s : Bytes) : Res (Header × Bytes) :=
  if length > 2048 then .err .v2TooLong else
  -- tr = make([]byte, length); io.ReadFull(r, tr)   (tr stays nil when length == 0)
  if length > s.length then .err .v2Short else
  let tr := s.take length
  let s := s.drop length
  let h0 : Header := { source := none, dest := none, isLocal := false, version := 2, rawTLVs := [], unknown := [] }
  let cmd := b12.toNat % 16                                 -- buf[12] & 0x0F
  -- `tlv h off`: `if offset != len(tr) { h.RawTLVs = tr[offset:] }`
  let tlv : Header → Nat → Res (Header × Bytes) := fun h off =>
    if off != tr.length then do
      let t ← slFrom tr off
      pure ({ h with rawTLVs := t }, s)
    else pure (h, s)
  if cmd == 0 then                                          -- LOCAL
    let h := { h0 with isLocal := true }
    if length == 0 then pure (h, s) else tlv h 0
  else if cmd == 1 then                                     -- PROXY
    if length == 0 then .err .v2NoAddr
    else if fam == 0x11 || fam == 0x12 then
      if tr.length < 12 then .err .v2Short4 else do
      let a ← sl tr 0 4
      let d ← sl tr 4 8
      let sp ← (sl tr 8 10) >>= be16
      let dp ← (sl tr 10 12) >>= be16
      let udp := fam.toNat % 16 == 2
      tlv { h0 with source := mkAddr udp (v4InV6Prefix ++ a) sp, dest := mkAddr udp (v4InV6Prefix ++ d) dp } 12
    else if fam == 0x21 || fam == 0x22 then
      if tr.length < 36 then .err .v2Short6 else do
      let a ← sl tr 0 16
      let d ← sl tr 16 32
      let sp ← (sl tr 32 34) >>= be16
      let dp ← (sl tr 34 36) >>= be16
      let udp := fam.toNat % 16 == 2
      tlv { h0 with source := mkAddr udp a sp, dest := mkAddr udp d dp } 36
    else if fam == 0x31 || fam == 0x32 then .err .v2Unix
    else tlv h0 0                                           -- unlisted family: accepted, addresses stay nil
  else tlv h0 0                                             -- command ∉ {LOCAL, PROXY}: accepted, addresses stay nil

/-- `readV2Header(buf, r)`; `buf[0:13]` already holds the first 13 bytes -/
def readV2Header (buf s : Bytes) : Res (Header × Bytes) := do
  let (buf, s) ← readFullInto buf s 13 16 .v2Short
  let b12 ← ix buf 12
  if b12.toNat / 16 != 2 then .err .v2Version else do      -- (buf[12] & 0xF0) != 0x20
  let l2 ← sl buf 14 16
  let length ← be16 l2
  let fam ← ix buf 13
  v2Rest b12 fam length s

/-! ### `ReadHeader` -/

/-- `proxyproto.ReadHeader(r)` over the stream `s`: the parsed header and the unread rest. -/
def readHeader (s : Bytes) : Res (Header × Bytes) := do
  let (buf, s) ← readFullInto bufInit s 0 13 .eofIdent
  let id ← sl buf 0 13
  if v2Ident.isPrefixOf id then readV2Header buf s
  else if v1Ident.isPrefixOf id then readV1Header buf s
  else do
    let _ ← sl buf 0 14                                 -- hex.Dump(buf[0:14])
    .err .notProxy

/-! ### `Conn`: address selection and the once-only header read -/

/-- what `LocalAddr()` / `RemoteAddr()` return: the socket's own address, an address taken from
    the header, or a nil `net.Addr`.  `missing` is kept for *observations* of an implementation
    (`Obs`, the `holds` verb: a tree without the repair of F4 returns a nil `net.Addr`); nothing in
    the model produces it (`c08_addr_total`). -/
inductive AddrSel where
  | sock
  | hdr (a : Addr)
  | missing
  deriving DecidableEq, Repr

/-- outcome of the single header read as `Conn` stores it (`header`, `headerErr`) -/
inductive HdrState where
  | ok (h : Header)
  | failed (e : Err)
  deriving DecidableEq, Repr

/-- `… || c.header.Source == nil { return c.Conn.RemoteAddr() }; return c.header.Source`
    (likewise `Destination`): an absent header address selects the socket's own -/
def ofOpt : Option Addr → AddrSel
  | some a => .hdr a
  | none => .sock

/-- `Conn.RemoteAddr` after the header read:
    `if c.headerErr != nil || c.header.IsLocal || c.header.Source == nil { return c.Conn.RemoteAddr() }` -/
def remoteSel : HdrState → AddrSel
  | .failed _ => .sock
  | .ok h => if h.isLocal then .sock else ofOpt h.source

/-- `Conn.LocalAddr` after the header read:
    `if c.headerErr != nil || c.header.IsLocal || c.header.Destination == nil { return c.Conn.LocalAddr() }` -/
def localSel : HdrState → AddrSel
  | .failed _ => .sock
  | .ok h => if h.isLocal then .sock else ofOpt h.dest

/-- `Conn`: `wire` = bytes sent by the peer and not yet taken from the socket, `hdr` = `none`
    until `readHeaderContext` ran (`isHeaderRead`), `runs` counts executions of `ReadHeader`. -/
structure Conn where
  wire : Bytes
  hdr : Option HdrState := none
  runs : Nat := 0
  crashed : Bool := false
  deriving DecidableEq, Repr

inductive Op where
  | read (k : Nat)      -- `Read` that is handed at most `k` bytes by the socket
  | write
  | remoteAddr
  | localAddr
  | header
  deriving DecidableEq, Repr

inductive Out where
  | data (d : Bytes)
  | wrote
  | addr (a : AddrSel)
  | header (h : Header)
  | fail (e : Err)
  | panic
  deriving DecidableEq, Repr

/-- `readHeaderContext` under `headerMu`: runs `ReadHeader` only when `isHeaderRead` is false -/
def Conn.ensure (c : Conn) : Conn :=
  if c.crashed then c else
  match c.hdr with
  | some _ => c
  | none =>
    match readHeader c.wire with
    | .ok (h, rest) => { c with wire := rest, hdr := some (.ok h), runs := c.runs + 1 }
    | .err e => { c with hdr := some (.failed e), runs := c.runs + 1 }
    | .panic => { c with crashed := true, runs := c.runs + 1 }

/-- One call on the connection.  Calls of concurrent goroutines are serialised by `headerMu` /
    `isHeaderRead`, so a history of concurrent callers is some interleaving = a list of `Op`. -/
def Conn.step (c : Conn) (op : Op) : Conn × Out :=
  let c := c.ensure
  if c.crashed then (c, .panic) else
  match c.hdr with
  | none => (c, .panic)            -- unreachable: `ensure` sets `hdr` unless it crashed
  | some st =>
    match op, st with
    | .remoteAddr, st => (c, .addr (remoteSel st))
    | .localAddr, st => (c, .addr (localSel st))
    | .read _, .failed e => (c, .fail e)
    | .write, .failed e => (c, .fail e)
    | .header, .failed e => (c, .fail e)
    | .read k, .ok _ => ({ c with wire := c.wire.drop k }, .data (c.wire.take k))
    | .write, .ok _ => (c, .wrote)
    | .header, .ok h => (c, .header h)

def Conn.run : Conn → List Op → Conn × List Out
  | c, [] => (c, [])
  | c, op :: ops =>
    let (c', o) := c.step op
    let (c'', os) := Conn.run c' ops
    (c'', o :: os)

/-- outcome of the single header read on a connection whose peer sends `bs`
    (`readHeader` never panics, `c08_no_panic`; the last case is there for totality) -/
def hdrOf (bs : Bytes) : HdrState :=
  match readHeader bs with
  | .ok (h, _) => .ok h
  | .err e => .failed e
  | .panic => .failed .eofIdent

/-- the bytes that follow the header -/
def payloadOf (bs : Bytes) : Bytes :=
  match readHeader bs with
  | .ok (_, rest) => rest
  | _ => []

/-- what a call on the connection may answer, given the outcome of the one header read -/
def Answer (st : HdrState) : Op → Out → Prop
  | .remoteAddr, o => o = .addr (remoteSel st)
  | .localAddr, o => o = .addr (localSel st)
  | .header, o => match st with
    | .ok h => o = .header h
    | .failed e => o = .fail e
  | .write, o => match st with
    | .ok _ => o = .wrote
    | .failed e => o = .fail e
  | .read _, o => match st with
    | .ok _ => ∃ d, o = .data d
    | .failed e => o = .fail e

/-- every call of a history got an allowed answer -/
inductive Answers (st : HdrState) : List Op → List Out → Prop where
  | nil : Answers st [] []
  | cons {op : Op} {o : Out} {ops : List Op} {os : List Out} :
      Answer st op o → Answers st ops os → Answers st (op :: ops) (o :: os)

/-- all bytes handed to `Read` callers, in order -/
def dataOf : List Out → Bytes
  | [] => []
  | .data d :: os => d ++ dataOf os
  | _ :: os => dataOf os

/-! ### Specification-level notions used by the theorems and the `holds` verbs -/

/-- position just after the first CRLF, if any -/
def firstCRLFEnd : Bytes → Option Nat
  | [] => none
  | c :: cs => if c == 13 && cs.head? == some 10 then some 2 else (firstCRLFEnd cs).map (· + 1)

/-- Where the header ends according to the protocol text, decided from the input alone:
    v2 = 16 + announced length, v1 = just after the first CRLF. -/
def specHdrEnd (bs : Bytes) : Option Nat :=
  if v2Ident.isPrefixOf bs then
    match bs[14]?, bs[15]? with
    | some x, some y => some (16 + (x.toNat * 256 + y.toNat))
    | _, _ => none
  else if v1Ident.isPrefixOf bs then firstCRLFEnd bs
  else none

/-! ### Well-formed headers, constructively (the domain of the exactness theorems) -/

inductive V1Kind where
  | tcp4 | tcp6
  deriving DecidableEq, Repr

def V1Kind.tag : V1Kind → Bytes
  | .tcp4 => sTCP4
  | .tcp6 => sTCP6

/-- `PROXY <kind> <src> <dst> <sport> <dport>\r\n` -/
structure V1Line where
  kind : V1Kind
  src : Bytes
  dst : Bytes
  sport : Bytes
  dport : Bytes
  deriving DecidableEq, Repr

/-- the address part of the line: `<src> <dst> <sport> <dport>` -/
def V1Line.tail (l : V1Line) : Bytes :=
  l.src ++ 32 :: (l.dst ++ 32 :: (l.sport ++ 32 :: l.dport))

/-- the line without its CRLF -/
def V1Line.body (l : V1Line) : Bytes := v1Ident ++ (l.kind.tag ++ 32 :: l.tail)

def V1Line.bytes (l : V1Line) : Bytes := l.body ++ crlf

/-- the header such a line advertises -/
def v1Hdr (a d : Bytes) (sp dp : Int) : Header :=
  { source := some ⟨false, a, sp⟩, dest := some ⟨false, d, dp⟩, isLocal := false, version := 1,
    rawTLVs := [], unknown := [] }

/-- Well-formedness of a v1 TCP line: both address fields are accepted by `net.ParseIP` (with
    results `a`, `d`), both port fields by `strconv.Atoi` (`sp`, `dp`), the whole line including its
    CRLF fits the protocol's 107 bytes, and a `TCP4` line carries dotted quads. -/
def WFv1 (l : V1Line) (a d : Bytes) (sp dp : Int) : Prop :=
  parseIP l.src = some a ∧ parseIP l.dst = some d ∧ atoi l.sport = some sp ∧ atoi l.dport = some dp ∧
  l.bytes.length ≤ 107 ∧ (l.kind = .tcp4 → isV4Text l.src = true ∧ isV4Text l.dst = true)

/-- `PROXY UNKNOWN<tail>\r\n` -/
def unknownBody (tail : Bytes) : Bytes := v1Ident ++ (sUnknown ++ tail)

def unknownHdr (b : Bytes) : Header :=
  { source := none, dest := none, isLocal := true, version := 1, rawTLVs := [], unknown := b }

/-- the 16 fixed bytes of a v2 header -/
def v2Head (b12 fam l1 l2 : UInt8) : Bytes := v2Ident ++ [b12, fam, l1, l2]

/-- what a v2 header (version/command byte `b12`, family byte `fam`, remainder `body`) makes the
    reader report.  For a PROXY command with an unlisted family and for a command nibble ≥ 2 the
    addresses are absent (`Conn` then reports the socket's own, `ofOpt`). -/
def v2Hdr (b12 fam : UInt8) (body : Bytes) : Header :=
  let h0 : Header := { source := none, dest := none, isLocal := false, version := 2, rawTLVs := [], unknown := [] }
  let cmd := b12.toNat % 16
  let udp := fam.toNat % 16 == 2
  let p16 : Nat → Nat := fun i => (body.getD i 0).toNat * 256 + (body.getD (i + 1) 0).toNat
  if cmd == 0 then { h0 with isLocal := true, rawTLVs := body }
  else if cmd == 1 && (fam == 0x11 || fam == 0x12) then
    { h0 with source := mkAddr udp (v4InV6Prefix ++ body.take 4) (p16 8),
              dest := mkAddr udp (v4InV6Prefix ++ (body.take 8).drop 4) (p16 10), rawTLVs := body.drop 12 }
  else if cmd == 1 && (fam == 0x21 || fam == 0x22) then
    { h0 with source := mkAddr udp (body.take 16) (p16 32),
              dest := mkAddr udp ((body.take 32).drop 16) (p16 34), rawTLVs := body.drop 36 }
  else { h0 with rawTLVs := body }

/-- why a complete v2 header of announced length `n` is refused, if it is -/
def v2Refusal (b12 fam : UInt8) (n : Nat) : Option Err :=
  let cmd := b12.toNat % 16
  if cmd == 1 then
    if n == 0 then some .v2NoAddr
    else if fam == 0x11 || fam == 0x12 then (if n < 12 then some .v2Short4 else none)
    else if fam == 0x21 || fam == 0x22 then (if n < 36 then some .v2Short6 else none)
    else if fam == 0x31 || fam == 0x32 then some .v2Unix
    else none
  else none

/-- Regression shapes (the input classes of the repaired defects F5 and F4), decided from the input
    alone.  They no longer excuse anything: the harness only counts how often they are exercised. -/
def isV1ShortTcp6 (bs : Bytes) : Bool :=
  (v1Ident ++ sTCP6).isPrefixOf bs &&
  match firstCRLFEnd bs with
  | some n => n < 24
  | none => false

/-- v2 header accepted without addresses although it is not LOCAL (the shape of F4) -/
def isV2NilAddr (bs : Bytes) : Bool :=
  v2Ident.isPrefixOf bs &&
  match bs[12]?, bs[13]? with
  | some c, some f =>
    c.toNat / 16 == 2 &&
    (let cmd := c.toNat % 16
     cmd ≥ 2 || (cmd == 1 && !(f == 0x11 || f == 0x12 || f == 0x21 || f == 0x22 || f == 0x31 || f == 0x32)))
  | _, _ => false

/-! ### What a well-formed header advertises (protocol text, independent of the reader)

  Used by the `holds` verbs: the property clauses are evaluated on what the implementation reported
  against this reading of the input, not against `readHeader`. -/

structure Adv where
  remote : AddrSel          -- `.sock` for LOCAL / UNKNOWN / PROXY with family AF_UNSPEC
  loc : AddrSel
  hdrLen : Nat
  mayReject : Bool          -- "if such a header is accepted at all" (PROXY + AF_UNSPEC)
  deriving DecidableEq, Repr

/-- a port as the protocol text spells it: 1–5 decimal digits, value ≤ 65535 -/
def portWF (f : Bytes) : Option Nat :=
  if f.isEmpty || f.length > 5 then none else
  match digitsVal f 0 with
  | some v => if v ≤ 65535 then some v else none
  | none => none

def specV1 (bs : Bytes) : Option Adv :=
  if !v1Ident.isPrefixOf bs then none else
  match firstCRLFEnd bs with
  | none => none
  | some n =>
    if n > 107 then none else
    let line := (bs.take (n - 2)).drop 6
    if sUnknown.isPrefixOf line then some ⟨.sock, .sock, n, false⟩ else
    match splitSp line with
    | [k, f1, f2, f3, f4] =>
      if (k == sTCP4 && isV4Text f1 && isV4Text f2) || (k == sTCP6 && isV6Text f1 && isV6Text f2) then
        match parseIP f1, parseIP f2, portWF f3, portWF f4 with
        | some a, some d, some sp, some dp =>
          some ⟨.hdr ⟨false, a, (sp : Int)⟩, .hdr ⟨false, d, (dp : Int)⟩, n, false⟩
        | _, _, _, _ => none
      else none
    | _ => none

def specV2 (bs : Bytes) : Option Adv :=
  if !v2Ident.isPrefixOf bs then none else
  match bs[12]?, bs[13]?, bs[14]?, bs[15]? with
  | some vc, some fam, some l1, some l2 =>
    let len := l1.toNat * 256 + l2.toNat
    if vc.toNat / 16 != 2 || len > 2048 || bs.length < 16 + len then none else
    let body := (bs.drop 16).take len
    let cmd := vc.toNat % 16
    let udp := fam.toNat % 16 == 2
    let p16 : Nat → Nat := fun i => (body.getD i 0).toNat * 256 + (body.getD (i + 1) 0).toNat
    if cmd == 0 then some ⟨.sock, .sock, 16 + len, false⟩
    else if cmd == 1 then
      if fam == 0x11 || fam == 0x12 then
        if len < 12 then none else
        some ⟨.hdr ⟨udp, v4InV6Prefix ++ body.take 4, (p16 8 : Nat)⟩,
              .hdr ⟨udp, v4InV6Prefix ++ (body.take 8).drop 4, (p16 10 : Nat)⟩, 16 + len, false⟩
      else if fam == 0x21 || fam == 0x22 then
        if len < 36 then none else
        some ⟨.hdr ⟨udp, body.take 16, (p16 32 : Nat)⟩, .hdr ⟨udp, (body.take 32).drop 16, (p16 34 : Nat)⟩, 16 + len, false⟩
      else if fam.toNat / 16 == 0 then some ⟨.sock, .sock, 16 + len, true⟩
      else none
    else none
  | _, _, _, _ => none

def specAdv (bs : Bytes) : Option Adv :=
  match specV2 bs with
  | some a => some a
  | none => specV1 bs

/-- Inputs the property says must make the connection fail: no signature in the first 13 bytes,
    v2 with a version other than 2 or a length above 2048, v1 without CRLF inside 107 bytes, and any
    input that ends inside the header. -/
def mustFail (bs : Bytes) : Bool :=
  if bs.length < 13 then true
  else if v2Ident.isPrefixOf bs then
    match bs[12]?, bs[14]?, bs[15]? with
    | some vc, some l1, some l2 =>
      vc.toNat / 16 != 2 || l1.toNat * 256 + l2.toNat > 2048 || bs.length < 16 + (l1.toNat * 256 + l2.toNat)
    | _, _, _ => true
  else if v1Ident.isPrefixOf bs then
    match firstCRLFEnd (bs.take 107) with
    | none => true
    | some _ => false
  else true

/-- what the implementation was seen to do on one connection -/
structure Obs where
  accepted : Bool           -- header read succeeded (reads deliver payload)
  remote : AddrSel
  loc : AddrSel
  payload : Bytes           -- all bytes the application read after the header (peer closed after sending)
  deriving DecidableEq, Repr

/-- what the model itself would be seen to do -/
def obsOf (bs : Bytes) : Obs :=
  match readHeader bs with
  | .ok (h, rest) => ⟨true, remoteSel (.ok h), localSel (.ok h), rest⟩
  | _ => ⟨false, .sock, .sock, []⟩

/-- name of the regression shape an input falls in (`-` = none); informational only -/
def regressionShape (bs : Bytes) : String :=
  if isV1ShortTcp6 bs then "v1-short-tcp6" else if isV2NilAddr bs then "v2-nil-addr" else "-"

/-- `payload` is what follows position `k` for some `k ≥ n` -/
def isDropFrom (bs payload : Bytes) (n : Nat) : Bool :=
  payload.length + n ≤ bs.length && bs.drop (bs.length - payload.length) == payload

/-- some byte of the header (as the protocol text delimits it) shows up in the payload -/
def leaks (bs payload : Bytes) : Bool :=
  match specHdrEnd bs with
  | some n => !isDropFrom bs payload n
  | none => true

/-- the clauses about a well-formed header advertising `a` -/
def advCheck (a : Adv) (bs : Bytes) (o : Obs) : Option String :=
  if !o.accepted then (if a.mayReject then none else some "well-formed-accepted")
  else if o.remote != a.remote || o.loc != a.loc then some "addresses-as-advertised"
  else if o.payload != bs.drop a.hdrLen then some "payload-exact"
  else none

/-- The property clauses on one observation; `none` = all hold, `some clause` = first one that fails. -/
def holdsObs (bs : Bytes) (o : Obs) : Option String :=
  if o.remote == .missing || o.loc == .missing then some "no-missing-address"
  else if o.accepted && mustFail bs then some "malformed-fails"
  else if o.accepted && leaks bs o.payload then some "no-header-byte-leaked"
  else match specAdv bs with
    | none => none
    | some a => advCheck a bs o

/-! ### Time: the header read is bounded as a whole (`Conn.readHeaderContext`, `readHeaderTimeout > 0`)

  `t0 := time.Now()` when the first caller enters, `ctx = context.WithTimeout(ctx, readHeaderTimeout)`
  unless the caller's own context ends sooner, `ReadHeader(c.Conn)` in a goroutine of its own, then
  `select { case <-ctx.Done(): c.Conn.Close(); headerErr = "… timeout" ; case r := <-resCh: … }`.
  So there is ONE deadline, `t0 + readHeaderTimeout` (or the caller's), fixed when the read starts; how
  many `Read`s `ReadHeader` issues on the socket and how long each of them waits does not enter.

  The peer is a list of arrivals (`Arr`: the next bytes and the time at which they reach the socket, on
  any fixed clock); after the last arrival it stays silent with the connection open.  The reader's
  clock `now` only moves forward: bytes that arrived earlier are read at once.  What the reader makes of
  the bytes it has been handed so far is `readHeader` on them: the error class `short` = it is still
  blocked in a read (`verdict = none`), anything else is its final answer, reached at the arrival
  time of the last byte it needed.

  `Deadline.perRead` is not the code: it is the variant in which the deadline is re-armed before
  every read on the socket (an idle timeout).  It is here to be refuted (`c08_timed_per_read_refuted`)
  and to name that behaviour when the implementation shows it. -/

/-- the peer's next bytes and the time at which they reach the socket -/
structure Arr where
  time : Nat
  data : Bytes
  deriving DecidableEq, Repr

/-- how the deadline of the header read is kept -/
inductive Deadline where
  | total      -- fixed once: start + timeout (the code)
  | perRead    -- re-armed before every read: (time of the read) + timeout
  deriving DecidableEq, Repr

/-- result of the timed header read -/
inductive TRes where
  | accepted (h : Header) (rest : Bytes)   -- `rest`: bytes handed to the reader beyond the header
  | refused (e : Err)                      -- complete but refused header, or no signature
  | timedOut                               -- "proxy protocol header read timeout", connection closed
  | crashed
  deriving DecidableEq, Repr

/-- …and the time at which `readHeaderContext` returned it -/
structure TDone where
  res : TRes
  time : Nat
  deriving DecidableEq, Repr

/-- all bytes of a list of arrivals -/
def bytesOf : List Arr → Bytes
  | [] => []
  | a :: as => a.data ++ bytesOf as

/-- what the reader makes of the bytes handed to it so far: `none` = still blocked in a read -/
def verdict (got : Bytes) : Option TRes :=
  match readHeader got with
  | .ok (h, rest) => some (.accepted h rest)
  | .panic => some .crashed
  | .err e => if e.cls = .short then none else some (.refused e)

/-- a decision with further bytes in the socket: the same decision, a longer unread rest -/
def TRes.more (x : Bytes) : TRes → TRes
  | .accepted h rest => .accepted h (rest ++ x)
  | r => r

/-- the deadline after a read that returned at time `t` -/
def Deadline.next (pol : Deadline) (timeout dl t : Nat) : Nat :=
  match pol with
  | .total => dl
  | .perRead => t + timeout

/-- The reader at time `now` (≤ `dl`) holding `got`, the peer still to deliver `sched`. -/
def timedLoop (pol : Deadline) (timeout : Nat) : List Arr → Nat → Nat → Bytes → TDone
  | [], now, dl, got =>
    match verdict got with
    | some r => ⟨r, now⟩
    | none => ⟨.timedOut, dl⟩                 -- silent peer: cut off at the deadline
  | a :: as, now, dl, got =>
    match verdict got with
    | some r => ⟨r, now⟩
    | none =>
      let t := max now a.time                 -- the blocked read returns when the bytes arrive
      if t ≤ dl then timedLoop pol timeout as t (pol.next timeout dl t) (got ++ a.data)
      else ⟨.timedOut, dl⟩

/-- the latest arrival among `used`, not before `now`: when the reader has been handed all of them -/
def lastTime (now : Nat) : List Arr → Nat
  | [] => now
  | a :: as => lastTime (max now a.time) as

/-- the deadline fixed when the read starts: `start + timeout`, or the end of the caller's context
    (`HeaderContext(ctx)`: its deadline or the moment it is cancelled) when that comes first -/
def deadlineAt (timeout start : Nat) (limit : Option Nat) : Nat :=
  match limit with
  | some l => min (start + timeout) l
  | none => start + timeout

/-- `readHeaderContext` entered for the first time at `start` (`limit` = end of the caller's context) -/
def readTimed (pol : Deadline) (timeout start : Nat) (limit : Option Nat) (sched : List Arr) : TDone :=
  if deadlineAt timeout start limit < start then ⟨.timedOut, start⟩     -- context already over
  else timedLoop pol timeout sched start (deadlineAt timeout start limit) []

/-- `Conn` with its clock: `start` = `t0` of the one execution of `readHeaderContext`'s slow path
    (`none` until the first caller enters).  Later callers wait on `headerMu` and then find
    `isHeaderRead`: they neither restart the read nor move the deadline. -/
structure TConn where
  timeout : Nat
  start : Option Nat := none
  deriving DecidableEq, Repr

/-- a caller (Read, Write, RemoteAddr, LocalAddr, Header) enters at time `t` -/
def TConn.enter (c : TConn) (t : Nat) : TConn :=
  match c.start with
  | some _ => c
  | none => { c with start := some t }

def TConn.deadline (c : TConn) : Option Nat := c.start.map (· + c.timeout)

/-- what every caller of the connection is answered from, callers entering at `calls` (in order) -/
def TConn.outcome (c : TConn) (calls : List Nat) (sched : List Arr) : Option TDone :=
  (calls.foldl TConn.enter c).start.map fun t0 => readTimed .total c.timeout t0 none sched

end C08
end FwdVerif
