/-
  C01 — which SCHEME a forwarded request is sent with, and what that means for how the next hop is
  contacted.  Only additions; nothing in `Model/Req.lean` is changed.  Core-only.

  `Proxy.fixRequestScheme` (internal/martian/proxy.go) decides `req.URL.Scheme` from three things:
  the scheme of the request-target (`""` for an origin-form target), the first `X-Forwarded-Proto`
  value (`Header.Get`) and whether the request was read inside a TLS session (`req.TLS != nil`):

      if req.URL.Scheme == "" {
          if proto := req.Header.Get("X-Forwarded-Proto"); proto != "" { req.URL.Scheme = proto }
          else if req.TLS != nil { req.URL.Scheme = "https" } else { req.URL.Scheme = "http" }
      }
      if req.URL.Scheme == "http" && req.TLS != nil && !p.AllowHTTP { req.URL.Scheme = "https" }

  `fixScheme` is that function (forwarder always sets `AllowHTTP = true`, http_proxy.go);
  `Req.processRequest` / `Req.reqTarget` inline the same computation, `Theorems/C01.lean` §17 proves
  that they are `fixScheme` of the request's parts.  The ORDER of the tests is the point: the scheme
  of an absolute-form target is never overridden; the field only speaks for origin-form targets
  (requests relayed by a TLS terminating front end; inside an intercepted session this is the recorded
  finding F17 of C07).  `fixSchemeHeaderFirst` is the counter-model that asks the field first.

  `contactOf`: net/http `Transport.roundTrip` sends `http` URLs in clear and `https` URLs over TLS
  (through an HTTP(S) upstream proxy: absolute-form request resp. `CONNECT host:port`,
  `Req.transportAction`); every other scheme is refused before anything is dialled
  ("unsupported protocol scheme", answered 502 by the proxy).  `Req.processRequest` does not represent
  that refusal (Domain of `Model/Req.lean`: the effective scheme is `http` or `https`); `reach` says
  for every request which case applies.
-/
import FwdVerif.Model.Req

namespace FwdVerif
namespace C01

open Req Ascii

/-- `Proxy.fixRequestScheme`: `urlScheme` = scheme of the request-target (`[]` for origin-form),
    `xfp` = `req.Header.Get("X-Forwarded-Proto")`, `secure` = `req.TLS != nil` -/
def fixScheme (allowHTTP secure : Bool) (urlScheme xfp : Bytes) : Bytes :=
  let s :=
    if urlScheme.isEmpty then
      if !xfp.isEmpty then xfp else if secure then bs "https" else bs "http"
    else urlScheme
  if s == bs "http" && secure && !allowHTTP then bs "https" else s

/-- the same tests in another order: the field is asked first, the request-target second
    (a `switch` whose first case is "X-Forwarded-Proto present") -/
def fixSchemeHeaderFirst (allowHTTP secure : Bool) (urlScheme xfp : Bytes) : Bytes :=
  let s :=
    if !xfp.isEmpty then xfp
    else if !urlScheme.isEmpty then urlScheme
    else if secure then bs "https" else bs "http"
  if s == bs "http" && secure && !allowHTTP then bs "https" else s

/-- how net/http's `Transport` treats a request URL of a given scheme -/
inductive Contact where
  | clear          -- `http`: the request is written in clear (to the origin, or absolute-form to an HTTP(S) proxy)
  | tls            -- `https`: TLS to the origin (through an HTTP(S) proxy: `CONNECT host:port` first)
  | unsupported    -- anything else: `unsupported protocol scheme`, nothing is dialled
  deriving Repr, DecidableEq

def contactOf (scheme : Bytes) : Contact :=
  if scheme == bs "http" then .clear else if scheme == bs "https" then .tls else .unsupported

/-- where and how a non-CONNECT request leaves the proxy -/
structure Reach where
  scheme : Bytes                      -- req.URL.Scheme after the fix-up
  authority : Bytes                   -- req.URL.Host after the fix-up
  contact : Contact
  addr : Bytes                        -- the origin's address: dialled directly, or named in the CONNECT to a proxy
  deriving Repr, DecidableEq

/-- `Req.reqTarget` (the fix-up `processRequest` starts with) read as a `Reach` -/
def reach (ctx : Ctx) (r : Request) : Option Reach :=
  (reqTarget ctx r).map fun t =>
    { scheme := t.1, authority := t.2, contact := contactOf t.1, addr := canonicalAddr t.1 t.2 }

/-- the fields by which a hop in front of the proxy (or the client itself) describes where the request
    came from and what it was for (lower-case) -/
def forwardingNames : List Bytes :=
  [bs "x-forwarded-proto", bs "x-forwarded-host", bs "x-forwarded-for", bs "x-forwarded-url", bs "forwarded"]

def isForwardingName (n : Bytes) : Bool := forwardingNames.contains (lower n)

/-- the request without its forwarding field lines -/
def withoutForwarding (r : Request) : Request :=
  { r with fields := r.fields.filter fun f => !isForwardingName f.1 }

/-- two requests that differ at most in their forwarding field lines (names, values, number, position) -/
def SameButForwarding (r r' : Request) : Prop := withoutForwarding r = withoutForwarding r'

/-- the heads an upstream HTTP(S) proxy is sent on behalf of the request: no tunnel set-up for a
    request that travels in clear, exactly one `CONNECT` before a request that travels over TLS -/
def setupHeads (a : Action) : List Sent := a.sent.filter (·.setup)

end C01
end FwdVerif
