/-
  The request pipeline over a HISTORY: everything one proxy process handles, in order (C01).

  `Event` is one message the process handles: a client request (read by the listener with
  configuration `cfg` on a connection described by `ctx` — plain, or inside an intercepted tunnel),
  or an origin response passing through.  `runProcess` folds the process over the events and gives
  the outcome of every request event.  `ProcState` is what an implementation COULD carry from one
  message to the next (how many messages it handled, every name some earlier message nominated in
  `Connection`): the step records it and never reads it — the statement "no state" of C01
  (`c01_history_independent`).  `stickyProcess` is the counter-model: a process whose hop-by-hop set
  grows with every nominated name (a package-level set that is aliased instead of copied); it is what
  the history theorems exclude (`c01_sticky_witness`).

  Only additions; nothing in `Model/Req.lean` is changed.  Core-only.
-/
import FwdVerif.Model.Req

namespace FwdVerif
namespace Req

open Ascii
open C16 (HMap)

/-- one message handled by the process -/
inductive Event where
  /-- a client request read by the listener configured as `cfg`, on a connection `ctx` -/
  | request (cfg : Cfg) (ctx : Ctx) (r : Request)
  /-- an origin response passing through (field lines as on the wire); what the client receives is
      the response pipeline's business (C02), here it only is something that happened before -/
  | response (fields : List (Bytes × Bytes))
  deriving Repr

/-- canonical names nominated by the `Connection` lines of a list of field lines
    (`removeHopByHopHeaders`' first loop) -/
def nominatedCanon (fs : List (Bytes × Bytes)) : List Bytes :=
  (hget (toHeader fs) (bs "Connection")).flatMap fun vs =>
    (splitComma vs).map fun v => canonicalKey (trimSpace v)

def Event.fields : Event → List (Bytes × Bytes)
  | .request _ _ r => r.fields
  | .response fs => fs

/-- what a process could remember between two messages -/
structure ProcState where
  handled : Nat := 0
  seenNominated : List Bytes := []
  deriving Repr, DecidableEq

/-- one message: the state moves on; the outcome of a request does not read it -/
def stepEvent (st : ProcState) (e : Event) : ProcState × Option Outcome :=
  ({ handled := st.handled + 1, seenNominated := st.seenNominated ++ nominatedCanon e.fields },
   match e with
   | .request cfg ctx r => some (processRequest cfg ctx r)
   | .response _ => none)

/-- the process folded over a history: one entry per event, `some outcome` for a request -/
def runProcess : ProcState → List Event → List (Option Outcome)
  | _, [] => []
  | st, e :: es => (stepEvent st e).2 :: runProcess (stepEvent st e).1 es

/-- the outcome of an event on its own -/
def eventAlone : Event → Option Outcome
  | .request cfg ctx r => some (processRequest cfg ctx r)
  | .response _ => none

/-! ### the counter-model: nominated names stick -/

/-- field lines whose canonical name is in `names` removed -/
def dropNamed (names : List Bytes) (fs : List (Bytes × Bytes)) : List (Bytes × Bytes) :=
  fs.filter fun f => !names.contains (canonicalKey f.1)

/-- a process that adds every nominated name to its hop-by-hop set for good: a request is treated as
    if the lines with a name nominated EARLIER were not there -/
def stickyProcess : List Bytes → List Event → List (Option Outcome)
  | _, [] => []
  | sticky, e :: es =>
    (match e with
     | .request cfg ctx r => some (processRequest cfg ctx { r with fields := dropNamed sticky r.fields })
     | .response _ => none) :: stickyProcess (sticky ++ nominatedCanon e.fields) es

end Req
end FwdVerif
