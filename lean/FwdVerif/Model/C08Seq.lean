/-
  C08 — the accepted connection as an automaton over operation sequences
  (`/repo/proxyproto/net.go`: `Conn.readHeaderContext`, `Read`, `Write`, `RemoteAddr`, `LocalAddr`,
  `Header`, and the calls `Conn` inherits from the embedded socket: `SetDeadline`, `Close`).

  `Model/C08.lean` has `Conn.step` over a stream that is complete when the first call is made.  Here
  the connection is followed through any sequence of calls made by the application *and* events of
  the peer, under the listener's configuration:

  * `timeout` = `Listener.ReadHeaderTimeout` in ms, `0` = "no limit" (the documented meaning of
    `--proxy-protocol-read-header-timeout 0`);
  * the peer has sent `wire`; it may send more (`later`) at the event `more`, after which its write
    side is closed (`fin`); until then a reader that needs more bytes is *stalled*;
  * the application may arm / clear the socket's deadline and close the connection at any point.

  The state is `Phase`: `pending` (no caller has entered `readHeaderContext` yet), `failed e`
  (`headerErr` is set, `isHeaderRead` is true), `ok h rest` (`header` is set, `isHeaderRead` is true;
  `rest` = the bytes behind the header not yet handed to `Read` callers).  `ReadHeader` runs when a
  caller finds `pending`; whatever it returns is stored: that is the code (`Variant.latch`).

  `Variant.relatch n` is NOT the code: it is the variant in which a failing `ReadHeader` returns its
  error without storing it (`isHeaderRead` stays false), so that the next caller parses again from
  where the failed read left the stream (`n wire` bytes further).  It is here to be refuted
  (`c08_relatch_witness`) and to name that behaviour when an implementation shows it.  Core-only.
-/
import FwdVerif.Model.C08

namespace FwdVerif
namespace C08

/-- what `headerErr` holds after a failed header phase -/
inductive SeqErr where
  | hdr (e : Err)   -- `ReadHeader`'s own verdict: refused header, no signature, stream ended inside the header
  | cut             -- the peer was silent inside the header until `readHeaderTimeout` / the socket's deadline
  | closed          -- `ReadHeader` on a socket the application had closed
  deriving DecidableEq, Repr

inductive Phase where
  | pending (wire : Bytes)
  | failed (e : SeqErr)
  | ok (h : Header) (rest : Bytes)
  deriving DecidableEq, Repr

/-- the socket's deadline as the application left it -/
inductive DL where
  | off
  | armed (ms : Nat)   -- expires `ms` after it was set
  | expired            -- a call has run into it: every further read on the socket fails at once
  deriving DecidableEq, Repr

structure SConn where
  phase : Phase
  later : Bytes := []          -- what the peer sends at the event `more`
  fin : Bool := true           -- the peer's write side is closed: nothing more will come
  dl : DL := .off
  sockClosed : Bool := false   -- closed by the application, or by the header timeout
  parses : Nat := 0            -- executions of `ReadHeader`
  deriving DecidableEq, Repr

inductive SOp where
  | read (k : Nat)             -- `Read` that is handed at most `k` bytes by the socket
  | write
  | remoteAddr
  | localAddr
  | header
  | setDeadline (ms : Option Nat)   -- `SetDeadline(now + ms)` / `SetDeadline(time.Time{})`
  | close
  | more                       -- not a call: the rest of the peer's bytes arrive, its write side closes
  deriving DecidableEq, Repr

inductive SOut where
  | data (d : Bytes)
  | eof
  | wrote
  | addr (a : AddrSel)
  | header (h : Header)
  | fail (e : SeqErr)          -- the stored header error
  | ioTimeout                  -- a read on the socket itself ran into the deadline
  | ioClosed                   -- a read / write on the socket itself after `Close`
  | done
  | arrived
  | blocked                    -- the call does not return (no timeout, no deadline, silent peer)
  deriving DecidableEq, Repr

inductive Variant where
  | latch                                  -- the code
  | relatch (consumed : Bytes → Nat)       -- counter-model: a failed header read is not stored
  deriving Inhabited

/-- what a caller of `readHeaderContext` comes back with -/
inductive Entry where
  | ok (h : Header)
  | failed (e : SeqErr)
  | blocked
  deriving DecidableEq, Repr

/-- Who ends the wait of a stalled header read: `some true` = `readHeaderTimeout` (the code then also
    closes the socket), `some false` = the socket's deadline, `none` = nobody. -/
def cutBy (timeout : Nat) : DL → Option Bool
  | .off => if timeout > 0 then some true else none
  | .armed ms => if timeout > 0 ∧ timeout ≤ ms then some true else some false
  | .expired => some false

/-- a failing `ReadHeader`: the code stores the error; the counter-model leaves `pending` -/
def failWith (v : Variant) (c : SConn) (wire : Bytes) (e : SeqErr) (closeSock : Bool) (dl' : DL) : SConn × Entry :=
  match v with
  | .latch =>
    ({ c with phase := .failed e, sockClosed := c.sockClosed || closeSock, dl := dl', parses := c.parses + 1 }, .failed e)
  | .relatch n =>
    ({ c with phase := .pending (wire.drop (n wire)), sockClosed := c.sockClosed || closeSock, dl := dl', parses := c.parses + 1 }, .failed e)

/-- `readHeaderContext`: `if c.isHeaderRead.Load() { return c.headerErr }`, else `ReadHeader(c.Conn)`
    (bounded by `readHeaderTimeout` when that is positive) and store what it returned. -/
def SConn.enter (v : Variant) (timeout : Nat) (c : SConn) : SConn × Entry :=
  match c.phase with
  | .ok h _ => (c, .ok h)
  | .failed e => (c, .failed e)
  | .pending wire =>
    if c.sockClosed then failWith v c wire .closed false c.dl
    else if c.dl = .expired then failWith v c wire .cut false .expired
    else
      match readHeader wire with
      | .ok (h, rest) => ({ c with phase := .ok h rest, parses := c.parses + 1 }, .ok h)
      | .panic => failWith v c wire (.hdr .eofIdent) false c.dl       -- unreachable (`c08_no_panic`)
      | .err e =>
        if e.cls = .short ∧ c.fin = false then
          -- the reader is blocked in a read on the socket: the peer is silent, the connection open
          match cutBy timeout c.dl with
          | none => (c, .blocked)
          | some byTimeout => failWith v c wire .cut byTimeout (if byTimeout then c.dl else .expired)
        else failWith v c wire (.hdr e) false c.dl

/-- `c.Conn.Read(b)` once the header has been accepted -/
def sockRead (c : SConn) (h : Header) (rest : Bytes) (k : Nat) : SConn × SOut :=
  if c.sockClosed then (c, .ioClosed)
  else if c.dl = .expired then (c, .ioTimeout)
  else if rest = [] then
    if c.fin then (c, .eof)
    else match c.dl with
      | .armed _ => ({ c with dl := .expired }, .ioTimeout)
      | _ => (c, .blocked)
  else ({ c with phase := .ok h (rest.drop k) }, .data (rest.take k))

/-- one call on the connection (or the peer's event `more`) -/
def SConn.step (v : Variant) (timeout : Nat) (c : SConn) (op : SOp) : SConn × SOut :=
  match op with
  | .more =>
    let c' : SConn := match c.phase with
      | .pending w => { c with phase := .pending (w ++ c.later) }
      | .ok h r => { c with phase := .ok h (r ++ c.later) }
      | .failed _ => c
    ({ c' with later := [], fin := true }, .arrived)
  | .setDeadline ms =>
    ({ c with dl := match ms with | some m => .armed m | none => .off }, .done)
  | .close => ({ c with sockClosed := true }, .done)
  | .remoteAddr =>
    match c.enter v timeout with
    | (c', .ok h) => (c', .addr (remoteSel (.ok h)))
    | (c', .failed _) => (c', .addr .sock)
    | (c', .blocked) => (c', .blocked)
  | .localAddr =>
    match c.enter v timeout with
    | (c', .ok h) => (c', .addr (localSel (.ok h)))
    | (c', .failed _) => (c', .addr .sock)
    | (c', .blocked) => (c', .blocked)
  | .header =>
    match c.enter v timeout with
    | (c', .ok h) => (c', .header h)
    | (c', .failed e) => (c', .fail e)
    | (c', .blocked) => (c', .blocked)
  | .write =>
    match c.enter v timeout with
    | (c', .ok _) => if c'.sockClosed then (c', .ioClosed) else (c', .wrote)
    | (c', .failed e) => (c', .fail e)
    | (c', .blocked) => (c', .blocked)
  | .read k =>
    match c.enter v timeout with
    | (c', .ok h) =>
      match c'.phase with
      | .ok _ rest => sockRead c' h rest k
      | _ => (c', .blocked)                   -- unreachable: `enter` answers `ok` only in phase `ok`
    | (c', .failed e) => (c', .fail e)
    | (c', .blocked) => (c', .blocked)

def SConn.run (v : Variant) (timeout : Nat) : SConn → List SOp → SConn × List SOut
  | c, [] => (c, [])
  | c, op :: ops =>
    let r := c.step v timeout op
    let rs := SConn.run v timeout r.1 ops
    (rs.1, r.2 :: rs.2)

/-- all bytes handed to `Read` callers, in order -/
def sdataOf : List SOut → Bytes
  | [] => []
  | .data d :: os => d ++ sdataOf os
  | _ :: os => sdataOf os

/-- what is still to be delivered: the unread rest and what the peer has yet to send -/
def SConn.avail (c : SConn) : Bytes :=
  match c.phase with
  | .ok _ r => r ++ c.later
  | _ => []

/-- the only answer a call may get once the header phase has failed with `e` -/
def FailAnswer (e : SeqErr) : SOp → SOut → Prop
  | .read _, o => o = .fail e
  | .write, o => o = .fail e
  | .header, o => o = .fail e
  | .remoteAddr, o => o = .addr .sock
  | .localAddr, o => o = .addr .sock
  | .setDeadline _, o => o = .done
  | .close, o => o = .done
  | .more, o => o = .arrived

inductive FailAnswers (e : SeqErr) : List SOp → List SOut → Prop where
  | nil : FailAnswers e [] []
  | cons {op : SOp} {o : SOut} {ops : List SOp} {os : List SOut} :
      FailAnswer e op o → FailAnswers e ops os → FailAnswers e (op :: ops) (o :: os)

/-- the answers allowed once the header `h` has been accepted -/
def OkAnswer (h : Header) : SOp → SOut → Prop
  | .remoteAddr, o => o = .addr (remoteSel (.ok h))
  | .localAddr, o => o = .addr (localSel (.ok h))
  | .header, o => o = .header h
  | .write, o => o = .wrote ∨ o = .ioClosed
  | .read _, o => (∃ d, o = .data d) ∨ o = .eof ∨ o = .ioTimeout ∨ o = .ioClosed ∨ o = .blocked
  | .setDeadline _, o => o = .done
  | .close, o => o = .done
  | .more, o => o = .arrived

inductive OkAnswers (h : Header) : List SOp → List SOut → Prop where
  | nil : OkAnswers h [] []
  | cons {op : SOp} {o : SOut} {ops : List SOp} {os : List SOut} :
      OkAnswer h op o → OkAnswers h ops os → OkAnswers h (op :: ops) (o :: os)

/-- a header read on this state would stall: the peer is silent inside the header, the socket open -/
def SConn.stalled (c : SConn) : Bool :=
  match c.phase with
  | .pending wire =>
    !c.sockClosed && c.dl != .expired && !c.fin &&
    (match readHeader wire with
     | .err e => e.cls == .short
     | _ => false)
  | _ => false

end C08
end FwdVerif
