/-
  C02 — which of the connection limits bounds the relay of a response.

  martian `proxyConn.write` (the one place a forwarded response is written to the client) begins with

      if p.WriteTimeout > 0 { p.conn.SetWriteDeadline(time.Now().Add(p.WriteTimeout)); defer clear }

  and nothing else on the path arms a write deadline.  `ReadTimeout`, `ReadHeaderTimeout` and
  `IdleTimeout` arm READ deadlines on the client connection (`readRequest`: idle wait, header, whole
  request; the accessors `idleTimeout()` / `readHeaderTimeout()` fall back to `ReadTimeout`); a read
  deadline never fails a write.  So a response is relayed for as long as the origin takes unless
  `WriteTimeout` is set; what happens when it is set is C15's subject (finding F45: one absolute
  deadline per response) and is only described here, not judged by C02.

  Times are milliseconds from the instant `write` is entered; `0` for a limit means "not set".
  Core-only.
-/
import FwdVerif.Lib.Wire

namespace FwdVerif
namespace Resp
namespace Relay

/-- `HTTPServerConfig` / `martian.Proxy`: ReadTimeout, ReadHeaderTimeout, IdleTimeout, WriteTimeout -/
structure Limits where
  read : Nat
  readHeader : Nat
  idle : Nat
  write : Nat
  deriving Repr, DecidableEq

/-- `Proxy.idleTimeout()`: bounds the wait for the next request (read side) -/
def idleLimit (L : Limits) : Nat := if L.idle > 0 then L.idle else L.read

/-- `Proxy.readHeaderTimeout()`: bounds the reading of a request head (read side) -/
def headerLimit (L : Limits) : Nat := if L.readHeader > 0 then L.readHeader else L.read

/-- the write deadline `proxyConn.write` arms for one response, relative to its start -/
def relayWriteDeadline (L : Limits) : Option Nat := if L.write > 0 then some L.write else none

/-- NOT the code: a `writeTimeout()` accessor shaped like its two siblings (falls back to
    `ReadTimeout`); the subject of `c02_relay_fallback_witness` -/
def relayWriteDeadlineFallback (L : Limits) : Option Nat :=
  let d := if L.write > 0 then L.write else L.read
  if d > 0 then some d else none

/-- a socket write at `t` succeeds towards a client that takes every byte at once unless the armed
    deadline has passed -/
def writeOK (dl : Option Nat) (t : Nat) : Bool :=
  match dl with
  | none => true
  | some d => t < d

/-- the socket writes of one response (`(time, bytes)` in order: head first, then the body as the
    origin delivers it) against a write deadline: what reaches the client.  The first failed write
    ends the response (`errClose`). -/
def relay (dl : Option Nat) : List (Nat × Bytes) → List Bytes
  | [] => []
  | (t, b) :: ws => if writeOK dl t then b :: relay dl ws else []

/-- the client has the whole response -/
def complete (dl : Option Nat) (ws : List (Nat × Bytes)) : Bool :=
  ws.all fun w => writeOK dl w.1

/-- number of writes that reached the client -/
def relayed (dl : Option Nat) (ws : List (Nat × Bytes)) : Nat := (relay dl ws).length

end Relay
end Resp
end FwdVerif
