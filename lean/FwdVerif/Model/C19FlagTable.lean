/-
  GENERATED — do not edit.  Written by harness/c19/flagtable (cmd/flagtable, and the Prepare step of
  every `bin/check C19`) from the flag declarations of $VERIF_REPO (bind/*.go, command/run/*.go).
  One entry per registered flag: the constructor of its value, whether it is a slice flag, the type
  argument, the parser expression and whether a redactor argument is present.  Core-only.
-/
namespace FwdVerif
namespace C19

structure FlagEntry where
  name : String
  ctor : String
  slice : Bool
  type : String
  parser : String
  hasRedactor : Bool
  redactor : String
  deriving Repr, DecidableEq

def flagTable : List FlagEntry := [
  ⟨"address", "StringVarP", false, "", "", false, ""⟩,
  ⟨"allow-time-frame", "NewSliceValue", true, "ruleset.TimeFrameEntry", "ruleset.ParseTimeFrameEntry", false, ""⟩,
  ⟨"api-address", "StringVarP", false, "", "", false, ""⟩,
  ⟨"api-basic-auth", "NewValueWithRedact", false, "*url.Userinfo", "forwarder.ParseUserinfo", true, "RedactUserinfo"⟩,
  ⟨"api-idle-timeout", "DurationVar", false, "", "", false, ""⟩,
  ⟨"api-protocol", "NewValue", false, "forwarder.Scheme", "anyflag.EnumParser[forwarder.Scheme](schemes...)", false, ""⟩,
  ⟨"api-read-header-timeout", "DurationVar", false, "", "", false, ""⟩,
  ⟨"api-read-limit", "custom", false, "", "", false, ""⟩,
  ⟨"api-shutdown-timeout", "DurationVar", false, "", "", false, ""⟩,
  ⟨"api-tls-cert-file", "NewValueWithRedact", false, "string", "func(val string) (string, error) { return val, nil }", true, "RedactBase64"⟩,
  ⟨"api-tls-handshake-timeout", "DurationVar", false, "", "", false, ""⟩,
  ⟨"api-tls-key-file", "NewValueWithRedact", false, "string", "func(val string) (string, error) { return val, nil }", true, "RedactBase64"⟩,
  ⟨"api-write-limit", "custom", false, "", "", false, ""⟩,
  ⟨"basic-auth", "NewValueWithRedact", false, "*url.Userinfo", "forwarder.ParseUserinfo", true, "RedactUserinfo"⟩,
  ⟨"cacert-file", "NewSliceValueWithRedact", true, "string", "func(val string) (string, error) { return val, nil }", true, "RedactBase64"⟩,
  ⟨"config-file", "StringVarP", false, "", "", false, ""⟩,
  ⟨"connect-header", "NewSliceValueWithRedact", true, "header.Header", "header.ParseHeader", true, "RedactHeader"⟩,
  ⟨"connect-to", "NewSliceValue", true, "forwarder.HostPortPair", "forwarder.ParseHostPortPair", false, ""⟩,
  ⟨"credentials", "NewSliceValueWithRedact", true, "*forwarder.HostPortUser", "forwarder.ParseHostPortUser", true, "forwarder.RedactHostPortUser"⟩,
  ⟨"deny-domains", "NewSliceValue", true, "ruleset.RegexpListItem", "ruleset.ParseRegexpListItem", false, ""⟩,
  ⟨"direct-domains", "NewSliceValue", true, "ruleset.RegexpListItem", "ruleset.ParseRegexpListItem", false, ""⟩,
  ⟨"dns-round-robin", "BoolVar", false, "", "", false, ""⟩,
  ⟨"dns-server", "NewSliceValue", true, "netip.AddrPort", "forwarder.ParseDNSAddress", false, ""⟩,
  ⟨"dns-timeout", "DurationVar", false, "", "", false, ""⟩,
  ⟨"goleak", "BoolVar", false, "", "", false, ""⟩,
  ⟨"header", "NewSliceValueWithRedact", true, "header.Header", "header.ParseHeader", true, "RedactHeader"⟩,
  ⟨"http-dial-attempts", "IntVar", false, "", "", false, ""⟩,
  ⟨"http-dial-backoff", "DurationVar", false, "", "", false, ""⟩,
  ⟨"http-dial-timeout", "DurationVar", false, "", "", false, ""⟩,
  ⟨"http-idle-conn-timeout", "DurationVar", false, "", "", false, ""⟩,
  ⟨"http-response-header-timeout", "DurationVar", false, "", "", false, ""⟩,
  ⟨"http-tls-handshake-timeout", "DurationVar", false, "", "", false, ""⟩,
  ⟨"http-tls-keylog-file", "StringVar", false, "", "", false, ""⟩,
  ⟨"idle-timeout", "DurationVar", false, "", "", false, ""⟩,
  ⟨"insecure", "BoolVar", false, "", "", false, ""⟩,
  ⟨"kerberos-auth-upstream-proxy", "BoolVar", false, "", "", false, ""⟩,
  ⟨"kerberos-cfg-file", "StringVar", false, "", "", false, ""⟩,
  ⟨"kerberos-enabled-hosts", "NewSliceValue", true, "string", "func(val string) (string, error) { return val, nil }", false, ""⟩,
  ⟨"kerberos-keytab-file", "StringVar", false, "", "", false, ""⟩,
  ⟨"kerberos-run-diagnostics", "BoolVar", false, "", "", false, ""⟩,
  ⟨"kerberos-user-name", "StringVar", false, "", "", false, ""⟩,
  ⟨"kerberos-user-realm", "StringVar", false, "", "", false, ""⟩,
  ⟨"log-file", "NewValueWithRedact", false, "*os.File", "forwarder.OpenFileParser(log.DefaultFileFlags, log.DefaultFileMode, log.DefaultDirMode)", true, "DisplayFileName"⟩,
  ⟨"log-format", "NewValue", false, "log.Format", "anyflag.EnumParser[log.Format](logMode...)", false, ""⟩,
  ⟨"log-http", "custom", false, "", "", false, ""⟩,
  ⟨"log-http-request-id-header", "StringVar", false, "", "", false, ""⟩,
  ⟨"log-level", "NewValue", false, "log.Level", "anyflag.EnumParser[log.Level](logLevel...)", false, ""⟩,
  ⟨"mitm", "BoolVar", false, "", "", false, ""⟩,
  ⟨"mitm-cacert-file", "NewValueWithRedact", false, "string", "func(val string) (string, error) { return val, nil }", true, "RedactBase64"⟩,
  ⟨"mitm-cache-size", "Uint32Var", false, "", "", false, ""⟩,
  ⟨"mitm-cache-ttl", "DurationVar", false, "", "", false, ""⟩,
  ⟨"mitm-cakey-file", "NewValueWithRedact", false, "string", "func(val string) (string, error) { return val, nil }", true, "RedactBase64"⟩,
  ⟨"mitm-domains", "NewSliceValue", true, "ruleset.RegexpListItem", "ruleset.ParseRegexpListItem", false, ""⟩,
  ⟨"mitm-org", "StringVar", false, "", "", false, ""⟩,
  ⟨"mitm-validity", "DurationVar", false, "", "", false, ""⟩,
  ⟨"name", "StringVar", false, "", "", false, ""⟩,
  ⟨"pac", "NewValue", false, "*url.URL", "fileurl.ParseFilePathOrURL", false, ""⟩,
  ⟨"protocol", "NewValue", false, "forwarder.Scheme", "anyflag.EnumParser[forwarder.Scheme](schemes...)", false, ""⟩,
  ⟨"proxy", "NewValueWithRedact", false, "*url.URL", "forwarder.ParseProxyURL", true, "RedactURL"⟩,
  ⟨"proxy-header", "NewSliceValueWithRedact", true, "header.Header", "header.ParseHeader", true, "RedactHeader"⟩,
  ⟨"proxy-localhost", "NewValue", false, "forwarder.ProxyLocalhostMode", "anyflag.EnumParser[forwarder.ProxyLocalhostMode](proxyLocalhostValues...)", false, ""⟩,
  ⟨"proxy-protocol-listener", "BoolVar", false, "", "", false, ""⟩,
  ⟨"proxy-protocol-read-header-timeout", "DurationVar", false, "", "", false, ""⟩,
  ⟨"read-header-timeout", "DurationVar", false, "", "", false, ""⟩,
  ⟨"read-limit", "custom", false, "", "", false, ""⟩,
  ⟨"response-header", "NewSliceValueWithRedact", true, "header.Header", "header.ParseHeader", true, "RedactHeader"⟩,
  ⟨"shutdown-timeout", "DurationVar", false, "", "", false, ""⟩,
  ⟨"tls-cert-file", "NewValueWithRedact", false, "string", "func(val string) (string, error) { return val, nil }", true, "RedactBase64"⟩,
  ⟨"tls-handshake-timeout", "DurationVar", false, "", "", false, ""⟩,
  ⟨"tls-key-file", "NewValueWithRedact", false, "string", "func(val string) (string, error) { return val, nil }", true, "RedactBase64"⟩,
  ⟨"write-limit", "custom", false, "", "", false, ""⟩
]

end C19
end FwdVerif
