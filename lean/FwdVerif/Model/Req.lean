/-
  Request pipeline of the proxy (shared by C01, C04, C05, C06, C18).

  `processRequest cfg ctx r` says what happens to one HTTP/1.x request read from a client
  connection: it is either refused by the proxy itself (status + selected header fields of the
  error response) or forwarded to a next hop, in which case the model gives the message exactly as
  the hop receives it (method, request-target, field lines as lower-case name ↦ values in order).

  It composes, in code order:
    net/http `ReadRequest`                  (header canonicalisation, Host, Pragma fix-up, framing, Close)
    martian `proxyConn.handle`              (URL host, scheme fix-up, upgrade capture)
    forwarder `middlewareStack`             (time frame, basic auth, localhost, deny-domains — first failure aborts)
    martian `httpspec.NewStack`             (hop-by-hop removal, X-Forwarded-*, bad framing, Via + loop check)
    user request rules (C16), site credentials, empty User-Agent, upgrade re-add
    net/http `Transport` → `Request.write`  (request-target by hop kind, Host, framing headers,
                                             Connection: close, Accept-Encoding: gzip, Proxy-Authorization)
  Core-only.
-/
import FwdVerif.Model.C16

namespace FwdVerif
namespace Req

open Ascii
open C16 (HMap goDel goSet goAdd Rule applyRules)

/-! ### small byte-string helpers -/

def bs (s : String) : Bytes := Wire.b s

def trimOWS (v : Bytes) : Bytes :=
  let isWs := fun (c : UInt8) => c == 32 || c == 9
  ((v.dropWhile isWs).reverse.dropWhile isWs).reverse

/-- `strings.Split(s, ",")` -/
def splitComma (s : Bytes) : List Bytes :=
  let rec go (cur : Bytes) (acc : List Bytes) : Bytes → List Bytes
    | [] => (cur.reverse :: acc).reverse
    | c :: cs => if c == 44 then go [] (cur.reverse :: acc) cs else go (c :: cur) acc cs
  go [] [] s

/-- `strings.TrimSpace` restricted to ASCII white space -/
def trimSpace (v : Bytes) : Bytes :=
  let isWs := fun (c : UInt8) => c == 32 || c == 9 || c == 10 || c == 11 || c == 12 || c == 13
  ((v.dropWhile isWs).reverse.dropWhile isWs).reverse

/-- `httpguts.HeaderValuesContainsToken` (comma separated, OWS-trimmed, ASCII case-insensitive) -/
def valuesContainToken (vs : List Bytes) (tok : Bytes) : Bool :=
  vs.any fun v => (splitComma v).any fun t => eqFold (trimOWS t) tok

def isInfix (needle hay : Bytes) : Bool :=
  match hay with
  | [] => needle.isEmpty
  | _ :: tl => needle.isPrefixOf hay || isInfix needle tl

def joinWith (sep : Bytes) : List Bytes → Bytes
  | [] => []
  | [x] => x
  | x :: xs => x ++ sep ++ joinWith sep xs

def natToDec (n : Nat) : Bytes := (toString n).toUTF8.toList

/-! ### base64 (std alphabet, strict padding) for `Proxy-Authorization: Basic …` -/

def b64Val (c : UInt8) : Option Nat :=
  if isUpper c then some (c.toNat - 65)
  else if isLower c then some (c.toNat - 71)
  else if isDigit c then some (c.toNat + 4)
  else if c == 43 then some 62
  else if c == 47 then some 63
  else none

/-- `base64.StdEncoding.DecodeString` on a string without CR/LF: groups of four, `=` padding only
    at the end, strict (non-zero trailing bits are accepted by Go's non-strict default decoder). -/
def b64Decode : Bytes → Option Bytes
  | [] => some []
  | [a, b, 61, 61] => do
      let x ← b64Val a; let y ← b64Val b
      pure [UInt8.ofNat ((x * 4 + y / 16) % 256)]
  | [a, b, c, 61] => do
      let x ← b64Val a; let y ← b64Val b; let z ← b64Val c
      pure [UInt8.ofNat ((x * 4 + y / 16) % 256), UInt8.ofNat ((y * 16 + z / 4) % 256)]
  | a :: b :: c :: d :: rest => do
      let x ← b64Val a; let y ← b64Val b; let z ← b64Val c; let w ← b64Val d
      let tl ← b64Decode rest
      pure (UInt8.ofNat ((x * 4 + y / 16) % 256) :: UInt8.ofNat ((y * 16 + z / 4) % 256) ::
            UInt8.ofNat ((z * 64 + w) % 256) :: tl)
  | _ => none

def b64Char (n : Nat) : UInt8 :=
  if n < 26 then UInt8.ofNat (65 + n) else if n < 52 then UInt8.ofNat (71 + n)
  else if n < 62 then UInt8.ofNat (n - 4) else if n == 62 then 43 else 47

def b64Encode : Bytes → Bytes
  | [] => []
  | [a] => [b64Char (a.toNat / 4), b64Char ((a.toNat % 4) * 16), 61, 61]
  | [a, b] => [b64Char (a.toNat / 4), b64Char ((a.toNat % 4) * 16 + b.toNat / 16),
               b64Char ((b.toNat % 16) * 4), 61]
  | a :: b :: c :: rest =>
      b64Char (a.toNat / 4) :: b64Char ((a.toNat % 4) * 16 + b.toNat / 16) ::
      b64Char ((b.toNat % 16) * 4 + c.toNat / 64) :: b64Char (c.toNat % 64) :: b64Encode rest

/-- `parseBasicAuth`: case-insensitive `Basic ` prefix, base64, split at the first colon. -/
def parseBasicAuth (auth : Bytes) : Option (Bytes × Bytes) :=
  if auth.length < 6 || !eqFold (auth.take 6) (bs "Basic ") then none else
  match b64Decode (auth.drop 6) with
  | none => none
  | some cs =>
    let user := cs.takeWhile (fun c => c != 58)
    if user.length == cs.length then none else some (user, cs.drop (user.length + 1))

def basicAuthValue (user pass : Bytes) : Bytes := bs "Basic " ++ b64Encode (user ++ [58] ++ pass)

/-! ### configuration, connection context, request -/

inductive Upstream where
  | none
  /-- HTTP proxy `host:port`; `auth` = value of the Proxy-Authorization the transport adds (from the
      proxy URL's userinfo or the matching --credentials entry) -/
  | http (hostport : Bytes) (auth : Option Bytes)
  /-- HTTPS proxy (TLS to the proxy, then as `http`) -/
  | https (hostport : Bytes) (auth : Option Bytes)
  /-- SOCKS5 proxy; `auth` = user/password offered in the SOCKS negotiation -/
  | socks5 (hostport : Bytes) (auth : Option (Bytes × Bytes))
  /-- a proxy URL whose scheme neither path supports: the transport treats it as an HTTP proxy, the
      CONNECT path fails.  Configuration validation admits `http`, `https`, `socks5` only and PAC
      entries `SOCKS`/`SOCKS4` fail in `pacProxy` (→ `failed`), so only a custom proxy function
      can produce one. -/
  | other (scheme hostport : Bytes) (auth : Option Bytes)
  /-- the proxy function returned an error (PAC script error, unparsable entry) -/
  | failed
  deriving Repr, DecidableEq

/-- one entry of a domain list (`--deny-domains`, `--direct-domains`): the harness writes the
    pattern as the Go regexp `^lit$`, `lit$`, `^lit`, `lit`, `.*` (literal quoted); a leading `-`
    makes it an exclusion -/
inductive DomPat where
  | exact (s : Bytes) | suffix (s : Bytes) | pfx (s : Bytes) | contains (s : Bytes) | all
  deriving Repr, DecidableEq

structure DomRule where
  pat : DomPat
  exclude : Bool := false
  deriving Repr, DecidableEq

structure Cfg where
  tag : Bytes                         -- Via pseudonym `<name>-<20 hex digits>`
  name : Bytes
  basicAuth : Option (Bytes × Bytes) := none
  timeAllowed : Bool := true          -- `TimeFrameAllows` evaluated now (true when not configured)
  denyLocalhost : Bool := false
  localhostNames : List Bytes := []   -- lower-cased: localhost, 0.0.0.0, ::, hosts-file aliases
  denyExact : List Bytes := []        -- deny-domains given as anchored literals `^host$`
  rules : List Rule := []             -- --header rules (non-CONNECT requests)
  connectRules : List Rule := []      -- --connect-header rules (CONNECT requests)
  siteCred : Option Bytes := none     -- `Authorization` value --credentials yields for this target, if any
  upstream : Upstream := .none
  denyRules : List DomRule := []      -- deny-domains in the general form (`ruleset.RegexpMatcher`)
  mitm : Bool := false                -- CONNECT requests are intercepted (`--mitm`, no domain filter)
  deriving Repr

structure Ctx where
  clientIP : Bytes                    -- host part of the client's socket address
  secure : Bool := false              -- request read inside an intercepted (MITM) TLS session
  deriving Repr

inductive Target where
  | origin                            -- `/path?query`
  | absolute (scheme authority : Bytes)
  deriving Repr, DecidableEq

inductive Body where
  | none
  | cl (n : Nat)                      -- Content-Length: n   (payload bytes are opaque to the model)
  | chunked (trailerNames : List Bytes)
  deriving Repr, DecidableEq

structure Request where
  method : Bytes
  minor : Nat                         -- HTTP/1.<minor>
  target : Target
  path : Bytes                        -- Domain: RFC 3986 path characters, starts with `/`
  query : Option Bytes                -- raw query (without `?`)
  fields : List (Bytes × Bytes)       -- wire order, names as spelt, values OWS-trimmed
  deriving Repr

/-! ### net/http ReadRequest -/

/-- group field lines into Go's header map (canonical keys, values in wire order) -/
def toHeader (fs : List (Bytes × Bytes)) : HMap :=
  fs.foldl (fun h f => goAdd h f.1 f.2) []

structure GoReq where
  method : Bytes
  minor : Nat
  scheme : Bytes                      -- req.URL.Scheme ("" until fixed up)
  urlHost : Bytes                     -- req.URL.Host
  host : Bytes                        -- req.Host
  path : Bytes
  query : Option Bytes
  header : HMap
  contentLength : Int                 -- −1 unknown (chunked)
  chunked : Bool
  close : Bool
  trailer : List Bytes                -- declared trailer names (canonical), sorted when written
  deriving Repr

inductive ReadErr where
  | outOfDomain                       -- shapes the model does not cover (see DESIGN.md C01 Domain)
  deriving Repr, DecidableEq

def hget (h : HMap) (k : Bytes) : List Bytes := (HMap.get h k).getD []

/-- `Header.Get`: first value under the canonical key, or "" -/
def goGet (h : HMap) (n : Bytes) : Bytes := (hget h (canonicalKey n)).headD []

def parseNat? (v : Bytes) : Option Nat :=
  if v.isEmpty || !v.all isDigit then none
  else some (v.foldl (fun acc c => acc * 10 + (c.toNat - 48)) 0)

def readRequest (r : Request) : Except ReadErr GoReq := do
  let h0 := toHeader r.fields
  if (hget h0 (bs "Host")).length > 1 then throw .outOfDomain
  if (hget h0 (bs "Expect")).length > 0 then throw .outOfDomain
  let (scheme, urlHost) := match r.target with
    | .origin => (([] : Bytes), ([] : Bytes))
    | .absolute s a => (s, a)
  let host := if urlHost.isEmpty then goGet h0 (bs "Host") else urlHost
  -- fixPragmaCacheControl
  let h1 := match hget h0 (bs "Pragma") with
    | p :: _ => if p == bs "no-cache" && (HMap.get h0 (bs "Cache-Control")).isNone
                then goSet h0 (bs "Cache-Control") (bs "no-cache") else h0
    | [] => h0
  -- shouldClose
  let conn := hget h1 (bs "Connection")
  let hasClose := valuesContainToken conn (bs "close")
  let close := if r.minor == 0 then hasClose || !valuesContainToken conn (bs "keep-alive") else hasClose
  -- parseTransferEncoding
  let te := HMap.get h1 (bs "Transfer-Encoding")
  let h2 := goDel h1 (bs "Transfer-Encoding")
  let chunked ← match te with
    | none => pure false
    | some vs =>
      if r.minor == 0 then pure false
      else match vs with
        | [v] => if eqFold v (bs "chunked") then pure true else throw .outOfDomain
        | _ => throw .outOfDomain
  -- fixLength
  let cls := hget h2 (bs "Content-Length")
  let (h3, cls) ← match cls with
    | [] => pure (h2, cls)
    | [_] => pure (h2, cls)
    | c :: rest =>
      if rest.all (fun x => trimOWS x == trimOWS c) then
        pure (goSet (goDel h2 (bs "Content-Length")) (bs "Content-Length") (trimOWS c), [trimOWS c])
      else throw .outOfDomain
  let n ← match cls with
    | [] => pure (0 : Nat)
    | c :: _ => match parseNat? (trimOWS c) with
      | some n => pure n
      | none => throw .outOfDomain
  let (h4, len) : HMap × Int :=
    if chunked then (goDel h3 (bs "Content-Length"), -1)
    else if cls.isEmpty then (goDel h3 (bs "Content-Length"), 0)
    else (h3, (n : Int))
  -- fixTrailer
  let (h5, trailer) : HMap × List Bytes :=
    match HMap.get h4 (bs "Trailer") with
    | none => (h4, [])
    | some vs =>
      if !chunked then (h4, [])
      else (goDel h4 (bs "Trailer"),
            (vs.flatMap fun v => (splitComma v).map (fun k => canonicalKey (trimOWS k))).filter (fun k => !k.isEmpty))
  if trailer.any (fun k => k == bs "Transfer-Encoding" || k == bs "Trailer" || k == bs "Content-Length") then
    throw .outOfDomain
  pure { method := r.method, minor := r.minor, scheme := scheme, urlHost := urlHost, host := host,
         path := r.path, query := r.query, header := h5, contentLength := len, chunked := chunked,
         close := close, trailer := trailer }

/-! ### martian + forwarder modifiers -/

/-! ### `net/url` host splitting, `net.SplitHostPort`, `net.JoinHostPort` -/

def indexOfByte (c : UInt8) : Bytes → Option Nat
  | [] => none
  | x :: xs => if x == c then some 0 else (indexOfByte c xs).map (· + 1)

def lastIndexOfByte (c : UInt8) (s : Bytes) : Option Nat :=
  (indexOfByte c s.reverse).map fun i => s.length - 1 - i

/-- `validOptionalPort`: "" or ":" followed by digits only -/
def validOptionalPort : Bytes → Bool
  | [] => true
  | c :: rest => c == 58 && rest.all isDigit

/-- net/url `splitHostPort`: the port is what follows the LAST colon when that is all digits;
    a host wrapped in brackets loses them -/
def urlSplitHostPort (hp : Bytes) : Bytes × Bytes :=
  let (host, port) : Bytes × Bytes := match lastIndexOfByte 58 hp with
    | some i => if validOptionalPort (hp.drop i) then (hp.take i, hp.drop (i + 1)) else (hp, [])
    | none => (hp, [])
  let host := if host.head? == some 91 && host.getLast? == some 93 then (host.drop 1).dropLast else host
  (host, port)

/-- `req.URL.Hostname()` -/
def hostname (hostport : Bytes) : Bytes := (urlSplitHostPort hostport).1

/-- `req.URL.Port()` -/
def urlPort (hostport : Bytes) : Bytes := (urlSplitHostPort hostport).2

/-- `net.SplitHostPort` (none = error) -/
def netSplitHostPort (hp : Bytes) : Option (Bytes × Bytes) :=
  match lastIndexOfByte 58 hp with
  | none => none
  | some i =>
    if hp.head? == some 91 then
      match indexOfByte 93 hp with
      | none => none
      | some e =>
        if e + 1 == hp.length then none
        else if e + 1 == i then
          if (hp.drop 1).contains 91 || (hp.drop (e + 1)).contains 93 then none
          else some ((hp.take e).drop 1, hp.drop (i + 1))
        else none
    else
      let host := hp.take i
      if host.contains 58 || hp.contains 91 || hp.contains 93 then none
      else some (host, hp.drop (i + 1))

/-- `net.JoinHostPort` -/
def netJoinHostPort (host port : Bytes) : Bytes :=
  if host.contains 58 then [91] ++ host ++ [93, 58] ++ port else host ++ [58] ++ port

/-- the host `NewForwardedModifier` records for the client: `net.SplitHostPort(req.RemoteAddr)`'s host,
    the whole of `RemoteAddr` when that fails.  `RemoteAddr` is `conn.RemoteAddr().String()`: the socket's
    peer address, or the source address a PROXY protocol header announces. -/
def peerHost (remoteAddr : Bytes) : Bytes :=
  match netSplitHostPort remoteAddr with
  | some (h, _) => h
  | none => remoteAddr

/-- the connection context of a request read from a connection whose `RemoteAddr` is `remoteAddr` -/
def connCtx (remoteAddr : Bytes) (secure : Bool := false) : Ctx :=
  { clientIP := peerHost remoteAddr, secure := secure }

/-! ### IP literals: `net.ParseIP` (= `netip.ParseAddr` without zones), `IsLoopback`, `IsUnspecified` -/

def splitOnByte (sep : UInt8) (s : Bytes) : List Bytes :=
  let rec go (cur : Bytes) (acc : List Bytes) : Bytes → List Bytes
    | [] => (cur.reverse :: acc).reverse
    | c :: cs => if c == sep then go [] (cur.reverse :: acc) cs else go (c :: cur) acc cs
  go [] [] s

/-- IPv4 dotted quad → four octets (`netip.parseIPv4Fields`: exactly four decimal fields, each
    0..255, no leading zero, no empty field) -/
def parseIPv4 (s : Bytes) : Option (List Nat) :=
  let parts := splitOnByte 46 s
  if parts.length != 4 then none else
  parts.mapM fun p =>
    if p.isEmpty || p.length > 3 || !p.all isDigit then none
    else if p.length > 1 && p.head? == some 48 then none       -- Go rejects leading zeros
    else match parseNat? p with
      | some n => if n ≤ 255 then some n else none
      | none => none

def hexVal? (c : UInt8) : Option Nat :=
  if isDigit c then some (c.toNat - 48)
  else if 97 ≤ c && c ≤ 102 then some (c.toNat - 87)
  else if 65 ≤ c && c ≤ 70 then some (c.toNat - 55)
  else none

/-- one colon-separated IPv6 field: 1 to 4 hex digits -/
def parseHexGroup (g : Bytes) : Option Nat :=
  if g.isEmpty || g.length > 4 then none
  else g.foldlM (fun acc c => (hexVal? c).map (acc * 16 + ·)) 0

/-- colon-separated fields; only the last one may be an embedded dotted quad (two 16-bit fields) -/
def parseV6Groups (allowV4 : Bool) : List Bytes → Option (List Nat)
  | [] => some []
  | [g] =>
    if allowV4 && g.contains 46 then
      match parseIPv4 g with
      | some [a, b, c, d] => some [a * 256 + b, c * 256 + d]
      | _ => none
    else (parseHexGroup g).map fun x => [x]
  | g :: rest => do
    let x ← parseHexGroup g
    let xs ← parseV6Groups allowV4 rest
    pure (x :: xs)

/-- position of the first `::` -/
def findDoubleColon : Bytes → Option Nat
  | 58 :: 58 :: _ => some 0
  | _ :: rest => (findDoubleColon rest).map (· + 1)
  | [] => none

/-- `netip.parseIPv6` without zone: eight 16-bit fields -/
def parseIPv6 (s : Bytes) : Option (List Nat) :=
  if s.contains 37 then none else                              -- '%': zones are refused by net.ParseIP
  match findDoubleColon s with
  | none =>
    match parseV6Groups true (splitOnByte 58 s) with
    | some fs => if fs.length == 8 then some fs else none
    | none => none
  | some i =>
    let l := s.take i
    let r := s.drop (i + 2)
    match (if l.isEmpty then some [] else parseV6Groups false (splitOnByte 58 l)),
          (if r.isEmpty then some [] else parseV6Groups true (splitOnByte 58 r)) with
    | some lg, some rg =>
      if lg.length + rg.length ≤ 7 then some (lg ++ List.replicate (8 - (lg.length + rg.length)) 0 ++ rg)
      else none
    | _, _ => none

/-- `net.ParseIP` as eight 16-bit fields (an IPv4 address in its IPv4-mapped form, as Go's 16-byte
    representation has it); dispatch on the first of `.`, `:`, `%` as `netip.ParseAddr` does -/
def parseIP (s : Bytes) : Option (List Nat) :=
  match s.find? (fun c => c == 46 || c == 58 || c == 37) with
  | some 46 =>
    match parseIPv4 s with
    | some [a, b, c, d] => some [0, 0, 0, 0, 0, 65535, a * 256 + b, c * 256 + d]
    | _ => none
  | some 58 => parseIPv6 s
  | _ => none

/-- `IP.IsLoopback`: 127.0.0.0/8 for an address with a 4-byte form (incl. IPv4-mapped), else `::1` -/
def ipIsLoopback (ip : List Nat) : Bool :=
  match ip with
  | [0, 0, 0, 0, 0, 65535, g, _] => g / 256 == 127
  | _ => ip == [0, 0, 0, 0, 0, 0, 0, 1]

/-- `IP.IsUnspecified`: `0.0.0.0` (also as `::ffff:0.0.0.0`) or `::` -/
def ipIsUnspecified (ip : List Nat) : Bool :=
  ip == [0, 0, 0, 0, 0, 65535, 0, 0] || ip == [0, 0, 0, 0, 0, 0, 0, 0]

/-- `net.ParseIP(h) != nil && ip.IsLoopback()` -/
def isLoopbackLiteral (h : Bytes) : Bool :=
  match parseIP h with
  | some ip => ipIsLoopback ip
  | none => false

def isUnspecifiedLiteral (h : Bytes) : Bool :=
  match parseIP h with
  | some ip => ipIsUnspecified ip
  | none => false

/-- `HTTPProxy.isLocalhost` (`names` = `hp.localhost`): a configured name, or an IP literal that
    `IsLoopback()` or `IsUnspecified()` -/
def isLocalhostNames (names : List Bytes) (host : Bytes) : Bool :=
  let h := lower host
  names.contains h || isLoopbackLiteral h || isUnspecifiedLiteral h

def isLocalhost (cfg : Cfg) (host : Bytes) : Bool := isLocalhostNames cfg.localhostNames host

/-- what the property asks of the classifier: a configured localhost name, or a loopback or
    unspecified IP literal in any spelling (`isLocalhost` meets it: `c04_localhost_spec_full`) -/
def isLocalhostSpec (cfg : Cfg) (host : Bytes) : Bool :=
  let h := lower host
  cfg.localhostNames.contains h || isLoopbackLiteral h || isUnspecifiedLiteral h

/-! ### domain lists (`ruleset.RegexpMatcher` for the pattern shapes of `DomPat`) -/

def DomPat.matches : DomPat → Bytes → Bool
  | .exact p, s => s == p
  | .suffix p, s => p.length ≤ s.length && s.drop (s.length - p.length) == p
  | .pfx p, s => p.isPrefixOf s
  | .contains p, s => isInfix p s
  | .all, _ => true

/-- `RegexpMatcher.Match`: no exclusion matches and some inclusion matches -/
def domMatch (rules : List DomRule) (s : Bytes) : Bool :=
  !(rules.any fun r => r.exclude && r.pat.matches s) && (rules.any fun r => !r.exclude && r.pat.matches s)

inductive Refusal where
  | timeFrame | auth | localhost | denied | loop
  deriving Repr, DecidableEq

def Refusal.status : Refusal → Nat
  | .timeFrame => 451 | .auth => 407 | .localhost => 403 | .denied => 403 | .loop => 400

/-- the security prefix of the modifier stack (`topg`): first failure aborts -/
def securityCheck (cfg : Cfg) (g : GoReq) : Option Refusal :=
  if !cfg.timeAllowed then some .timeFrame else
  let authOK := match cfg.basicAuth with
    | none => true
    | some (u, p) =>
      let a := goGet g.header (bs "Proxy-Authorization")
      if a.isEmpty then false else
      match parseBasicAuth a with
      | some (u', p') => u' == u && p' == p
      | none => false
  if !authOK then some .auth else
  let hn := hostname g.urlHost
  if cfg.denyLocalhost && isLocalhost cfg hn then some .localhost else
  if cfg.denyExact.contains hn || domMatch cfg.denyRules hn then some .denied else none

def hopByHopNames : List Bytes :=
  [bs "Connection", bs "Keep-Alive", bs "Proxy-Authenticate", bs "Proxy-Authorization",
   bs "Proxy-Connection", bs "Te", bs "Trailer", bs "Transfer-Encoding", bs "Upgrade"]

/-- `removeHopByHopHeaders` -/
def removeHopByHop (h : HMap) : HMap :=
  let nominated := (hget h (bs "Connection")).flatMap fun vs =>
    (splitComma vs).map fun v => canonicalKey (trimSpace v)
  let h1 := nominated.foldl (fun h k => goDel h k) h
  hopByHopNames.foldl (fun h k => goDel h k) h1

/-- `upgradeType` -/
def upgradeType (h : HMap) : Bytes :=
  if valuesContainToken (hget h (bs "Connection")) (bs "Upgrade") then goGet h (bs "Upgrade") else []

def fullURL (g : GoReq) : Bytes :=
  g.scheme ++ bs "://" ++ g.urlHost ++ g.path ++
    (match g.query with | some q => 63 :: q | none => [])

/-- `NewForwardedModifier` (non-CONNECT) -/
def forwarded (ctx : Ctx) (g : GoReq) : HMap :=
  let h := g.header
  let h := if (goGet h (bs "X-Forwarded-Proto")).isEmpty then goSet h (bs "X-Forwarded-Proto") g.scheme else h
  let h := if (goGet h (bs "X-Forwarded-Host")).isEmpty then goSet h (bs "X-Forwarded-Host") g.host else h
  let h := if (goGet h (bs "X-Forwarded-Url")).isEmpty then goSet h (bs "X-Forwarded-Url") (fullURL g) else h
  -- all field lines count: `strings.Join(req.Header.Values("X-Forwarded-For"), ", ")`
  let v := joinWith (bs ", ") (hget h (bs "X-Forwarded-For"))
  let xff := if v.isEmpty then ctx.clientIP else v ++ bs ", " ++ ctx.clientIP
  goSet h (bs "X-Forwarded-For") xff

/-- `NewBadFramingModifier` on what ReadRequest leaves (single Content-Length, no Transfer-Encoding):
    comma-separated equal lengths collapse, mismatching ones fail the request (400-class error). -/
def badFraming (h : HMap) : Option HMap :=
  match hget h (bs "Content-Length") with
  | [] => some h
  | cls =>
    let parts := (cls.flatMap splitComma).map trimSpace
    match parts with
    | [] => some h
    | l :: rest => if rest.all (fun x => x == l) then some (goSet h (bs "Content-Length") l) else none

def protoText (minor : Nat) : Bytes := if minor == 0 then bs "1.0" else bs "1.1"

/-- the Via chain of a header map: ALL field lines, in order, combined as RFC 9110 §5.3 says
    (`strings.Join(req.Header.Values("Via"), ", ")`) -/
def viaChainOf (h : HMap) : Bytes := joinWith (bs ", ") (hget h (bs "Via"))

/-- `ViaModifier.ModifyRequest`: none = loop detected -/
def viaStep (cfg : Cfg) (minor : Nat) (h : HMap) : Option HMap :=
  let via := viaChainOf h
  if !via.isEmpty && isInfix cfg.tag via then none
  else
    let pre := if via.isEmpty then [] else via ++ bs ", "
    some (goSet h (bs "Via") (pre ++ protoText minor ++ [32] ++ cfg.tag))

/-! ### what the next hop receives -/

inductive Hop where
  | direct (addr : Bytes)             -- origin `host[:port]` as in the URL
  | proxy (hostport : Bytes)
  | tlsProxy (hostport : Bytes)       -- HTTPS proxy
  | socks (hostport : Bytes)          -- SOCKS5 proxy (the message itself goes to the origin through it)
  | otherProxy (scheme hostport : Bytes)   -- unsupported proxy scheme: spoken to as an HTTP proxy by the transport
  deriving Repr, DecidableEq

/-- the transport speaks HTTP-proxy protocol on this hop (absolute-form target, Proxy-Authorization) -/
def Hop.speaksProxy : Hop → Bool
  | .proxy _ | .tlsProxy _ | .otherProxy _ _ => true
  | _ => false

structure OutMsg where
  method : Bytes
  target : Bytes
  fields : List (Bytes × List Bytes)  -- lower-case name ↦ values in wire order (sorted by name by the driver)
  /-- framing the hop sees: 0 = none, 1 = Content-Length, 2 = chunked -/
  framing : Nat
  deriving Repr

inductive Outcome where
  | refused (status : Nat) (why : Refusal)
  | badRequest                          -- modifier error other than a security refusal (bad framing)
  | forwarded (hop : Hop) (out : OutMsg)
  | unreadable                          -- request outside the modelled domain
  | routeError                          -- the proxy function failed: error response, no hop contacted
  deriving Repr

def requestURI (g : GoReq) : Bytes :=
  g.path ++ (match g.query with | some q => 63 :: q | none => [])

def methodLacksBody (m : Bytes) : Bool :=
  m == bs "GET" || m == bs "HEAD" || m == bs "DELETE" || m == bs "OPTIONS" || m == bs "PROPFIND" || m == bs "SEARCH"

/-- `shouldSendContentLength` for an outgoing request with known length `n ≥ 0`
    (`TransferEncoding` is empty, so the `isIdentity` branch never applies) -/
def sendsContentLength (method : Bytes) (n : Int) : Bool :=
  if n > 0 then true
  else method == bs "POST" || method == bs "PUT" || method == bs "PATCH"

def lowerFields (h : HMap) : List (Bytes × List Bytes) :=
  h.map fun e => (lower e.1, e.2)

/-- merge entries that share a (lower-case) name, keeping first-occurrence order of values -/
def mergeFields (fs : List (Bytes × List Bytes)) : List (Bytes × List Bytes) :=
  fs.foldl (fun acc f =>
    if acc.any (fun e => e.1 == f.1) then acc.map (fun e => if e.1 == f.1 then (e.1, e.2 ++ f.2) else e)
    else acc ++ [f]) []

def isValueByteOK (c : UInt8) : Bool := c != 13 && c != 10

/-- `Request.write` + the headers `Transport` adds, as received by `hop` -/
def writeRequest (hop : Hop) (auth : Option Bytes) (g : GoReq) : OutMsg :=
  let host := g.host
  let ruri := requestURI g
  let target := match hop with
    | .direct _ => ruri
    | .proxy _ => if g.scheme == bs "http" then g.scheme ++ bs "://" ++ host ++ ruri else ruri
    | .socks _ => ruri
    | .tlsProxy _ | .otherProxy _ _ =>
      if g.scheme == bs "http" then g.scheme ++ bs "://" ++ host ++ ruri else ruri
  let h := g.header
  -- User-Agent: first value only; nothing when empty (forwarder sets "" when the client sent none)
  let ua : List (Bytes × List Bytes) :=
    match HMap.get h (bs "User-Agent") with
    | some (v :: _) => if (trimOWS v).isEmpty then [] else [(bs "user-agent", [trimOWS v])]
    | _ => []
  -- Connection: close when req.Close (the map's own Connection was removed as hop-by-hop, unless re-added for an upgrade)
  let connClose : List (Bytes × List Bytes) :=
    if g.close && !valuesContainToken [goGet h (bs "Connection")] (bs "close") then [(bs "connection", [bs "close"])] else []
  let (framingFields, framing) : List (Bytes × List Bytes) × Nat :=
    if g.chunked then
      ([(bs "transfer-encoding", [bs "chunked"])] ++
        (if g.trailer.isEmpty then [] else [(bs "trailer", [joinWith [44] (g.trailer.mergeSort C16.bytesLe).eraseDups])]), 2)
    else if sendsContentLength g.method g.contentLength then
      ([(bs "content-length", [natToDec g.contentLength.toNat])], if g.contentLength > 0 then 1 else 0)
    else ([], 0)
  let excluded := [bs "Host", bs "User-Agent", bs "Content-Length", bs "Transfer-Encoding", bs "Trailer"]
  let rest := lowerFields (h.filter fun e => !excluded.contains e.1)
  let extra : List (Bytes × List Bytes) :=
    (if (goGet h (bs "Accept-Encoding")).isEmpty && (goGet h (bs "Range")).isEmpty && g.method != bs "HEAD"
     then [(bs "accept-encoding", [bs "gzip"])] else []) ++
    (match hop, auth with
     | .proxy _, some a => if g.scheme == bs "http" then [(bs "proxy-authorization", [a])] else []
     | .tlsProxy _, some a => if g.scheme == bs "http" then [(bs "proxy-authorization", [a])] else []
     | .otherProxy _ _, some a => if g.scheme == bs "http" then [(bs "proxy-authorization", [a])] else []
     | _, _ => [])
  { method := g.method, target := target,
    fields := mergeFields ([(bs "host", [host])] ++ ua ++ connClose ++ framingFields ++ rest ++ extra),
    framing := framing }

/-- `proxyConn.handle` for a non-CONNECT request up to and including the transport write. -/
def processRequest (cfg : Cfg) (ctx : Ctx) (r : Request) : Outcome :=
  match readRequest r with
  | .error _ => .unreadable
  | .ok g0 =>
    -- req.URL.Host = req.Host when empty; fixRequestScheme
    let urlHost := if g0.urlHost.isEmpty then g0.host else g0.urlHost
    let scheme :=
      if g0.scheme.isEmpty then
        let p := goGet g0.header (bs "X-Forwarded-Proto")
        if !p.isEmpty then p else if ctx.secure then bs "https" else bs "http"
      else g0.scheme
    let g := { g0 with urlHost := urlHost, scheme := scheme }
    let upType := upgradeType g.header
    match securityCheck cfg g with
    | some why => .refused why.status why
    | none =>
      let h1 := removeHopByHop g.header
      let h2 := forwarded ctx { g with header := h1 }
      match badFraming h2 with
      | none => .badRequest
      | some h3 =>
        match viaStep cfg g.minor h3 with
        | none => .refused 400 .loop
        | some h4 =>
          let h5 := applyRules cfg.rules h4
          let h6 := match cfg.siteCred with
            | some a => if (goGet h5 (bs "Authorization")).isEmpty then goSet h5 (bs "Authorization") a else h5
            | none => h5
          let h7 := if (HMap.get h6 (bs "User-Agent")).isNone then goSet h6 (bs "User-Agent") [] else h6
          let h8 := if upType.isEmpty then h7
                    else goSet (goSet h7 (bs "Connection") (bs "Upgrade")) (bs "Upgrade") upType
          let gOut := { g with header := h8 }
          match cfg.upstream with
          | .none => .forwarded (.direct urlHost) (writeRequest (.direct urlHost) none gOut)
          | .http hp auth =>
            if scheme == bs "http" then .forwarded (.proxy hp) (writeRequest (.proxy hp) auth gOut)
            else .forwarded (.direct urlHost) (writeRequest (.direct urlHost) none gOut)
          | .https hp auth =>
            if scheme == bs "http" then .forwarded (.tlsProxy hp) (writeRequest (.tlsProxy hp) auth gOut)
            else .forwarded (.direct urlHost) (writeRequest (.direct urlHost) none gOut)
          | .socks5 hp _ => .forwarded (.socks hp) (writeRequest (.socks hp) none gOut)
          | .other sc hp auth =>
            if scheme == bs "http" then .forwarded (.otherProxy sc hp) (writeRequest (.otherProxy sc hp) auth gOut)
            else .forwarded (.direct urlHost) (writeRequest (.direct urlHost) none gOut)
          | .failed => .routeError

/-! ### error responses (`errorResponse`, then `writeErrorResponse` → response modifiers) -/

/-- `err.Error()` of the refusal (the loop error quotes the Via value and is not modelled) -/
def Refusal.errText : Refusal → Bytes
  | .timeFrame => bs "proxying denied outside allowed time frame"
  | .auth => bs "proxy authentication required"
  | .localhost => bs "localhost proxying is disabled"
  | .denied => bs "proxying denied"
  | .loop => []

/-- `Basic realm=%q` of the proxy name (Domain: names of printable ASCII without `"` and `\`, for
    which `%q` only adds the quotes) -/
def challengeValue (cfg : Cfg) : Bytes := bs "Basic realm=\"" ++ cfg.name ++ bs "\""

/-- header fields `HTTPProxy.errorResponse` puts on the response it builds -/
def errorHeadersBuilt (cfg : Cfg) (why : Refusal) : HMap :=
  let h : HMap := []
  let h := if why.status == 407 then goSet h (bs "Proxy-Authenticate") (challengeValue cfg) else h
  let h := goSet h (bs "X-Forwarder-Error") (cfg.name ++ [32] ++ why.errText)
  goSet h (bs "Content-Type") (bs "text/plain; charset=utf-8")

/-- the same fields as the client receives them: `writeErrorResponse` runs the response modifiers
    over the error response (the httpspec stack removes hop-by-hop fields from every response) and
    then puts the challenge of a locally generated 407 back when the modifiers left none -/
def errorHeadersReceived (cfg : Cfg) (why : Refusal) : HMap :=
  let built := errorHeadersBuilt cfg why
  let challenge := if why.status == 407 then hget built (bs "Proxy-Authenticate") else []
  let h := removeHopByHop built
  if !challenge.isEmpty && (hget h (bs "Proxy-Authenticate")).isEmpty
  then HMap.put h (bs "Proxy-Authenticate") challenge else h

/-! ### upstream activity: who is dialled and which message heads are sent there -/

inductive Via where
  | direct | http | https | socks5
  deriving Repr, DecidableEq

inductive Peer where
  | origin | proxy
  deriving Repr, DecidableEq

/-- one message head put on an upstream connection -/
structure Sent where
  recv : Peer                         -- who reads it: the proxy, or the origin (possibly inside a tunnel)
  setup : Bool                        -- a CONNECT head asking the proxy for a tunnel (not a request for the origin)
  msg : OutMsg
  deriving Repr

/-- one upstream connection opened on behalf of a client request -/
structure Action where
  via : Via
  hopAddr : Bytes                     -- address handed to the dialer (before --connect-to)
  socksTarget : Option Bytes := none  -- SOCKS5: the address the proxy is asked to connect to
  socksAuth : Option (Bytes × Bytes) := none
  sent : List Sent := []
  deriving Repr

def defaultPort (scheme : Bytes) : Bytes :=
  if scheme == bs "http" then bs "80" else if scheme == bs "https" then bs "443"
  else if scheme == bs "socks5" || scheme == bs "socks5h" then bs "1080" else []

/-- net/http `canonicalAddr`: `url.Host` with the scheme's default port when none is given -/
def canonicalAddr (scheme hostport : Bytes) : Bytes :=
  let port := urlPort hostport
  netJoinHostPort (hostname hostport) (if port.isEmpty then defaultPort scheme else port)

/-- `maps.Copy(dst, src)` -/
def mapsCopy (dst src : HMap) : HMap := src.foldl (fun d e => HMap.put d e.1 e.2) dst

def userAgentField (m : HMap) (dflt : Bytes) : List (Bytes × List Bytes) :=
  match HMap.get m (bs "User-Agent") with
  | some (v :: _) => if (trimOWS v).isEmpty then [] else [(bs "user-agent", [trimOWS v])]
  | some [] => []
  | none => if dflt.isEmpty then [] else [(bs "user-agent", [dflt])]

def writeExcluded : List Bytes :=
  [bs "Host", bs "User-Agent", bs "Content-Length", bs "Transfer-Encoding", bs "Trailer"]

/-- `--connect-header` rules as `GetProxyConnectHeader` yields them (applied to an empty map) -/
def connectExtra (cfg : Cfg) : HMap := applyRules cfg.connectRules []

/-- CONNECT head `dialvia.HTTPProxyDialer` writes to an HTTP(S) upstream proxy for a client CONNECT:
    `{User-Agent: "", Proxy-Authorization from the proxy URL}` overwritten key-wise by the clone of the
    (modified) client CONNECT header, then by `GetProxyConnectHeader` -/
def dialviaConnectHead (authority : Bytes) (proxyAuth : Option Bytes) (h extra : HMap) : OutMsg :=
  let base : HMap := [(bs "User-Agent", [[]])] ++
    (match proxyAuth with | some a => [(bs "Proxy-Authorization", [a])] | none => [])
  let m := mapsCopy (mapsCopy base h) extra
  { method := bs "CONNECT", target := authority,
    fields := mergeFields ([(bs "host", [authority])] ++ userAgentField m [] ++
      lowerFields (m.filter fun e => !writeExcluded.contains e.1)),
    framing := 0 }

/-- CONNECT head net/http's `Transport` writes to an HTTP(S) proxy for an `https` request -/
def transportConnectHead (targetAddr : Bytes) (proxyAuth : Option Bytes) (extra : HMap) : OutMsg :=
  let m := match proxyAuth with | some a => goSet extra (bs "Proxy-Authorization") a | none => extra
  { method := bs "CONNECT", target := targetAddr,
    fields := mergeFields ([(bs "host", [targetAddr])] ++ userAgentField m (bs "Go-http-client/1.1") ++
      lowerFields (m.filter fun e => !writeExcluded.contains e.1)),
    framing := 0 }

/-- scheme and URL host of a non-CONNECT request as `proxyConn.handle` fixes them up
    (the same computation `processRequest` starts with) -/
def reqTarget (ctx : Ctx) (r : Request) : Option (Bytes × Bytes) :=
  match readRequest r with
  | .error _ => none
  | .ok g0 =>
    let urlHost := if g0.urlHost.isEmpty then g0.host else g0.urlHost
    let scheme :=
      if g0.scheme.isEmpty then
        let p := goGet g0.header (bs "X-Forwarded-Proto")
        if !p.isEmpty then p else if ctx.secure then bs "https" else bs "http"
      else g0.scheme
    some (scheme, urlHost)

/-- connection the transport opens for a forwarded request and the heads it writes there -/
def transportAction (cfg : Cfg) (scheme urlHost : Bytes) (out : OutMsg) : Action :=
  let origin := canonicalAddr scheme urlHost
  let viaProxy := fun (v : Via) (psch hp : Bytes) (auth : Option Bytes) =>
    if scheme == bs "http" then
      ({ via := v, hopAddr := canonicalAddr psch hp, sent := [⟨.proxy, false, out⟩] } : Action)
    else
      { via := v, hopAddr := canonicalAddr psch hp,
        sent := [⟨.proxy, true, transportConnectHead origin auth (connectExtra cfg)⟩, ⟨.origin, false, out⟩] }
  match cfg.upstream with
  | .none | .failed => { via := .direct, hopAddr := origin, sent := [⟨.origin, false, out⟩] }
  | .http hp auth => viaProxy .http (bs "http") hp auth
  | .https hp auth => viaProxy .https (bs "https") hp auth
  | .other sc hp auth => viaProxy .http sc hp auth
  | .socks5 hp auth =>
    { via := .socks5, hopAddr := canonicalAddr (bs "socks5") hp, socksTarget := some origin, socksAuth := auth,
      sent := [⟨.origin, false, out⟩] }

/-- everything done upstream on behalf of a non-CONNECT request -/
def requestActions (cfg : Cfg) (ctx : Ctx) (r : Request) : List Action :=
  match processRequest cfg ctx r, reqTarget ctx r with
  | .forwarded _ out, some (scheme, urlHost) => [transportAction cfg scheme urlHost out]
  | _, _ => []

/-! ### CONNECT (`proxyConn.handleConnectRequest`) -/

structure ConnectReq where
  authority : Bytes                   -- request-target `host:port`
  minor : Nat := 1
  fields : List (Bytes × Bytes) := []
  deriving Repr

/-- `http.ReadRequest` sees a CONNECT target as the authority of a URL without scheme and path -/
def ConnectReq.asRequest (c : ConnectReq) : Request :=
  { method := bs "CONNECT", minor := c.minor, target := .absolute [] c.authority, path := [], query := none,
    fields := c.fields }

inductive ConnectOutcome where
  | refused (status : Nat) (why : Refusal)
  | badRequest
  | unreadable
  | mitm                              -- `200` written by the proxy itself, TLS terminated locally; nothing dialled yet
  | tunnel (a : Action)               -- upstream connection opened; on success the client gets `200` and raw bytes flow
  | routeError                        -- proxy function failed or unsupported proxy scheme: error response, nothing dialled
  deriving Repr

/-- the CONNECT request header after the modifier stack (`none` when a modifier refused) -/
def connectModified (cfg : Cfg) (g : GoReq) : Except ConnectOutcome HMap :=
  match securityCheck cfg g with
  | some why => .error (.refused why.status why)
  | none =>
    let h1 := removeHopByHop g.header
    -- NewForwardedModifier returns early for CONNECT
    match badFraming h1 with
    | none => .error .badRequest
    | some h2 =>
      match viaStep cfg g.minor h2 with
      | none => .error (.refused 400 .loop)
      | some h3 =>
        let h4 := applyRules cfg.connectRules h3
        -- `setBasicAuth` returns at once for CONNECT: site credentials are for the origin only
        .ok (if (HMap.get h4 (bs "User-Agent")).isNone then goSet h4 (bs "User-Agent") [] else h4)

/-- what happens to a CONNECT that passed the modifier stack with header `h`: interception, or
    `martian.Proxy.connect` (direct dial / upstream HTTP(S) CONNECT via dialvia / SOCKS5) -/
def connectDispatch (cfg : Cfg) (authority : Bytes) (h : HMap) : ConnectOutcome :=
  if cfg.mitm then .mitm else
  match cfg.upstream with
  | .none => .tunnel { via := .direct, hopAddr := authority }
  | .http hp auth =>
    .tunnel { via := .http, hopAddr := hp,
              sent := [⟨.proxy, true, dialviaConnectHead authority auth h (connectExtra cfg)⟩] }
  | .https hp auth =>
    .tunnel { via := .https, hopAddr := hp,
              sent := [⟨.proxy, true, dialviaConnectHead authority auth h (connectExtra cfg)⟩] }
  | .socks5 hp auth =>
    let port := urlPort hp
    .tunnel { via := .socks5, hopAddr := netJoinHostPort (hostname hp) (if port.isEmpty then bs "1080" else port),
              socksTarget := some authority, socksAuth := auth }
  | .other _ _ _ => .routeError
  | .failed => .routeError

def processConnect (cfg : Cfg) (_ctx : Ctx) (c : ConnectReq) : ConnectOutcome :=
  match readRequest c.asRequest with
  | .error _ => .unreadable
  | .ok g0 =>
    let g := { g0 with header := goDel g0.header (bs "X-Martian-Terminate-Tls") }
    match connectModified cfg g with
    | .error o => o
    | .ok h => connectDispatch cfg c.authority h

def connectActions (cfg : Cfg) (ctx : Ctx) (c : ConnectReq) : List Action :=
  match processConnect cfg ctx c with
  | .tunnel a => [a]
  | _ => []

/-! ### a client connection: the same functions at every position, also inside an intercepted tunnel -/

inductive ConnItem where
  | req (r : Request)
  | connect (c : ConnectReq)
  deriving Repr

inductive ItemOutcome where
  | req (o : Outcome)
  | connect (o : ConnectOutcome)
  deriving Repr

def processItem (cfg : Cfg) (ctx : Ctx) : ConnItem → ItemOutcome
  | .req r => .req (processRequest cfg ctx r)
  | .connect c => .connect (processConnect cfg ctx c)

def itemActions (cfg : Cfg) (ctx : Ctx) : ConnItem → List Action
  | .req r => requestActions cfg ctx r
  | .connect c => connectActions cfg ctx c

/-- requests read one after the other from a keep-alive client connection: a refused or forwarded
    request leaves the connection in request mode; an intercepted CONNECT switches to the TLS session
    (`secure`); an established tunnel ends request processing -/
def processConnection (cfg : Cfg) (ctx : Ctx) : List ConnItem → List ItemOutcome
  | [] => []
  | it :: rest =>
    let o := processItem cfg ctx it
    o :: (match o with
      | .connect (.tunnel _) => []
      | .connect .mitm => processConnection cfg { ctx with secure := true } rest
      | _ => processConnection cfg ctx rest)

end Req
end FwdVerif
