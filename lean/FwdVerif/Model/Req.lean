/-
  Request pipeline of the proxy (shared by C01, C04, C05, C06, C18).

  `processRequest cfg ctx r` says what happens to one HTTP/1.x request read from a client
  connection: it is either refused by the proxy itself (status + selected header fields of the
  error response) or forwarded to a next hop, in which case the model gives the message exactly as
  the hop receives it (method, request-target, field lines as lower-case name ↦ values in order).

  It composes, in code order:
    net/http `ReadRequest`                  (header canonicalisation, Host, Pragma fix-up, framing, Close)
    martian `proxyConn.handle`              (URL host, scheme fix-up, upgrade capture)
    forwarder `middlewareStack`             (time frame, basic auth, localhost, deny-domains — first failure aborts)
    martian `httpspec.NewStack`             (hop-by-hop removal, X-Forwarded-*, bad framing, Via + loop check)
    user request rules (C16), site credentials, empty User-Agent, upgrade re-add
    net/http `Transport` → `Request.write`  (request-target by hop kind, Host, framing headers,
                                             Connection: close, Accept-Encoding: gzip, Proxy-Authorization)
  Core-only.
-/
import FwdVerif.Model.C16

namespace FwdVerif
namespace Req

open Ascii
open C16 (HMap goDel goSet goAdd Rule applyRules)

/-! ### small byte-string helpers -/

def bs (s : String) : Bytes := Wire.b s

def trimOWS (v : Bytes) : Bytes :=
  let isWs := fun (c : UInt8) => c == 32 || c == 9
  ((v.dropWhile isWs).reverse.dropWhile isWs).reverse

/-- `strings.Split(s, ",")` -/
def splitComma (s : Bytes) : List Bytes :=
  let rec go (cur : Bytes) (acc : List Bytes) : Bytes → List Bytes
    | [] => (cur.reverse :: acc).reverse
    | c :: cs => if c == 44 then go [] (cur.reverse :: acc) cs else go (c :: cur) acc cs
  go [] [] s

/-- `strings.TrimSpace` restricted to ASCII white space -/
def trimSpace (v : Bytes) : Bytes :=
  let isWs := fun (c : UInt8) => c == 32 || c == 9 || c == 10 || c == 11 || c == 12 || c == 13
  ((v.dropWhile isWs).reverse.dropWhile isWs).reverse

/-- `httpguts.HeaderValuesContainsToken` (comma separated, OWS-trimmed, ASCII case-insensitive) -/
def valuesContainToken (vs : List Bytes) (tok : Bytes) : Bool :=
  vs.any fun v => (splitComma v).any fun t => eqFold (trimOWS t) tok

def isInfix (needle hay : Bytes) : Bool :=
  match hay with
  | [] => needle.isEmpty
  | _ :: tl => needle.isPrefixOf hay || isInfix needle tl

def joinWith (sep : Bytes) : List Bytes → Bytes
  | [] => []
  | [x] => x
  | x :: xs => x ++ sep ++ joinWith sep xs

def natToDec (n : Nat) : Bytes := (toString n).toUTF8.toList

/-! ### base64 (std alphabet, strict padding) for `Proxy-Authorization: Basic …` -/

def b64Val (c : UInt8) : Option Nat :=
  if isUpper c then some (c.toNat - 65)
  else if isLower c then some (c.toNat - 71)
  else if isDigit c then some (c.toNat + 4)
  else if c == 43 then some 62
  else if c == 47 then some 63
  else none

/-- `base64.StdEncoding.DecodeString` on a string without CR/LF: groups of four, `=` padding only
    at the end, strict (non-zero trailing bits are accepted by Go's non-strict default decoder). -/
def b64Decode : Bytes → Option Bytes
  | [] => some []
  | [a, b, 61, 61] => do
      let x ← b64Val a; let y ← b64Val b
      pure [UInt8.ofNat ((x * 4 + y / 16) % 256)]
  | [a, b, c, 61] => do
      let x ← b64Val a; let y ← b64Val b; let z ← b64Val c
      pure [UInt8.ofNat ((x * 4 + y / 16) % 256), UInt8.ofNat ((y * 16 + z / 4) % 256)]
  | a :: b :: c :: d :: rest => do
      let x ← b64Val a; let y ← b64Val b; let z ← b64Val c; let w ← b64Val d
      let tl ← b64Decode rest
      pure (UInt8.ofNat ((x * 4 + y / 16) % 256) :: UInt8.ofNat ((y * 16 + z / 4) % 256) ::
            UInt8.ofNat ((z * 64 + w) % 256) :: tl)
  | _ => none

def b64Char (n : Nat) : UInt8 :=
  if n < 26 then UInt8.ofNat (65 + n) else if n < 52 then UInt8.ofNat (71 + n)
  else if n < 62 then UInt8.ofNat (n - 4) else if n == 62 then 43 else 47

def b64Encode : Bytes → Bytes
  | [] => []
  | [a] => [b64Char (a.toNat / 4), b64Char ((a.toNat % 4) * 16), 61, 61]
  | [a, b] => [b64Char (a.toNat / 4), b64Char ((a.toNat % 4) * 16 + b.toNat / 16),
               b64Char ((b.toNat % 16) * 4), 61]
  | a :: b :: c :: rest =>
      b64Char (a.toNat / 4) :: b64Char ((a.toNat % 4) * 16 + b.toNat / 16) ::
      b64Char ((b.toNat % 16) * 4 + c.toNat / 64) :: b64Char (c.toNat % 64) :: b64Encode rest

/-- `parseBasicAuth`: case-insensitive `Basic ` prefix, base64, split at the first colon. -/
def parseBasicAuth (auth : Bytes) : Option (Bytes × Bytes) :=
  if auth.length < 6 || !eqFold (auth.take 6) (bs "Basic ") then none else
  match b64Decode (auth.drop 6) with
  | none => none
  | some cs =>
    let user := cs.takeWhile (fun c => c != 58)
    if user.length == cs.length then none else some (user, cs.drop (user.length + 1))

def basicAuthValue (user pass : Bytes) : Bytes := bs "Basic " ++ b64Encode (user ++ [58] ++ pass)

/-! ### configuration, connection context, request -/

inductive Upstream where
  | none
  /-- HTTP proxy `host:port`; `auth` = value of the Proxy-Authorization the transport adds (from the
      proxy URL's userinfo or the matching --credentials entry) -/
  | http (hostport : Bytes) (auth : Option Bytes)
  deriving Repr, DecidableEq

structure Cfg where
  tag : Bytes                         -- Via pseudonym `<name>-<20 hex digits>`
  name : Bytes
  basicAuth : Option (Bytes × Bytes) := none
  timeAllowed : Bool := true          -- `TimeFrameAllows` evaluated now (true when not configured)
  denyLocalhost : Bool := false
  localhostNames : List Bytes := []   -- lower-cased: localhost, 0.0.0.0, ::, hosts-file aliases
  denyExact : List Bytes := []        -- deny-domains given as anchored literals `^host$`
  rules : List Rule := []             -- --header rules (non-CONNECT requests)
  connectRules : List Rule := []      -- --connect-header rules (CONNECT requests)
  siteCred : Option Bytes := none     -- `Authorization` value --credentials yields for this target, if any
  upstream : Upstream := .none
  deriving Repr

structure Ctx where
  clientIP : Bytes                    -- host part of the client's socket address
  secure : Bool := false              -- request read inside an intercepted (MITM) TLS session
  deriving Repr

inductive Target where
  | origin                            -- `/path?query`
  | absolute (scheme authority : Bytes)
  deriving Repr, DecidableEq

inductive Body where
  | none
  | cl (n : Nat)                      -- Content-Length: n   (payload bytes are opaque to the model)
  | chunked (trailerNames : List Bytes)
  deriving Repr, DecidableEq

structure Request where
  method : Bytes
  minor : Nat                         -- HTTP/1.<minor>
  target : Target
  path : Bytes                        -- Domain: RFC 3986 path characters, starts with `/`
  query : Option Bytes                -- raw query (without `?`)
  fields : List (Bytes × Bytes)       -- wire order, names as spelt, values OWS-trimmed
  deriving Repr

/-! ### net/http ReadRequest -/

/-- group field lines into Go's header map (canonical keys, values in wire order) -/
def toHeader (fs : List (Bytes × Bytes)) : HMap :=
  fs.foldl (fun h f => goAdd h f.1 f.2) []

structure GoReq where
  method : Bytes
  minor : Nat
  scheme : Bytes                      -- req.URL.Scheme ("" until fixed up)
  urlHost : Bytes                     -- req.URL.Host
  host : Bytes                        -- req.Host
  path : Bytes
  query : Option Bytes
  header : HMap
  contentLength : Int                 -- −1 unknown (chunked)
  chunked : Bool
  close : Bool
  trailer : List Bytes                -- declared trailer names (canonical), sorted when written
  deriving Repr

inductive ReadErr where
  | outOfDomain                       -- shapes the model does not cover (see DESIGN.md C01 Domain)
  deriving Repr, DecidableEq

def hget (h : HMap) (k : Bytes) : List Bytes := (HMap.get h k).getD []

/-- `Header.Get`: first value under the canonical key, or "" -/
def goGet (h : HMap) (n : Bytes) : Bytes := (hget h (canonicalKey n)).headD []

def parseNat? (v : Bytes) : Option Nat :=
  if v.isEmpty || !v.all isDigit then none
  else some (v.foldl (fun acc c => acc * 10 + (c.toNat - 48)) 0)

def readRequest (r : Request) : Except ReadErr GoReq := do
  let h0 := toHeader r.fields
  if (hget h0 (bs "Host")).length > 1 then throw .outOfDomain
  if (hget h0 (bs "Expect")).length > 0 then throw .outOfDomain
  let (scheme, urlHost) := match r.target with
    | .origin => (([] : Bytes), ([] : Bytes))
    | .absolute s a => (s, a)
  let host := if urlHost.isEmpty then goGet h0 (bs "Host") else urlHost
  -- fixPragmaCacheControl
  let h1 := match hget h0 (bs "Pragma") with
    | p :: _ => if p == bs "no-cache" && (HMap.get h0 (bs "Cache-Control")).isNone
                then goSet h0 (bs "Cache-Control") (bs "no-cache") else h0
    | [] => h0
  -- shouldClose
  let conn := hget h1 (bs "Connection")
  let hasClose := valuesContainToken conn (bs "close")
  let close := if r.minor == 0 then hasClose || !valuesContainToken conn (bs "keep-alive") else hasClose
  -- parseTransferEncoding
  let te := HMap.get h1 (bs "Transfer-Encoding")
  let h2 := goDel h1 (bs "Transfer-Encoding")
  let chunked ← match te with
    | none => pure false
    | some vs =>
      if r.minor == 0 then pure false
      else match vs with
        | [v] => if eqFold v (bs "chunked") then pure true else throw .outOfDomain
        | _ => throw .outOfDomain
  -- fixLength
  let cls := hget h2 (bs "Content-Length")
  let (h3, cls) ← match cls with
    | [] => pure (h2, cls)
    | [_] => pure (h2, cls)
    | c :: rest =>
      if rest.all (fun x => trimOWS x == trimOWS c) then
        pure (goSet (goDel h2 (bs "Content-Length")) (bs "Content-Length") (trimOWS c), [trimOWS c])
      else throw .outOfDomain
  let n ← match cls with
    | [] => pure (0 : Nat)
    | c :: _ => match parseNat? (trimOWS c) with
      | some n => pure n
      | none => throw .outOfDomain
  let (h4, len) : HMap × Int :=
    if chunked then (goDel h3 (bs "Content-Length"), -1)
    else if cls.isEmpty then (goDel h3 (bs "Content-Length"), 0)
    else (h3, (n : Int))
  -- fixTrailer
  let (h5, trailer) : HMap × List Bytes :=
    match HMap.get h4 (bs "Trailer") with
    | none => (h4, [])
    | some vs =>
      if !chunked then (h4, [])
      else (goDel h4 (bs "Trailer"),
            (vs.flatMap fun v => (splitComma v).map (fun k => canonicalKey (trimOWS k))).filter (fun k => !k.isEmpty))
  if trailer.any (fun k => k == bs "Transfer-Encoding" || k == bs "Trailer" || k == bs "Content-Length") then
    throw .outOfDomain
  pure { method := r.method, minor := r.minor, scheme := scheme, urlHost := urlHost, host := host,
         path := r.path, query := r.query, header := h5, contentLength := len, chunked := chunked,
         close := close, trailer := trailer }

/-! ### martian + forwarder modifiers -/

/-- `req.URL.Hostname()`: authority without port (brackets of an IPv6 literal stripped) -/
def hostname (hostport : Bytes) : Bytes :=
  match hostport with
  | 91 :: rest => rest.takeWhile (fun c => c != 93)         -- "[v6]:port"
  | _ =>
    -- strip the last ":port" if what follows the last colon is all digits (validOptionalPort)
    let rev := hostport.reverse
    let portRev := rev.takeWhile (fun c => c != 58)
    if portRev.length < hostport.length && portRev.all isDigit then (rev.drop (portRev.length + 1)).reverse
    else hostport

/-- IPv4 dotted quad → four octets -/
def parseIPv4 (s : Bytes) : Option (List Nat) :=
  let parts := (let rec go (cur : Bytes) (acc : List Bytes) : Bytes → List Bytes
                  | [] => (cur.reverse :: acc).reverse
                  | c :: cs => if c == 46 then go [] (cur.reverse :: acc) cs else go (c :: cur) acc cs
                go [] [] s)
  if parts.length != 4 then none else
  parts.mapM fun p =>
    if p.isEmpty || p.length > 3 || !p.all isDigit then none
    else if p.length > 1 && p.head? == some 48 then none       -- Go rejects leading zeros
    else match parseNat? p with
      | some n => if n ≤ 255 then some n else none
      | none => none

/-- Loopback test of `isLocalhost` for the literal shapes the model covers: IPv4 dotted quads
    (127.0.0.0/8) and the IPv6 spellings listed (canonical `::1` and its expanded forms are handled
    by the correspondence generator through `loopbackV6`). -/
def loopbackV6 : List Bytes := [bs "::1", bs "0:0:0:0:0:0:0:1", bs "0000:0000:0000:0000:0000:0000:0000:0001",
  bs "::0:1", bs "0::1", bs "::ffff:127.0.0.1", bs "::ffff:7f00:1", bs "::ffff:127.1.2.3"]

def isLoopbackLiteral (h : Bytes) : Bool :=
  match parseIPv4 h with
  | some (a :: _) => a == 127
  | _ => loopbackV6.contains h

/-- `HTTPProxy.isLocalhost` -/
def isLocalhost (cfg : Cfg) (host : Bytes) : Bool :=
  let h := lower host
  cfg.localhostNames.contains h || isLoopbackLiteral h

inductive Refusal where
  | timeFrame | auth | localhost | denied | loop
  deriving Repr, DecidableEq

def Refusal.status : Refusal → Nat
  | .timeFrame => 451 | .auth => 407 | .localhost => 403 | .denied => 403 | .loop => 400

/-- the security prefix of the modifier stack (`topg`): first failure aborts -/
def securityCheck (cfg : Cfg) (g : GoReq) : Option Refusal :=
  if !cfg.timeAllowed then some .timeFrame else
  let authOK := match cfg.basicAuth with
    | none => true
    | some (u, p) =>
      let a := goGet g.header (bs "Proxy-Authorization")
      if a.isEmpty then false else
      match parseBasicAuth a with
      | some (u', p') => u' == u && p' == p
      | none => false
  if !authOK then some .auth else
  let hn := hostname g.urlHost
  if cfg.denyLocalhost && isLocalhost cfg hn then some .localhost else
  if cfg.denyExact.contains hn then some .denied else none

def hopByHopNames : List Bytes :=
  [bs "Connection", bs "Keep-Alive", bs "Proxy-Authenticate", bs "Proxy-Authorization",
   bs "Proxy-Connection", bs "Te", bs "Trailer", bs "Transfer-Encoding", bs "Upgrade"]

/-- `removeHopByHopHeaders` -/
def removeHopByHop (h : HMap) : HMap :=
  let nominated := (hget h (bs "Connection")).flatMap fun vs =>
    (splitComma vs).map fun v => canonicalKey (trimSpace v)
  let h1 := nominated.foldl (fun h k => goDel h k) h
  hopByHopNames.foldl (fun h k => goDel h k) h1

/-- `upgradeType` -/
def upgradeType (h : HMap) : Bytes :=
  if valuesContainToken (hget h (bs "Connection")) (bs "Upgrade") then goGet h (bs "Upgrade") else []

def fullURL (g : GoReq) : Bytes :=
  g.scheme ++ bs "://" ++ g.urlHost ++ g.path ++
    (match g.query with | some q => 63 :: q | none => [])

/-- `NewForwardedModifier` (non-CONNECT) -/
def forwarded (ctx : Ctx) (g : GoReq) : HMap :=
  let h := g.header
  let h := if (goGet h (bs "X-Forwarded-Proto")).isEmpty then goSet h (bs "X-Forwarded-Proto") g.scheme else h
  let h := if (goGet h (bs "X-Forwarded-Host")).isEmpty then goSet h (bs "X-Forwarded-Host") g.host else h
  let h := if (goGet h (bs "X-Forwarded-Url")).isEmpty then goSet h (bs "X-Forwarded-Url") (fullURL g) else h
  let v := goGet h (bs "X-Forwarded-For")
  let xff := if v.isEmpty then ctx.clientIP else v ++ bs ", " ++ ctx.clientIP
  goSet h (bs "X-Forwarded-For") xff

/-- `NewBadFramingModifier` on what ReadRequest leaves (single Content-Length, no Transfer-Encoding):
    comma-separated equal lengths collapse, mismatching ones fail the request (400-class error). -/
def badFraming (h : HMap) : Option HMap :=
  match hget h (bs "Content-Length") with
  | [] => some h
  | cls =>
    let parts := (cls.flatMap splitComma).map trimSpace
    match parts with
    | [] => some h
    | l :: rest => if rest.all (fun x => x == l) then some (goSet h (bs "Content-Length") l) else none

def protoText (minor : Nat) : Bytes := if minor == 0 then bs "1.0" else bs "1.1"

/-- `ViaModifier.ModifyRequest`: none = loop detected -/
def viaStep (cfg : Cfg) (minor : Nat) (h : HMap) : Option HMap :=
  let via := goGet h (bs "Via")
  if !via.isEmpty && isInfix cfg.tag via then none
  else
    let pre := if via.isEmpty then [] else via ++ bs ", "
    some (goSet h (bs "Via") (pre ++ protoText minor ++ [32] ++ cfg.tag))

/-! ### what the next hop receives -/

inductive Hop where
  | direct (addr : Bytes)             -- origin `host[:port]` as in the URL
  | proxy (hostport : Bytes)
  deriving Repr, DecidableEq

structure OutMsg where
  method : Bytes
  target : Bytes
  fields : List (Bytes × List Bytes)  -- lower-case name ↦ values in wire order (sorted by name by the driver)
  /-- framing the hop sees: 0 = none, 1 = Content-Length, 2 = chunked -/
  framing : Nat
  deriving Repr

inductive Outcome where
  | refused (status : Nat) (why : Refusal)
  | badRequest                          -- modifier error other than a security refusal (bad framing)
  | forwarded (hop : Hop) (out : OutMsg)
  | unreadable                          -- request outside the modelled domain
  deriving Repr

def requestURI (g : GoReq) : Bytes :=
  g.path ++ (match g.query with | some q => 63 :: q | none => [])

def methodLacksBody (m : Bytes) : Bool :=
  m == bs "GET" || m == bs "HEAD" || m == bs "DELETE" || m == bs "OPTIONS" || m == bs "PROPFIND" || m == bs "SEARCH"

/-- `shouldSendContentLength` for an outgoing request with known length `n ≥ 0`
    (`TransferEncoding` is empty, so the `isIdentity` branch never applies) -/
def sendsContentLength (method : Bytes) (n : Int) : Bool :=
  if n > 0 then true
  else method == bs "POST" || method == bs "PUT" || method == bs "PATCH"

def lowerFields (h : HMap) : List (Bytes × List Bytes) :=
  h.map fun e => (lower e.1, e.2)

/-- merge entries that share a (lower-case) name, keeping first-occurrence order of values -/
def mergeFields (fs : List (Bytes × List Bytes)) : List (Bytes × List Bytes) :=
  fs.foldl (fun acc f =>
    if acc.any (fun e => e.1 == f.1) then acc.map (fun e => if e.1 == f.1 then (e.1, e.2 ++ f.2) else e)
    else acc ++ [f]) []

def isValueByteOK (c : UInt8) : Bool := c != 13 && c != 10

/-- `Request.write` + the headers `Transport` adds, as received by `hop` -/
def writeRequest (hop : Hop) (auth : Option Bytes) (g : GoReq) : OutMsg :=
  let host := g.host
  let ruri := requestURI g
  let target := match hop with
    | .direct _ => ruri
    | .proxy _ => if g.scheme == bs "http" then g.scheme ++ bs "://" ++ host ++ ruri else ruri
  let h := g.header
  -- User-Agent: first value only; nothing when empty (forwarder sets "" when the client sent none)
  let ua : List (Bytes × List Bytes) :=
    match HMap.get h (bs "User-Agent") with
    | some (v :: _) => if (trimOWS v).isEmpty then [] else [(bs "user-agent", [trimOWS v])]
    | _ => []
  -- Connection: close when req.Close (the map's own Connection was removed as hop-by-hop, unless re-added for an upgrade)
  let connClose : List (Bytes × List Bytes) :=
    if g.close && !valuesContainToken [goGet h (bs "Connection")] (bs "close") then [(bs "connection", [bs "close"])] else []
  let (framingFields, framing) : List (Bytes × List Bytes) × Nat :=
    if g.chunked then
      ([(bs "transfer-encoding", [bs "chunked"])] ++
        (if g.trailer.isEmpty then [] else [(bs "trailer", [joinWith [44] (g.trailer.mergeSort C16.bytesLe).eraseDups])]), 2)
    else if sendsContentLength g.method g.contentLength then
      ([(bs "content-length", [natToDec g.contentLength.toNat])], if g.contentLength > 0 then 1 else 0)
    else ([], 0)
  let excluded := [bs "Host", bs "User-Agent", bs "Content-Length", bs "Transfer-Encoding", bs "Trailer"]
  let rest := lowerFields (h.filter fun e => !excluded.contains e.1)
  let extra : List (Bytes × List Bytes) :=
    (if (goGet h (bs "Accept-Encoding")).isEmpty && (goGet h (bs "Range")).isEmpty && g.method != bs "HEAD"
     then [(bs "accept-encoding", [bs "gzip"])] else []) ++
    (match hop, auth with
     | .proxy _, some a => if g.scheme == bs "http" then [(bs "proxy-authorization", [a])] else []
     | _, _ => [])
  { method := g.method, target := target,
    fields := mergeFields ([(bs "host", [host])] ++ ua ++ connClose ++ framingFields ++ rest ++ extra),
    framing := framing }

/-- `proxyConn.handle` for a non-CONNECT request up to and including the transport write. -/
def processRequest (cfg : Cfg) (ctx : Ctx) (r : Request) : Outcome :=
  match readRequest r with
  | .error _ => .unreadable
  | .ok g0 =>
    -- req.URL.Host = req.Host when empty; fixRequestScheme
    let urlHost := if g0.urlHost.isEmpty then g0.host else g0.urlHost
    let scheme :=
      if g0.scheme.isEmpty then
        let p := goGet g0.header (bs "X-Forwarded-Proto")
        if !p.isEmpty then p else if ctx.secure then bs "https" else bs "http"
      else g0.scheme
    let g := { g0 with urlHost := urlHost, scheme := scheme }
    let upType := upgradeType g.header
    match securityCheck cfg g with
    | some why => .refused why.status why
    | none =>
      let h1 := removeHopByHop g.header
      let h2 := forwarded ctx { g with header := h1 }
      match badFraming h2 with
      | none => .badRequest
      | some h3 =>
        match viaStep cfg g.minor h3 with
        | none => .refused 400 .loop
        | some h4 =>
          let h5 := applyRules cfg.rules h4
          let h6 := match cfg.siteCred with
            | some a => if (goGet h5 (bs "Authorization")).isEmpty then goSet h5 (bs "Authorization") a else h5
            | none => h5
          let h7 := if (HMap.get h6 (bs "User-Agent")).isNone then goSet h6 (bs "User-Agent") [] else h6
          let h8 := if upType.isEmpty then h7
                    else goSet (goSet h7 (bs "Connection") (bs "Upgrade")) (bs "Upgrade") upType
          let gOut := { g with header := h8 }
          match cfg.upstream with
          | .none => .forwarded (.direct urlHost) (writeRequest (.direct urlHost) none gOut)
          | .http hp auth =>
            if scheme == bs "http" then .forwarded (.proxy hp) (writeRequest (.proxy hp) auth gOut)
            else .forwarded (.direct urlHost) (writeRequest (.direct urlHost) none gOut)

end Req
end FwdVerif
