/-
  C16 — header rewrite rules (`/repo/header/header.go`).

  The model mirrors the code: Go's `http.Header` is a map with *raw* keys; `Del/Set/Add`
  canonicalise the name they are given, `%name` writes a raw key.  Core-only.
-/
import FwdVerif.Lib.Ascii

namespace FwdVerif
namespace C16

open Ascii

/-- `http.Header`: association list with unique raw keys (order is a model artefact). -/
abbrev HMap := List (Bytes × List Bytes)

def HMap.get (h : HMap) (k : Bytes) : Option (List Bytes) := h.lookup k

def HMap.erase (h : HMap) (k : Bytes) : HMap := h.filter (fun e => e.1 != k)

/-- `h[k] = vs` -/
def HMap.put (h : HMap) (k : Bytes) (vs : List Bytes) : HMap :=
  if h.any (fun e => e.1 == k) then h.map (fun e => if e.1 == k then (k, vs) else e)
  else h ++ [(k, vs)]

/-- `http.Header.Del` -/
def goDel (h : HMap) (n : Bytes) : HMap := HMap.erase h (canonicalKey n)
/-- `http.Header.Set` -/
def goSet (h : HMap) (n v : Bytes) : HMap := HMap.put h (canonicalKey n) [v]
/-- `http.Header.Add` -/
def goAdd (h : HMap) (n v : Bytes) : HMap :=
  HMap.put h (canonicalKey n) ((HMap.get h (canonicalKey n)).getD [] ++ [v])

inductive Rule where
  | remove (n : Bytes)
  | removePrefix (n : Bytes)
  | empty (n : Bytes)
  | add (n v : Bytes)
  | rename (n : Bytes)
  deriving DecidableEq, Repr

def Rule.name : Rule → Bytes
  | .remove n | .removePrefix n | .empty n | .add n _ | .rename n => n

/-! ### Parser (`ParseHeader`) -/

/-- `\r?\n?$` -/
def matchTail (t : Bytes) : Bool := t == [] || t == [13] || t == [10] || t == [13, 10]

/-- `[^\r\n]` -/
def isValueByte (c : UInt8) : Bool := c != 13 && c != 10

/-- `([^\r\n]*)\r?\n?$` tried greedily with backtracking; returns submatch 2.  The class can
    consume at most the leading run of bytes other than CR and LF; every shorter choice is tried
    in descending order, as a backtracking matcher (and Go's leftmost-first semantics) would. -/
def valueMatch (r : Bytes) : Option Bytes :=
  let run := r.takeWhile isValueByte
  (List.range (run.length + 1)).reverse.findSome?
    (fun m => if matchTail (r.drop m) then some (r.take m) else none)

/-- `\s*([^\r\n]*)\r?\n?$` with greedy `\s*` and backtracking (`\s` contains CR and LF). -/
def wsValueMatch (rest : Bytes) : Option Bytes :=
  let k := (rest.takeWhile isSpaceRE).length
  (List.range (k + 1)).reverse.findSome? (fun j => valueMatch (rest.drop j))

/-- `^([A-Za-z0-9-]+):\s*([^\r\n]*)\r?\n?$` → (name, value) -/
def lineMatch (val : Bytes) : Option (Bytes × Bytes) :=
  let name := val.takeWhile isNameByte
  if name.isEmpty then none else
  match val.drop name.length with
  | 58 :: rest => (wsValueMatch rest).map (fun v => (name, v))
  | _ => none

/-- `^[A-Za-z0-9-]+$` -/
def validName (n : Bytes) : Bool := !n.isEmpty && n.all isNameByte

def parseRaw (val : Bytes) : Option Rule :=
  if val.head? == some 45 then                      -- HasPrefix "-"
    if val.getLast? == some 42 then                 -- HasSuffix "*"
      some (.removePrefix (val.drop 1).dropLast)
    else some (.remove (val.drop 1))
  else if val.head? == some 37 then                 -- HasPrefix "%"
    some (.rename (val.drop 1))
  else if val.getLast? == some 59 && validName val.dropLast then
    some (.empty val.dropLast)                      -- HasSuffix ";" && name regexp on val[:len-1]
  else
    (lineMatch val).map (fun p => .add p.1 p.2)

def parseRule (val : Bytes) : Option Rule :=
  match parseRaw val with
  | none => none
  | some r => if validName r.name then some r else none

/-- `Header.String` -/
def printRule : Rule → Bytes
  | .remove n => 45 :: n
  | .removePrefix n => 45 :: n ++ [42]
  | .empty n => n ++ [59]
  | .add n v => n ++ 58 :: v
  | .rename n => 37 :: n

/-! ### `Header.Apply` -/

def prefixFold (pfx k : Bytes) : Bool :=
  pfx.length ≤ k.length && eqFold (k.take pfx.length) pfx

/-- `removeHeadersByPrefix`: every matching key `k` triggers `Del(k)`, i.e. removal of
    `canonicalKey k` (which is why a respelt key survives). -/
def removeByPrefix (h : HMap) (pfx : Bytes) : HMap :=
  let targets := (h.filter (fun e => prefixFold pfx e.1)).map (fun e => canonicalKey e.1)
  h.filter (fun e => !targets.contains e.1)

def renameCase (h : HMap) (n : Bytes) : HMap :=
  let c := canonicalKey n
  match HMap.get h c with
  | none => h
  | some vs => if n != c then HMap.erase (HMap.put h n vs) c else h   -- `ok && h.Name != canon`

def applyRule (h : HMap) : Rule → HMap
  | .remove n => goDel h n
  | .removePrefix n => removeByPrefix h n
  | .empty n => goSet h n []
  | .add n v => goAdd h n v
  | .rename n => renameCase h n

def applyRules (rs : List Rule) (h : HMap) : HMap := rs.foldl applyRule h

/-! ### Specification on the case-insensitive field-line view -/

/-- field lines as (lower-cased name, value) pairs -/
def fieldsOf (h : HMap) : List (Bytes × Bytes) :=
  h.flatMap (fun e => e.2.map (fun v => (lower e.1, v)))

def specRule (fs : List (Bytes × Bytes)) : Rule → List (Bytes × Bytes)
  | .remove n => fs.filter (fun f => f.1 != lower n)
  | .removePrefix p => fs.filter (fun f => !(lower p).isPrefixOf f.1)
  | .empty n => fs.filter (fun f => f.1 != lower n) ++ [(lower n, [])]
  | .add n v => fs ++ [(lower n, v)]
  | .rename _ => fs

def specRules (rs : List Rule) (fs : List (Bytes × Bytes)) : List (Bytes × Bytes) :=
  rs.foldl specRule fs

/-- message kinds for the dispatch clause -/
inductive Msg where
  | request | connectRequest | response | connectResponse
  deriving DecidableEq, Repr

/-- which configured list (`--header`, `--connect-header`, `--response-header`) touches a message:
    mirrors `http_proxy.go` (`fg.AddRequestModifier`/`AddResponseModifier` wiring). -/
inductive RuleList where
  | header | connectHeader | responseHeader
  deriving DecidableEq, Repr

def appliesTo : RuleList → Msg → Bool
  | .header, .request => true
  | .connectHeader, .connectRequest => true
  | .responseHeader, .response => true
  | _, _ => false

/-! ### Decidable comparison helpers used by the driver (`holds`) -/

def bytesLe : Bytes → Bytes → Bool
  | [], _ => true
  | _ :: _, [] => false
  | a :: as, b :: bs => if a < b then true else if b < a then false else bytesLe as bs

def pairLe (x y : Bytes × Bytes) : Bool :=
  if x.1 == y.1 then bytesLe x.2 y.2 else bytesLe x.1 y.1

def sortFields (fs : List (Bytes × Bytes)) : List (Bytes × Bytes) := fs.mergeSort pairLe

/-- multiset equality of field lists (decidable form of `List.Perm`) -/
def sameFields (a b : List (Bytes × Bytes)) : Bool := sortFields a == sortFields b

/-- The property clause evaluated on what the implementation produced. -/
def holdsApply (rs : List Rule) (h obs : HMap) : Bool :=
  sameFields (fieldsOf obs) (specRules rs (fieldsOf h))

/-- One rule step evaluated on what the implementation did: `before`/`after` are the header maps
    around the application of `r`.  Values clause: the field lines change as documented; spelling
    clause of `%name`: if the field existed it is now spelt exactly `name`. -/
def holdsStep (r : Rule) (before after : HMap) : Bool :=
  sameFields (fieldsOf after) (specRule (fieldsOf before) r) &&
  (match r with
   | .rename n =>
     if (fieldsOf before).any (fun f => f.1 == lower n) then
       after.any (fun e => e.1 == n) && !after.any (fun e => e.1 != n && lower e.1 == lower n)
     else true
   | _ => true)

/-- Known-finding classes (section 6 of DESIGN.md, F9c): rule lists on which the code is known to
    deviate from the documented meaning hold a `%name` rule. -/
def renameSeen (rs : List Rule) : Bool := rs.any (fun r => match r with | .rename _ => true | _ => false)

/-! ### The request modifier stack around the rules, and the `User-Agent` line of the written request

  `HTTPProxy.middlewareStack` (`http_proxy.go`) registers, in the inner group of the httpspec stack,
  first the user supplied request modifiers (`hp.config.RequestModifiers`: for a non-CONNECT request
  the `--header` list, for a CONNECT the `--connect-header` list), then `hp.setBasicAuth`, then
  `setEmptyUserAgent`.  The request is afterwards written by net/http's `Request.write`, which takes
  the `User-Agent` line out of the map's hands:

      userAgent := defaultUserAgent                       // "Go-http-client/1.1"
      if r.Header.has("User-Agent") { userAgent = r.Header.Get("User-Agent") }
      if userAgent != "" { … TrimString(headerNewlineToSpace.Replace(userAgent)) … "User-Agent: %s\r\n" }

  The ORDER of the three stages is what makes `-User-Agent` mean "no User-Agent line" (and not "the
  library's default") and what lets a rule-added `Authorization` win over configured site
  credentials; it is a parameter here, so that theorems can say which order is needed. -/

/-- "User-Agent" -/
def uaKey : Bytes := [85, 115, 101, 114, 45, 65, 103, 101, 110, 116]
/-- "Authorization" -/
def authKey : Bytes := [65, 117, 116, 104, 111, 114, 105, 122, 97, 116, 105, 111, 110]
/-- net/http `defaultUserAgent` = "Go-http-client/1.1" -/
def goDefaultUA : Bytes := [71, 111, 45, 104, 116, 116, 112, 45, 99, 108, 105, 101, 110, 116, 47, 49, 46, 49]

/-- `http.Header.Get`: first value under the canonical key, "" when there is none -/
def goGet1 (h : HMap) (n : Bytes) : Bytes := ((HMap.get h (canonicalKey n)).getD []).headD []

inductive Stage where
  | userRules      -- `hp.config.RequestModifiers`: the rule list that applies to the message kind
  | basicAuth      -- `hp.setBasicAuth`
  | emptyUA        -- `setEmptyUserAgent`
  deriving DecidableEq, Repr

/-- `setBasicAuth` on a non-CONNECT request; `cred` is the `Authorization` value of the
    `--credentials` entry that matches the request URL (`none`: no entry matches, or CONNECT) -/
def setBasicAuth (cred : Option Bytes) (h : HMap) : HMap :=
  match cred with
  | some a => if goGet1 h authKey == [] then goSet h authKey a else h
  | none => h

/-- `setEmptyUserAgent`: `if _, ok := req.Header["User-Agent"]; !ok { req.Header.Set("User-Agent", "") }` -/
def setEmptyUserAgent (h : HMap) : HMap :=
  if (HMap.get h uaKey).isNone then goSet h uaKey [] else h

def runStage (cred : Option Bytes) (rs : List Rule) (h : HMap) : Stage → HMap
  | .userRules => applyRules rs h
  | .basicAuth => setBasicAuth cred h
  | .emptyUA => setEmptyUserAgent h

def runStack (order : List Stage) (cred : Option Bytes) (rs : List Rule) (h : HMap) : HMap :=
  order.foldl (runStage cred rs) h

/-- the order of `middlewareStack` -/
def stackOrder : List Stage := [.userRules, .basicAuth, .emptyUA]

/-- the order that looks equally plausible ("built-ins first, the user has the last word") and is wrong -/
def builtinsFirst : List Stage := [.basicAuth, .emptyUA, .userRules]

/-- `headerNewlineToSpace` -/
def newlineToSpace (v : Bytes) : Bytes := v.map (fun c => if c == 10 || c == 13 then 32 else c)

def isHTTPSpace (c : UInt8) : Bool := c == 32 || c == 9 || c == 10 || c == 13

/-- `textproto.TrimString` -/
def trimString (v : Bytes) : Bytes := ((v.dropWhile isHTTPSpace).reverse.dropWhile isHTTPSpace).reverse

/-- the value of the `User-Agent` line `Request.write` puts on the wire for header map `h`
    (`none`: no such line) -/
def writtenUA (h : HMap) : Option Bytes :=
  let ua := match HMap.get h uaKey with
    | none => goDefaultUA
    | some vs => vs.headD []
  if ua == [] then none else some (trimString (newlineToSpace ua))

/-- the `User-Agent` line for the values a map WITH the key holds under it: the first value, trimmed;
    no line for no value or an empty first value -/
def uaLineOfValues : Option (List Bytes) → Option Bytes
  | some (v :: _) => if v = [] then none else some (trimString (newlineToSpace v))
  | _ => none

/-- what the next hop receives under `User-Agent` and `Authorization` for a request whose header map
    is `h` when the rules run (`Authorization` is written from the map as it is) -/
def hopUA (order : List Stage) (cred : Option Bytes) (rs : List Rule) (h : HMap) : Option Bytes :=
  writtenUA (runStack order cred rs h)

def hopAuthorization (order : List Stage) (cred : Option Bytes) (rs : List Rule) (h : HMap) : List Bytes :=
  (HMap.get (runStack order cred rs h) authKey).getD []

/-! ### The connect rule list on the CONNECT head an upstream proxy receives

  A client's CONNECT that is relayed to an upstream HTTP(S) proxy meets the `--connect-header` list
  TWICE: as request modifier over the client's CONNECT header (`configureHeadersModifiers`), and
  again in `dialvia.HTTPProxyDialer`, which asks `GetProxyConnectHeader` (`command/run`
  `configureTransportProxy`: the list applied to an EMPTY header) and copies the result over the
  request header key by key (`maps.Copy(req.Header, headers)`).  (The fixed `User-Agent: ""` /
  `Proxy-Authorization` base of dialvia and `setEmptyUserAgent` are in `Model/Req.lean`
  `dialviaConnectHead`; they do not touch the names the theorems here speak about.) -/

/-- `maps.Copy(dst, src)`: every key of `src` replaces the key in `dst` -/
def copyOver (dst src : HMap) : HMap := src.foldl (fun d e => HMap.put d e.1 e.2) dst

/-- `GetProxyConnectHeader`: the connect list applied to an empty header -/
def connectSecondPass (rs : List Rule) : HMap := applyRules rs []

/-- header of the CONNECT written to the upstream proxy for a client CONNECT whose header is `h` when
    the rules run -/
def connectHeadMap (rs : List Rule) (h : HMap) : HMap := copyOver (applyRules rs h) (connectSecondPass rs)

/-! ### Which responses the `--response-header` list sees

  `command/run` `configureHeadersModifiers` wraps the response list in

      if req := resp.Request; req != nil && req.Method == http.MethodConnect { return nil }

  so what decides is the request `res.Request` names WHILE THE RESPONSE MODIFIERS RUN.  Every response
  the client is sent is bound to the client's request when it comes into being (`roundTrip` sets
  `res.Request = req`; `errorResponse`, `newConnectResponse` and `connectHTTP` build it for `req`) —
  except one: the non-2xx answer of an upstream proxy to the CONNECT the proxy's own TRANSPORT sent for
  a client's non-CONNECT request (`GET https://…` in absolute form, a request inside an intercepted
  session).  `OnProxyConnectResponse` builds it for the transport's CONNECT; martian
  `writeErrorResponse` (proxy_conn.go, proxy_handler.go) rebinds it (`res.Request = req`) and only
  then runs the modifiers and writes it.  The order of these steps is a parameter, so that theorems can
  say which orders keep the dispatch clause. -/

/-- every kind of response a client can be sent -/
inductive ResponseKind where
  | origin             -- the origin's / upstream proxy's response to a forwarded non-CONNECT request, with a body
  | originHeaderOnly   -- the same for HEAD, 204, 304
  | switching          -- 101 to a forwarded request (the tunnel follows)
  | localError         -- generated by the proxy for a non-CONNECT request (400 403 407 451 500 502 504)
  | relayedRefusal     -- an upstream proxy's non-2xx answer to the TRANSPORT's CONNECT, relayed as the
                       -- response to the client's non-CONNECT request
  | connectOK          -- 200 to the client's CONNECT (tunnel established, or interception starts)
  | connectRefusal     -- an upstream proxy's non-2xx answer to the CLIENT's CONNECT, relayed
  | connectLocalError  -- generated by the proxy for the client's CONNECT
  deriving DecidableEq, Repr

def ResponseKind.all : List ResponseKind :=
  [.origin, .originHeaderOnly, .switching, .localError, .relayedRefusal, .connectOK, .connectRefusal,
   .connectLocalError]

/-- the request of the CLIENT the response answers is a CONNECT -/
def answersConnect : ResponseKind → Bool
  | .connectOK | .connectRefusal | .connectLocalError => true
  | _ => false

def msgOf (k : ResponseKind) : Msg := if answersConnect k then .connectResponse else .response

/-- the request `res.Request` can name -/
inductive BoundTo where
  | clientRequest | transportConnect
  deriving DecidableEq, Repr

/-- what `res.Request` names when the response comes into being -/
def bornBoundTo : ResponseKind → BoundTo
  | .relayedRefusal => .transportConnect        -- `OnProxyConnectResponse`: `NewResponse(code, body, connectReq)`
  | _ => .clientRequest

inductive WriteStep where
  | rebind     -- `res.Request = req; proxyutil.SetProto(res, req)`
  | modify     -- `p.modifyResponse(res)`
  | write      -- `p.writeResponse(res)`
  deriving DecidableEq, Repr

/-- the order of martian `writeErrorResponse` -/
def writeErrorOrder : List WriteStep := [.rebind, .modify, .write]

/-- "bind once, right before the write": status line, framing, keep-alive and accounting come out the
    same, the response modifiers see the transport's CONNECT -/
def rebindBeforeWrite : List WriteStep := [.modify, .rebind, .write]

/-- what `res.Request` names while the response modifiers run (a response that does not pass through
    `writeErrorResponse` is born bound to the client's request, for which `rebind` changes nothing) -/
def boundAtModify (order : List WriteStep) (k : ResponseKind) : BoundTo :=
  if (order.takeWhile (fun s => s != .modify)).contains .rebind then .clientRequest else bornBoundTo k

/-- the guard of `configureHeadersModifiers`' response modifier: `true` = the list is applied -/
def modifierRuns (b : BoundTo) (k : ResponseKind) : Bool :=
  match b with
  | .transportConnect => false
  | .clientRequest => !answersConnect k

def rulesApplyToWith (order : List WriteStep) (k : ResponseKind) : Bool :=
  modifierRuns (boundAtModify order k) k

/-- does the `--response-header` list touch a response of kind `k` (the code's order) -/
def rulesApplyTo (k : ResponseKind) : Bool := rulesApplyToWith writeErrorOrder k

def ResponseKind.ofName : String → Option ResponseKind
  | "origin" => some .origin | "origin-header-only" => some .originHeaderOnly
  | "switching" => some .switching | "local-error" => some .localError
  | "relayed-refusal" => some .relayedRefusal | "connect-ok" => some .connectOK
  | "connect-refusal" => some .connectRefusal | "connect-local-error" => some .connectLocalError
  | _ => none

end C16
end FwdVerif
