/-
  C16 — how a list of header rules ARRIVES (`bind/flag.go`, `utils/cobrautil/bind.go`,
  `anyflag.SliceValue`, `encoding/csv`).

  `--header`, `--response-header` and `--connect-header` are `anyflag.SliceValue[header.Header]` flags.

  * Command line: every occurrence of the flag calls `SliceValue.Set(value)`.  `Set` reads ONE record
    of comma separated values off its argument (`csv.NewReader(strings.NewReader(val)).Read()`,
    default reader settings) and parses every field with `header.ParseHeader`; the first `Set`
    replaces the default, later ones append.
  * Environment: `cobrautil.BindFromViper` hands the value of `FORWARDER_<NAME>` (a string; an empty
    variable counts as unset) to `Set`, unless the flag was given on the command line.
  * Config file (`--config-file`, YAML / JSON / TOML): a LIST value goes to `SliceValue.Replace`, one
    string per element — an element is a rule text as it stands, nothing is split; any other value is
    printed with `%v` and handed to `Set` (so a single string is again one CSV record).

  `csvRecord` mirrors `encoding/csv.Reader.Read` for the first record of its input with the default
  settings (Comma ',', no comment character, LazyQuotes and TrimLeadingSpace off).  Core-only.
-/
import FwdVerif.Model.C16

namespace FwdVerif
namespace C16

/-! ### `encoding/csv`: first record of an input -/

inductive CsvErr where
  | eof        -- io.EOF: no record in the input (empty, or blank lines only)
  | bareQuote  -- csv.ErrBareQuote: `"` inside a field that does not start with one
  | quote      -- csv.ErrQuote: a quoted field is not closed, or its closing `"` is followed by data
  deriving DecidableEq, Repr

/-- `Reader.readLine` over the whole input: every line ending `\r\n` becomes `\n`, and a `\r` that is
    the very last byte of the input is dropped.  `cr`: a CR was read and is still held back. -/
def csvNorm (cr : Bool) : Bytes → Bytes
  | [] => []
  | c :: rest =>
    if c == 13 then (if cr then 13 :: csvNorm true rest else csvNorm true rest)
    else if c == 10 then 10 :: csvNorm false rest
    else (if cr then 13 :: c :: csvNorm false rest else c :: csvNorm false rest)

inductive CsvSt where
  | start    -- at the first byte of a field
  | unq      -- inside a field that did not start with `"`
  | quoted   -- inside a quoted field
  | qq       -- inside a quoted field, right after a `"`
  deriving DecidableEq, Repr

instance {ε α : Type} [DecidableEq ε] [DecidableEq α] : DecidableEq (Except ε α) := fun a b =>
  match a, b with
  | .ok x, .ok y => if h : x = y then isTrue (by rw [h]) else isFalse (fun e => h (by cases e; rfl))
  | .error x, .error y => if h : x = y then isTrue (by rw [h]) else isFalse (fun e => h (by cases e; rfl))
  | .ok _, .error _ => isFalse (fun e => by cases e)
  | .error _, .ok _ => isFalse (fun e => by cases e)

def consField (f : Bytes) : Except CsvErr (List Bytes) → Except CsvErr (List Bytes)
  | .ok fs => .ok (f :: fs)
  | .error e => .error e

/-- `Reader.readRecord`'s field loop over the normalised input (every LF in it ends a line);
    `acc` is the field read so far.  The record ends with the line unless a quoted field is open. -/
def csvFields : CsvSt → Bytes → Bytes → Except CsvErr (List Bytes)
  | .start, _, [] => .ok [[]]
  | .start, _, c :: s =>
    if c == 34 then csvFields .quoted [] s
    else if c == 44 then consField [] (csvFields .start [] s)
    else if c == 10 then .ok [[]]
    else csvFields .unq [c] s
  | .unq, acc, [] => .ok [acc]
  | .unq, acc, c :: s =>
    if c == 44 then consField acc (csvFields .start [] s)
    else if c == 10 then .ok [acc]
    else if c == 34 then .error .bareQuote
    else csvFields .unq (acc ++ [c]) s
  | .quoted, _, [] => .error .quote
  | .quoted, acc, c :: s =>
    if c == 34 then csvFields .qq acc s else csvFields .quoted (acc ++ [c]) s
  | .qq, acc, [] => .ok [acc]
  | .qq, acc, c :: s =>
    if c == 34 then csvFields .quoted (acc ++ [34]) s
    else if c == 44 then consField acc (csvFields .start [] s)
    else if c == 10 then .ok [acc]
    else .error .quote

/-- `csv.NewReader(strings.NewReader(inp)).Read()`: blank lines in front are skipped -/
def csvRecord (inp : Bytes) : Except CsvErr (List Bytes) :=
  match (csvNorm false inp).dropWhile (fun c => c == 10) with
  | [] => .error .eof
  | c :: s => csvFields .start [] (c :: s)

/-! ### Writing a list of texts as one CSV record (what a user types after `--header`) -/

/-- a field that has to be quoted: it is empty or holds a comma or a double quote -/
def csvNeedsQuote (f : Bytes) : Bool := f.isEmpty || f.any (fun c => c == 44 || c == 34)

def csvEscape : Bytes → Bytes
  | [] => []
  | c :: f => if c == 34 then 34 :: 34 :: csvEscape f else c :: csvEscape f

/-- `"…"` with every `"` doubled -/
def csvQuote (f : Bytes) : Bytes := 34 :: (csvEscape f ++ [34])

/-- `force` says which of the fields that need no quotes are quoted all the same -/
def csvField (force : Bytes → Bool) (f : Bytes) : Bytes :=
  if force f || csvNeedsQuote f then csvQuote f else f

def csvEncode (force : Bytes → Bool) : List Bytes → Bytes
  | [] => []
  | [f] => csvField force f
  | f :: g :: fs => csvField force f ++ 44 :: csvEncode force (g :: fs)

/-- `strings.Join(ss, ",")` -/
def joinComma : List Bytes → Bytes
  | [] => []
  | [f] => f
  | f :: g :: fs => f ++ 44 :: joinComma (g :: fs)

/-! ### The three places a rule list can come from -/

inductive ConfigValue where
  | list (elems : List Bytes)   -- `header: ["…", "…"]`
  | text (s : Bytes)            -- `header: "…"`
  deriving DecidableEq, Repr

structure Source where
  flags : List Bytes := []               -- values of the occurrences of the flag, in command line order
  env : Option Bytes := none             -- FORWARDER_HEADER / _RESPONSE_HEADER / _CONNECT_HEADER
  config : Option ConfigValue := none    -- the key in the --config-file
  deriving DecidableEq, Repr

/-- successive `SliceValue.Set` calls: the first replaces the (empty) default, the others append -/
def setAll : List Bytes → Except CsvErr (List Bytes)
  | [] => .ok []
  | v :: vs =>
    match csvRecord v with
    | .error e => .error e
    | .ok r =>
      match setAll vs with
      | .error e => .error e
      | .ok rs => .ok (r ++ rs)

/-- `setFlagFromViper` on the config file's value: a list is `Replace`d in element by element -/
def textsOfConfig : Option ConfigValue → Except CsvErr (List Bytes)
  | none => .ok []
  | some (.list xs) => .ok xs
  | some (.text t) => csvRecord t

/-- the rule texts handed to `header.ParseHeader`, in order (precedence: command line, environment,
    config file, default) -/
def rulesOfSource (s : Source) : Except CsvErr (List Bytes) :=
  if s.flags ≠ [] then setAll s.flags
  else
    match s.env with
    | some e => if e ≠ [] then csvRecord e else textsOfConfig s.config
    | none => textsOfConfig s.config

/-- the rule list in force; `none`: start-up is refused (a value is not a CSV record, or a rule text
    is not a rule) -/
def rulesOf (s : Source) : Option (List Rule) :=
  match rulesOfSource s with
  | .ok ts => ts.mapM parseRule
  | .error _ => none

/-- the header set after processing a message whose header map is `h` with the list that arrived
    through `s` -/
def headerSetOf (s : Source) (h : HMap) : Option HMap := (rulesOf s).map (fun rs => applyRules rs h)

/-- the slip this section guards against: a config-file list joined with "," and read back as one
    CSV record -/
def joinedThenSplit (xs : List Bytes) : Except CsvErr (List Bytes) := csvRecord (joinComma xs)

end C16
end FwdVerif
