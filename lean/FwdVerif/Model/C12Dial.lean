/-
  C12 §12 — the dial phase: `forwarder.Dialer` (net.go) as command/run uses it (the transport of
  `NewHTTPTransport`, connection tracking on).  Core-only.

  Anchors (forwarder):
    net.go  Dialer.dialContext   the retry loop: `attempts` dials, `lastErr` = the error of the last one
    net.go  Dialer.DialContext   `err != nil` → the error; otherwise `conntrack.Builder{…}.Build(conn)`,
                                 which evaluates `conn.Close` — a nil `net.Conn` there is a nil dereference
                                 in the handler goroutine (nothing recovers it: the process dies)
    dialvia/http.go, socks5.go   `context.WithTimeout(ctx, ConnectTimeout)` around the dial of a client CONNECT
                                 that goes through an upstream proxy: the CALLER's context can end an attempt
                                 before the dialer's own `DialTimeout` does
    net (std)                    `mapErr`: a deadline of the context → `i/o timeout`, a cancellation →
                                 `operation was canceled`, both inside `&OpError{Op: "dial"}`

  The loop is a pure function of what each attempt returns and of whether the caller's context is done when it
  returns (the unchanged loop does not look at the context at all; variants that stop early do).
-/
import FwdVerif.Model.C12

namespace FwdVerif
namespace C12

/-! ## §12 the dialer's retry loop -/

/-- why one dial attempt (`net.Dialer.DialContext`) failed -/
inductive DialErr where
  | refused        -- ECONNREFUSED
  | reset          -- ECONNRESET in the connect
  | timeout        -- the dialer's own `DialTimeout` passed: `i/o timeout`
  | ctxDeadline    -- the caller's deadline passed first (dialvia's `ConnectTimeout`): `mapErr` → `i/o timeout` as well
  | ctxCanceled    -- the caller's context was cancelled (the client went away): `operation was canceled`
  deriving DecidableEq, Repr

/-- `OpError.Timeout()` of the attempt's error -/
def DialErr.isTimeout : DialErr → Bool
  | .timeout | .ctxDeadline => true
  | _ => false

/-- `conn, err := dial(ctx, network, address)` -/
inductive AttemptRes where
  | conn (c : Nat)
  | fail (e : DialErr)
  deriving DecidableEq, Repr

/-- one attempt: what the dial returned, and whether `ctx.Err() != nil` at that instant -/
structure Attempt where
  res : AttemptRes
  ctxDone : Bool := false
  deriving DecidableEq, Repr

/-- `(net.Conn, error)` as `dialContext` returns it -/
structure DialResult where
  conn : Option Nat
  err : Option DialErr
  deriving DecidableEq, Repr

/-- `attempts := d.rt.Attempts; if attempts <= 0 { attempts = 1 }` -/
def attemptsOf (n : Int) : Nat := if n ≤ 0 then 1 else n.toNat

/-- the loop from attempt `i` on with `fuel` attempts left: `err == nil` returns the connection, otherwise
    `lastErr = err` and on to the next attempt; after the last one `return nil, lastErr` -/
def dialLoopFrom (out : Nat → Attempt) : Nat → Nat → Option DialErr → DialResult
  | _, 0, last => ⟨none, last⟩
  | i, fuel + 1, _ =>
    match (out i).res with
    | .conn c => ⟨some c, none⟩
    | .fail e => dialLoopFrom out (i + 1) fuel (some e)

/-- `Dialer.dialContext` -/
def dialLoop (attempts : Int) (out : Nat → Attempt) : DialResult :=
  dialLoopFrom out 0 (attemptsOf attempts) none

/-- NOT the code: a loop that stops retrying once the caller's context is done, leaving BEFORE the error is
    recorded (`if ctx.Err() != nil { break }; lastErr = err`) -/
def dialLoopBreakFrom (out : Nat → Attempt) : Nat → Nat → Option DialErr → DialResult
  | _, 0, last => ⟨none, last⟩
  | i, fuel + 1, last =>
    match (out i).res with
    | .conn c => ⟨some c, none⟩
    | .fail e => if (out i).ctxDone then ⟨none, last⟩ else dialLoopBreakFrom out (i + 1) fuel (some e)

def dialLoopBreak (attempts : Int) (out : Nat → Attempt) : DialResult :=
  dialLoopBreakFrom out 0 (attemptsOf attempts) none

/-- NOT the code either: the same early exit with the error recorded first (`lastErr = err; if ctx.Err() != nil
    { break }`) — the harmless way of writing it -/
def dialLoopStopFrom (out : Nat → Attempt) : Nat → Nat → Option DialErr → DialResult
  | _, 0, last => ⟨none, last⟩
  | i, fuel + 1, _ =>
    match (out i).res with
    | .conn c => ⟨some c, none⟩
    | .fail e => if (out i).ctxDone then ⟨none, some e⟩ else dialLoopStopFrom out (i + 1) fuel (some e)

def dialLoopStop (attempts : Int) (out : Nat → Attempt) : DialResult :=
  dialLoopStopFrom out 0 (attemptsOf attempts) none

/-- what `Dialer.DialContext` hands to its caller with connection tracking on (the default, what command/run
    leaves in force): the error, the tracked connection — or a nil dereference when the loop returned `(nil, nil)` -/
inductive Dialled where
  | conn (c : Nat)
  | error (e : DialErr)
  | panic
  deriving DecidableEq, Repr

def tracked (r : DialResult) : Dialled :=
  match r.err with
  | some e => .error e
  | none =>
    match r.conn with
    | some c => .conn c
    | none => .panic

/-- `Dialer.DialContext` -/
def dialContext (attempts : Int) (out : Nat → Attempt) : Dialled := tracked (dialLoop attempts out)

/-- who dials, i.e. what wraps the dialer's error before `errorResponse` sees it -/
inductive DialRoute where
  | direct           -- the origin itself: by the transport, or by `Proxy.connect` for a client CONNECT
  | transportProxy   -- `http.Transport` dials its proxy (http, https, socks5 alike): wrapped in `proxyconnect`
  | dialviaHTTP      -- a client CONNECT through an http / https upstream proxy: dialvia hands the bare error back
  | dialviaSOCKS     -- a client CONNECT through a socks5 upstream proxy: wrapped in `socks connect`
  deriving DecidableEq, Repr

/-- the error chain `errorResponse` classifies -/
def dialErrKind (r : DialRoute) (e : DialErr) : ErrKind :=
  match r with
  | .transportProxy => .opChain .proxyconnect [.dial] e.isTimeout
  | .dialviaSOCKS => .opChain .socksConnect [.dial] e.isTimeout
  | _ =>
    match e with
    | .refused => .connRefused
    | e => .opError .dial e.isTimeout

/-- the route of an exchange of §4 (which has http / https upstream proxies only) -/
def routeOf (ex : Exchange) : DialRoute :=
  if viaTransportProxy ex then .transportProxy else if ex.viaUpstream then .dialviaHTTP else .direct

/-- (status, label) of the error response for a dial phase that ended in `d`; `none`: there is a connection
    (the exchange goes on) — or no answer at all because the process is gone -/
def dialVerdict (r : DialRoute) : Dialled → Option Verdict
  | .error e => some (classify (dialErrKind r e))
  | _ => none

/-- a finite script of attempts as a function; past its end the dial runs into the dialer's own time-out -/
def scriptOf (l : List Attempt) : Nat → Attempt := fun i => l.getD i ⟨.fail .timeout, false⟩

end C12
end FwdVerif
